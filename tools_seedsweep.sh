#!/bin/bash
# run every registered check at the given seed; summary in .cache/seedsweep_<seed>.txt (evidence files are overwritten; re-run default seed afterwards)
cd "$(dirname "$0")"; seed=$1; shift
ids="$@"; [ -z "$ids" ] && ids=$(cat checks/registered.txt)
for id in $ids; do
  out=$(VERIF_SEED=$seed ./fv check $id 2>&1 | grep -E "VIOLATION|quick:" | cut -c1-200 | tr '\n' '|')
  echo "$(date +%H:%M) seed=$seed $id $out" >> .cache/seedsweep_$seed.txt
done
