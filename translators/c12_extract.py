#!/usr/bin/env python3
"""C12 translator: regenerates coq/C12/Gen.v from /repo's current source.

 (a) skrifa/src/outline/glyf/memory.rs  — per constructor ({FreeType,HarfBuzz}OutlineMemory::new) the
     ordered `alloc_slice::<T>(buf, outline.<count>)` sequence with the branch it sits under, T taken
     from the type of the struct field the slice ends up in;
     skrifa/src/outline/glyf/outline.rs — `required_buffer_size` transliterated to a Coq function.
 (b) skrifa/src/outline/glyf/hint/instance.rs — for every field of `HintInstance`, what `setup` does
     to it; what `reconfigure` hands to the engine and in which order programs run; `hint` receiver;
     hint/engine/dispatch.rs — which definition maps `reset(program)` resets;
     hint/definition.rs — that `DefinitionMap::reset` fills with defaults;
     skrifa/src/outline/hint.rs — the same classification for `HintingInstance::reconfigure`, and whether its
     Engine::Auto arm hands the replaced instance to autohint::Instance::new;
     skrifa/src/outline/autohint/{instance.rs, metrics/mod.rs} — fields / parameters of the autohinter instance, its
     lazily filled lock-protected cache and whether `new` builds it from scratch.

Only the statement shapes listed in the parsers below are understood.  Anything else is a loud
failure (exit 1): the translation tie is then reported broken, never silently skipped.
Python 3, stdlib only.  Usage: c12_extract.py [--repo DIR] [--out coq/C12/Gen.v]   (default repo: $FV_REPO or /repo)
"""
import os
import re
import sys

REPO = os.environ.get("FV_REPO", "/repo")   # `./fv mutate` points this at its private patched copy
OUT = os.path.join(os.path.dirname(os.path.dirname(os.path.abspath(__file__))), "coq", "C12", "Gen.v")

# size_of / align_of on the harness' target (x86_64 / aarch64, usize = 64 bit).  The harness re-checks
# every row it can name against the real core::mem::{size_of, align_of} on every run.
TYPES = {
    "Point<F26Dot6>": (8, 4), "Point<Fixed>": (8, 4), "Point<i32>": (8, 4), "Point<f32>": (8, 4),
    "Point<f64>": (16, 8), "Point<i64>": (16, 8), "Point<i16>": (4, 2),
    "PointFlags": (1, 1), "u8": (1, 1), "i8": (1, 1), "u16": (2, 2), "i16": (2, 2),
    "u32": (4, 4), "i32": (4, 4), "f32": (4, 4), "F26Dot6": (4, 4), "Fixed": (4, 4), "F2Dot14": (2, 2),
    "u64": (8, 8), "i64": (8, 8), "f64": (8, 8), "usize": (8, 8), "isize": (8, 8),
    "Definition": (16, 4),
}
COUNTS = {
    "points": "Points", "contours": "Contours", "max_simple_points": "MaxSimplePoints",
    "max_other_points": "MaxOtherPoints", "max_component_delta_stack": "MaxComponentDeltaStack",
    "max_stack": "MaxStack", "cvt_count": "CvtCount", "storage_count": "StorageCount",
    "max_twilight_points": "MaxTwilightPoints",
}
COUNT_FIELDS = {k: "c_" + k for k in COUNTS}


class Fail(Exception):
    pass


def fail(msg):
    raise Fail(msg)


def read(rel):
    p = os.path.join(REPO, rel)
    if not os.path.exists(p):
        fail("source file missing: %s" % p)
    return open(p, encoding="utf-8").read()


def strip_comments(s):
    out = []
    i = 0
    n = len(s)
    while i < n:
        if s.startswith("//", i):
            j = s.find("\n", i)
            i = n if j < 0 else j
        elif s.startswith("/*", i):
            j = s.find("*/", i + 2)
            i = n if j < 0 else j + 2
        elif s[i] == '"':
            j = i + 1
            while j < n and s[j] != '"':
                j += 2 if s[j] == "\\" else 1
            out.append('""')
            i = j + 1
        else:
            out.append(s[i])
            i += 1
    return "".join(out)


def norm(s):
    return re.sub(r"\s+", " ", s).strip()


def tight(s):
    """whitespace-free form for exact comparisons"""
    return re.sub(r"\s+", "", s)


def match_close(s, i, op="{", cl="}"):
    """s[i] == op; returns index of the matching close"""
    assert s[i] == op, (s[i:i + 20], op)
    d = 0
    for j in range(i, len(s)):
        if s[j] == op:
            d += 1
        elif s[j] == cl:
            d -= 1
            if d == 0:
                return j
    fail("unbalanced %s in source" % op)


def cut_tests(src):
    """drop every item annotated #[cfg(test)] (test modules, test-only impls and methods)"""
    while True:
        i = src.find("#[cfg(test)]")
        if i < 0:
            return src
        j = src.find("{", i)
        k = src.find(";", i)
        if j < 0 or (0 <= k < j):
            src = src[:i] + src[k + 1:]
            continue
        src = src[:i] + src[match_close(src, j) + 1:]


def struct_fields(src, name, what):
    m = re.search(r"\bstruct\s+%s\b[^{;]*\{" % re.escape(name), src)
    if not m:
        fail("%s: struct %s not found" % (what, name))
    end = match_close(src, m.end() - 1)
    body = src[m.end():end]
    fields = []
    for part in split_top(body, ","):
        part = norm(part)
        if not part:
            continue
        part = re.sub(r"^(#\[[^\]]*\]\s*)*", "", part)
        mm = re.match(r"(?:pub(?:\([^)]*\))?\s+)?(\w+)\s*:\s*(.+)$", part)
        if not mm:
            fail("%s: struct %s: field not understood: %r" % (what, name, part))
        fields.append((mm.group(1), norm(mm.group(2))))
    if not fields:
        fail("%s: struct %s has no fields" % (what, name))
    return fields


def split_top(s, sep):
    parts, d, cur = [], 0, []
    i = 0
    while i < len(s):
        c = s[i]
        if c in "([{":
            d += 1
        elif c in ")]}":
            d -= 1
        elif c == "<" and re.match(r"[\w>]", s[i - 1:i] or " "):
            # generic bracket only when directly after an identifier (Point<..>, ::<..>)
            j = generic_close(s, i)
            if j is not None:
                cur.append(s[i:j + 1])
                i = j + 1
                continue
        if c == sep and d == 0:
            parts.append("".join(cur))
            cur = []
        else:
            cur.append(c)
        i += 1
    parts.append("".join(cur))
    return parts


def generic_close(s, i):
    d = 0
    for j in range(i, min(len(s), i + 200)):
        if s[j] == "<":
            d += 1
        elif s[j] == ">":
            d -= 1
            if d == 0:
                return j
        elif s[j] in ";{}()=&|+":
            return None
    return None


def fn_body(src, header_re, what):
    m = re.search(header_re, src)
    if not m:
        fail("%s: function header not found (pattern %s)" % (what, header_re))
    i = src.find("{", m.end() - 1)
    # skip a where clause / return type: the first '{' after the parameter list
    par = src.find("(", m.start())
    par_end = match_close(src, par, "(", ")")
    i = src.find("{", par_end)
    end = match_close(src, i)
    return src[par:par_end + 1], src[i + 1:end]


def statements(body):
    """top-level statements of a block body.  Each item: text without the trailing ';' and a flag
    has_semi.  Block statements (if/for/while/match/loop without let) end at their closing brace."""
    out = []
    i, n = 0, len(body)
    while i < n:
        while i < n and body[i].isspace():
            i += 1
        if i >= n:
            break
        start = i
        is_block = re.match(r"(if|for|while|match|loop)\b", body[i:]) is not None
        d = 0
        while i < n:
            c = body[i]
            if c in "([":
                d += 1
            elif c in ")]":
                d -= 1
            elif c == "{":
                j = match_close(body, i)
                i = j
                if is_block and d == 0:
                    # continue only through `else`
                    k = j + 1
                    while k < n and body[k].isspace():
                        k += 1
                    if body.startswith("else", k):
                        i = k + 4
                        continue
                    i = j + 1
                    # an optional ';' directly after a block statement
                    k = i
                    while k < n and body[k].isspace():
                        k += 1
                    semi = k < n and body[k] == ";"
                    out.append((norm(body[start:j + 1]), semi))
                    i = k + 1 if semi else i
                    break
            elif c == ";" and d == 0:
                out.append((norm(body[start:i]), True))
                i += 1
                break
            i += 1
        else:
            txt = norm(body[start:n])
            if txt:
                out.append((txt, False))
            break
    return out


def parse_if(stmt, what):
    """`if COND { A } else { B }` or `if COND { A }` -> (cond, A, B|None); stmt starts with 'if'"""
    m = re.match(r"if\s+", stmt)
    if not m:
        fail("%s: expected if-expression: %r" % (what, stmt[:80]))
    i = stmt.find("{")
    cond = norm(stmt[m.end():i])
    j = match_close(stmt, i)
    a = stmt[i + 1:j]
    rest = stmt[j + 1:].strip()
    if not rest:
        return cond, a, None
    mm = re.match(r"else\s*\{", rest)
    if not mm:
        fail("%s: expected else-block: %r" % (what, rest[:80]))
    k = match_close(rest, mm.end() - 1)
    if rest[k + 1:].strip():
        fail("%s: trailing text after else-block: %r" % (what, rest[k + 1:][:80]))
    return cond, a, rest[mm.end():k]


# ------------------------------------------------------------------ (a) memory.rs

HINTED_ALIAS = "outline.has_hinting&&hinting==Hinting::Embedded"
ALLOC_RE = re.compile(r"^alloc_slice\(buf,outline\.(\w+)\)\?$")


def slice_elem_type(ty, what):
    m = re.match(r"&'a mut \[(.+)\]$", ty)
    if not m:
        fail("%s: field type is not `&'a mut [T]`: %r" % (what, ty))
    t = tight(m.group(1))
    if t not in TYPES:
        fail("%s: element type %r has no (size, align) row in the translator's table" % (what, t))
    return t


def parse_memory_new(src, struct, what):
    fields = struct_fields(src, struct, what)
    ftypes = {f: slice_elem_type(t, "%s.%s" % (struct, f)) for f, t in fields}
    m = re.search(r"impl<'a>\s+%s<'a>\s*\{" % struct, src)
    if not m:
        fail("%s: impl block not found" % what)
    impl_end = match_close(src, m.end() - 1)
    impl = src[m.end():impl_end]
    params, body = fn_body(impl, r"fn\s+new\s*\(", what + "::new")
    conds = {"outline.has_variations": "CHasVariations"}
    allocs = []   # (local name, count field, cond)
    ret_fields = None

    def count_of(expr, ctx):
        mm = ALLOC_RE.match(tight(expr))
        if not mm:
            fail("%s: expected `alloc_slice(buf, outline.<count>)?`, found %r" % (ctx, expr))
        if mm.group(1) not in COUNTS:
            fail("%s: unknown count field outline.%s" % (ctx, mm.group(1)))
        return mm.group(1)

    def cond_of(c, ctx):
        c = norm(c)
        if c not in conds:
            fail("%s: branch condition %r not understood (known: %s)" % (ctx, c, sorted(conds)))
        return conds[c]

    def default_tuple(expr, arity, last, ctx):
        t = tight(expr)
        if arity == 0:
            if t != "Default::default()":
                fail("%s: else-branch must be Default::default(), found %r" % (ctx, expr))
            return
        want = "(" + ",".join(["Default::default()"] * arity + [last]) + ",)"
        if t not in (want, want.replace(",)", ")")):
            fail("%s: else-branch must be %s, found %r" % (ctx, want, norm(expr)))

    for stmt, semi in statements(body):
        ctx = "%s::new: `%s`" % (what, stmt[:70])
        if not semi:
            mm = re.match(r"Some\(Self\s*\{(.*)\}\s*\)$", stmt, re.S)
            if not mm:
                fail("%s: final expression is not `Some(Self { .. })`" % ctx)
            ret_fields = [norm(x) for x in mm.group(1).split(",") if norm(x)]
            for f in ret_fields:
                if not re.fullmatch(r"\w+", f):
                    fail("%s: struct initialiser must use field-init shorthand, found %r" % (ctx, f))
            continue
        mm = re.match(r"let\s+(\w+)\s*=\s*(.+)$", stmt, re.S)
        if mm and tight(mm.group(2)) == HINTED_ALIAS:
            conds[mm.group(1)] = "CHinted"
            continue
        if mm and mm.group(2).startswith("if "):
            # let NAME = if COND { alloc_slice(buf, outline.F)?.0 } else { Default::default() };
            c, a, b = parse_if(mm.group(2), ctx)
            if b is None:
                fail("%s: missing else" % ctx)
            ta = tight(a)
            if not ta.endswith(".0"):
                fail("%s: then-branch must be `alloc_slice(..)?.0`" % ctx)
            default_tuple(b, 0, "", ctx)
            allocs.append((mm.group(1), count_of(ta[:-2], ctx), cond_of(c, ctx)))
            continue
        mm = re.match(r"let\s*\(([^)]*)\)\s*=\s*(.+)$", stmt, re.S)
        if not mm:
            fail("%s: statement shape not understood" % ctx)
        names = [norm(x) for x in mm.group(1).split(",") if norm(x)]
        if len(names) < 2 or names[-1] not in ("buf", "_buf"):
            fail("%s: tuple pattern must end with the remaining buffer `buf`" % ctx)
        rhs = mm.group(2).strip()
        if not rhs.startswith("if "):
            if len(names) != 2:
                fail("%s: alloc_slice returns a pair" % ctx)
            allocs.append((names[0], count_of(rhs, ctx), "CAlways"))
            continue
        c, a, b = parse_if(rhs, ctx)
        if b is None:
            fail("%s: missing else" % ctx)
        cnd = cond_of(c, ctx)
        default_tuple(b, len(names) - 1, "buf", ctx)
        inner = statements(a)
        if len(inner) == 1 and not inner[0][1] and not inner[0][0].startswith("("):
            if len(names) != 2:
                fail("%s: alloc_slice returns a pair" % ctx)
            allocs.append((names[0], count_of(inner[0][0], ctx), cnd))
            continue
        local = []
        tail = None
        for st, sm in inner:
            if sm:
                m2 = re.match(r"let\s*\(\s*(\w+)\s*,\s*buf\s*\)\s*=\s*(.+)$", st, re.S)
                if not m2:
                    fail("%s: inner statement not understood: %r" % (ctx, st))
                local.append((m2.group(1), count_of(m2.group(2), ctx)))
            else:
                tail = st
        if tail is None:
            fail("%s: then-branch has no result tuple" % ctx)
        m3 = re.match(r"\((.*)\)$", tail, re.S)
        if not m3:
            fail("%s: then-branch result must be a tuple: %r" % (ctx, tail))
        res = [norm(x) for x in m3.group(1).split(",") if norm(x)]
        if len(res) != len(names) or res[-1] != "buf":
            fail("%s: result tuple %r does not match pattern %r" % (ctx, res, names))
        lnames = [l for l, _ in local]
        if sorted(lnames) != sorted(res[:-1]) or len(set(lnames)) != len(lnames):
            fail("%s: result tuple %r is not exactly the locally allocated slices %r" % (ctx, res, lnames))
        ren = dict(zip(res[:-1], names[:-1]))
        for l, cf in local:
            allocs.append((ren[l], cf, cnd))
    if ret_fields is None:
        fail("%s::new: no `Some(Self { .. })` found" % what)
    got = [a[0] for a in allocs]
    if len(set(got)) != len(got):
        fail("%s::new: a slice name is allocated twice: %r" % (what, got))
    if set(got) != set(ftypes) or set(ret_fields) != set(ftypes):
        fail("%s::new: allocated %r, returned %r, struct fields %r differ" % (what, sorted(got), sorted(ret_fields), sorted(ftypes)))
    return [(name, ftypes[name], cf, cnd) for name, cf, cnd in allocs]


# ------------------------------------------------------------------ required_buffer_size

class ExprParser:
    """EXPR := TERM ('+' TERM)* ; TERM := ATOM ('*' ATOM)* ;
       ATOM := int | self.<count> | size_of::<T>() | [std::mem::|core::mem::]align_of::<T>() | '(' EXPR ')'
             | if <boolvar> { int } else { int }"""

    def __init__(self, s, bools, ctx):
        self.toks = re.findall(r"size_of::<|align_of::<|std::mem::|core::mem::|self\.\w+|\w+|[()+*{}]|>\(\)|<|>|::|\S", s)
        self.s = s
        self.i = 0
        self.bools = bools
        self.ctx = ctx
        self.types = []

    def peek(self):
        return self.toks[self.i] if self.i < len(self.toks) else None

    def eat(self, t=None):
        x = self.peek()
        if x is None or (t is not None and x != t):
            fail("%s: expression not understood near token %r in %r" % (self.ctx, x, self.s))
        self.i += 1
        return x

    def expr(self):
        t = [self.term()]
        while self.peek() == "+":
            self.eat()
            t.append(self.term())
        return t[0] if len(t) == 1 else "(" + " + ".join(t) + ")"

    def term(self):
        t = [self.atom()]
        while self.peek() == "*":
            self.eat()
            t.append(self.atom())
        return t[0] if len(t) == 1 else "(" + " * ".join(t) + ")"

    def type_until_close(self):
        parts = []
        d = 1
        while True:
            x = self.eat()
            if x == "<":
                d += 1
            elif x == ">":
                d -= 1
            elif x == ">()":
                d -= 1
                if d == 0:
                    break
                # inner '>' followed by '()' cannot happen for the types we know
                fail("%s: type not understood in %r" % (self.ctx, self.s))
            parts.append(x)
        t = "".join(parts)
        if t not in TYPES:
            fail("%s: type %r has no (size, align) row in the translator's table" % (self.ctx, t))
        return t

    def atom(self):
        x = self.peek()
        if x in ("std::mem::", "core::mem::"):
            self.eat()
            x = self.peek()
        if x is None:
            fail("%s: unexpected end of expression %r" % (self.ctx, self.s))
        if re.fullmatch(r"\d+", x):
            self.eat()
            return x
        if x.startswith("self."):
            self.eat()
            f = x[5:]
            if f not in COUNT_FIELDS:
                fail("%s: unknown count field %s" % (self.ctx, x))
            return "%s c" % COUNT_FIELDS[f]
        if x == "size_of::<":
            self.eat()
            t = self.type_until_close()
            self.types.append(t)
            return "%d (* size_of %s *)" % (TYPES[t][0], t)
        if x == "align_of::<":
            self.eat()
            t = self.type_until_close()
            self.types.append(t)
            return "%d (* align_of %s *)" % (TYPES[t][1], t)
        if x == "(":
            self.eat()
            e = self.expr()
            self.eat(")")
            return e
        if x == "if":
            self.eat()
            b = self.eat()
            if b not in self.bools:
                fail("%s: condition %r not understood" % (self.ctx, b))
            self.eat("{")
            t = self.eat()
            self.eat("}")
            self.eat("else")
            self.eat("{")
            e = self.eat()
            self.eat("}")
            if not (t.isdigit() and e.isdigit()):
                fail("%s: if-expression arms must be integer literals" % self.ctx)
            return "(if %s then %s else %s)" % (self.bools[b], t, e)
        fail("%s: expression not understood near token %r in %r" % (self.ctx, x, self.s))


def parse_required_buffer_size(src):
    what = "outline.rs::required_buffer_size"
    params, body = fn_body(src, r"fn\s+required_buffer_size\s*\(", what)
    if tight(params) != "(&self,hinting:Hinting)":
        fail("%s: parameter list changed: %s" % (what, norm(params)))
    lines = []
    bools = {}
    types = []
    slack = None
    st = statements(body)
    if not st or tight(st[0][0]) != "letmutsize=0":
        fail("%s: expected `let mut size = 0;` first" % what)
    if st[-1] != ("size", False):
        fail("%s: expected the function to end with `size`" % what)

    def emit_adds(stmts, indent, ctx0):
        nonlocal slack
        for s, semi in stmts:
            ctx = "%s: `%s`" % (ctx0, s[:70])
            m = re.match(r"size\s*\+=\s*(.+)$", s, re.S)
            if m and semi:
                p = ExprParser(m.group(1), bools, ctx)
                e = p.expr()
                if p.peek() is not None:
                    fail("%s: trailing tokens in expression" % ctx)
                types.extend(p.types)
                lines.append("%slet size := size + %s in" % (indent, e))
                continue
            fail("%s: statement shape not understood" % ctx)

    for s, semi in st[1:-1]:
        ctx = "%s: `%s`" % (what, s[:70])
        m = re.match(r"let\s+(\w+)\s*=\s*(.+)$", s, re.S)
        if m and tight(m.group(2)) == "self.has_hinting&&hinting==Hinting::Embedded":
            lines.append("  let %s_ := c_has_hinting c && hinting_embedded in" % m.group(1))
            bools[m.group(1)] = m.group(1) + "_"
            continue
        if s.startswith("if "):
            c, a, b = parse_if(s, ctx)
            if b is not None:
                fail("%s: unexpected else" % ctx)
            c = tight(c)
            if c == "size!=0":
                inner = statements(a)
                if len(inner) != 1:
                    fail("%s: slack block must be a single `size += align_of::<T>()`" % ctx)
                m2 = re.match(r"size\s*\+=\s*(?:std::mem::|core::mem::)?align_of::<(.+)>\(\)$", inner[0][0])
                if not m2 or tight(m2.group(1)) not in TYPES:
                    fail("%s: slack term not understood: %r" % (ctx, inner[0][0]))
                t = tight(m2.group(1))
                slack = (t, TYPES[t][1])
                types.append(t)
                lines.append("  let size := if negb (size =? 0) then size + slack (* align_of %s *) else size in" % t)
                continue
            if c == "self.has_variations":
                cv = "c_has_variations c"
            elif c in bools:
                cv = bools[c]
            else:
                fail("%s: condition not understood" % ctx)
            lines.append("  let size := if %s then" % cv)
            lines.append("    (")
            emit_adds(statements(a), "     ", what)
            lines.append("     size)")
            lines.append("    else size in")
            continue
        emit_adds([(s, semi)], "  ", what)
    if slack is None:
        fail("%s: the alignment slack term (`if size != 0 { size += align_of::<T>() }`) is gone" % what)
    return lines, slack, types


# ------------------------------------------------------------------ (b) reset discipline

def scan_self_ops(body, fields, what):
    """every textual occurrence of self.<field> in order, classified, with its brace depth"""
    ops = []
    depth_at = []
    d = 0
    for ch in body:
        depth_at.append(d)
        if ch == "{":
            d += 1
        elif ch == "}":
            d -= 1
    for m in re.finditer(r"self\s*\.\s*(\w+)", body):
        f = m.group(1)
        if f not in fields:
            if re.match(r"\s*\(", body[m.end():]):
                continue   # method call on self (e.g. self.setup(..)) — handled by the caller
            fail("%s: self.%s is not a field of the struct" % (what, f))
        dep = depth_at[m.start()]
        after = body[m.end():]
        before = body[:m.start()]
        a = after.lstrip()
        if re.search(r"core::mem::replace\(\s*&mut\s*$", before):
            j = after.find(")")
            ops.append((f, "take", dep, norm(after[1:j].lstrip(", "))))
        elif re.search(r"&mut\s*$", before):
            ops.append((f, "mutborrow", dep, ""))
        elif re.match(r"\.\s*clear\s*\(\s*\)", a):
            ops.append((f, "clear", dep, ""))
        elif re.match(r"\.\s*resize\s*\(", a):
            i = a.find("(")
            j = match_close(a, i, "(", ")")
            args = split_top(a[i + 1:j], ",")
            args = [norm(x) for x in args if norm(x)]
            if len(args) != 2:
                fail("%s: self.%s.resize with %d arguments" % (what, f, len(args)))
            ops.append((f, "resize", dep, (args[0], args[1])))
        elif re.match(r"\.\s*(extend|extend_from_slice|push|insert|append)\s*\(", a):
            i = a.find("(")
            j = match_close(a, i, "(", ")")
            ops.append((f, "extend", dep, norm(a[i + 1:j])))
        elif re.match(r"\.\s*(iter_mut|as_mut_slice|fill|truncate|drain|retain|pop|swap|sort\w*)\s*\(", a):
            ops.append((f, "mutiter", dep, ""))
        elif re.match(r"=[^=]", a):
            j = a.find(";")
            ops.append((f, "assign", dep, norm(a[1:j])))
        elif re.match(r"(\+|-|\*|/|\||&|\^|<<|>>)=", a):
            ops.append((f, "update", dep, ""))
        else:
            ops.append((f, "read", dep, ""))
    return ops


def local_aliases(body):
    """let NAME = outlines.X as usize;  ->  NAME -> X"""
    al = {}
    for m in re.finditer(r"let\s+(\w+)\s*=\s*outlines\s*\.\s*(\w+)\s+as\s+usize\s*;", body):
        al[m.group(1)] = m.group(2)
    return al


def size_key(expr, aliases, what):
    e = tight(expr)
    m = re.fullmatch(r"outlines\.(\w+)asusize", e)
    if m:
        return m.group(1)
    if e in aliases:
        return aliases[e]
    m = re.fullmatch(r"(\w+)\.len\(\)", e)
    if m:
        return m.group(1) + "_len"
    fail("%s: resize length %r not understood" % (what, expr))


DEFAULTS = ("Default::default()", "Definition::default()", "0")


def classify_fields(body, fields, what):
    """field -> (action, detail)"""
    names = [f for f, _ in fields]
    ops = scan_self_ops(body, names, what)
    aliases = local_aliases(body)
    table = []
    for f in names:
        mine = [(k, d, arg) for (g, k, d, arg) in ops if g == f]
        if not mine:
            table.append((f, "AUntouched", "never mentioned"))
            continue
        k0, d0, a0 = mine[0]
        rest = mine[1:]
        if k0 == "clear" and d0 == 0:
            if len(rest) == 1 and rest[0][0] == "resize" and rest[0][1] == 0 and tight(rest[0][2][1]) in map(tight, DEFAULTS) and "self." not in rest[0][2][0]:
                table.append((f, 'AClearResize "%s"' % size_key(rest[0][2][0], aliases, what), "clear(); resize(%s, %s)" % rest[0][2]))
            elif all(k in ("resize", "extend", "mutborrow", "mutiter", "read") for k, _, _ in rest) and not any("self." in str(a) for _, _, a in rest):
                table.append((f, "AClearFill", "clear(); then " + ", ".join(k for k, _, _ in rest)))
            else:
                table.append((f, "AUnknown", "clear(); then " + ", ".join(k for k, _, _ in rest)))
        elif k0 == "assign" and d0 == 0 and "self." not in a0 and all((k == "assign" and "self." not in a) or k == "read" for k, _, a in rest):
            table.append((f, "AAssign", "= " + a0))
        elif k0 == "take" and d0 == 0 and all(k == "assign" for k, _, _ in rest):
            table.append((f, "ATake", "core::mem::replace(&mut self.%s, %s)" % (f, a0)))
        elif k0 == "resize" and d0 == 0 and not rest and tight(a0[1]) in map(tight, DEFAULTS) and "self." not in a0[0]:
            table.append((f, 'AResizeOnly "%s"' % size_key(a0[0], aliases, what), "resize(%s, %s) without clear()" % a0))
        else:
            table.append((f, "AUnknown", ", ".join("%s@%d" % (k, d) for k, d, _ in mine)))
    return table


INTERIOR = re.compile(r"\b(Cell|RefCell|UnsafeCell|OnceCell|Mutex|RwLock|Atomic\w*|OnceLock|LazyLock)\b")


def parse_hint_instance(src):
    what = "hint/instance.rs"
    fields = struct_fields(src, "HintInstance", what)
    params, setup = fn_body(src, r"fn\s+setup\s*\(", what + "::setup")
    if not tight(params).startswith("(&mutself,"):
        fail("%s::setup: receiver is not &mut self" % what)
    table = classify_fields(setup, fields, what + "::setup")
    # reconfigure: must call self.setup first; then record how each field is handed to the engine
    params, rec = fn_body(src, r"fn\s+reconfigure\s*\(", what + "::reconfigure")
    st = statements(rec)
    if not st or not tight(st[0][0]).startswith("self.setup("):
        fail("%s::reconfigure: first statement is no longer `self.setup(..)`" % what)
    i_setup = rec.find("self.setup(")
    after = rec[rec.find(";", i_setup) + 1:]
    names = [f for f, _ in fields]
    uses = []
    for m in re.finditer(r"self\s*\.\s*(\w+)", after):
        f = m.group(1)
        if f not in names:
            fail("%s::reconfigure: self.%s is not a field" % (what, f))
        before = after[:m.start()]
        a = after[m.end():].lstrip()
        if re.search(r"DefinitionMap::Mut\(\s*&mut\s*$", before):
            uses.append((f, "UDefMut"))
        elif re.search(r"DefinitionMap::Ref\(\s*&\s*$", before):
            uses.append((f, "UDefRef"))
        elif re.search(r"CowSlice::new_mut\(\s*&mut\s*$", before):
            uses.append((f, "UCowMut"))
        elif re.search(r"&mut\s*$", before):
            uses.append((f, "UMut"))
        elif re.match(r"=[^=]", a):
            j = a.find(";")
            uses.append((f, "UAssignAfterRun" if "engine" in a[:j] else "UAssign"))
        else:
            uses.append((f, "URead"))
    # the engine's DefinitionState::new(functions, instructions): positional mapping to instance fields
    m = re.search(r"DefinitionState::new\s*\(", after)
    if not m:
        fail("%s::reconfigure: DefinitionState::new(..) not found" % what)
    j = match_close(after, m.end() - 1, "(", ")")
    args = [tight(x) for x in split_top(after[m.end():j], ",") if tight(x)]
    defmaps = []
    for a in args:
        mm = re.fullmatch(r"DefinitionMap::(Mut|Ref)\(&(?:mut)?self\.(\w+)\)", a)
        if not mm:
            fail("%s::reconfigure: DefinitionState::new argument not understood: %r" % (what, a))
        defmaps.append((mm.group(2), mm.group(1)))
    # retained graphics handed to the engine must be built from the arguments
    m = re.search(r"let\s+graphics\s*=\s*([^;]+);", after)
    if not m:
        fail("%s::reconfigure: `let graphics = ..` not found" % what)
    graphics_from_args = "self." not in m.group(1)
    # program order
    progs = re.findall(r"engine\s*\.\s*run_program\s*\(\s*Program::(\w+)\s*,[^)]*\)\s*\?", after)
    if not progs:
        fail("%s::reconfigure: no engine.run_program(Program::X, ..)? calls found" % what)
    # hint(): receiver and Ref maps
    hparams, hint = fn_body(src, r"pub\s+fn\s+hint\s*\(", what + "::hint")
    hint_shared = tight(hparams).startswith("(&self,")
    hint_ops = scan_self_ops(hint, names, what + "::hint")
    hint_writes = [f for (f, k, d, a) in hint_ops if k != "read"]
    interior = [f for f, t in fields if INTERIOR.search(t)]
    return fields, table, uses, defmaps, graphics_from_args, progs, hint_shared, hint_writes, interior


def parse_definition_state(src):
    what = "hint/definition.rs"
    m = re.search(r"impl<'a>\s+DefinitionState<'a>\s*\{", src)
    if not m:
        fail("%s: impl DefinitionState not found" % what)
    impl = src[m.end():match_close(src, m.end() - 1)]
    params, body = fn_body(impl, r"fn\s+new\s*\(", what + "::DefinitionState::new")
    ps = [tight(p).split(":")[0] for p in split_top(params[1:-1], ",") if tight(p)]
    mm = re.search(r"Self\s*\{([^}]*)\}", body)
    if not mm:
        fail("%s: DefinitionState::new body not understood" % what)
    inits = [tight(x) for x in mm.group(1).split(",") if tight(x)]
    if inits != ps:
        fail("%s: DefinitionState::new is not the positional shorthand initialiser: %r vs %r" % (what, ps, inits))
    # DefinitionMap::reset
    m = re.search(r"impl\s+DefinitionMap<'_>\s*\{", src)
    if not m:
        fail("%s: impl DefinitionMap not found" % what)
    impl = src[m.end():match_close(src, m.end() - 1)]
    params, body = fn_body(impl, r"pub\s+fn\s+reset\s*\(", what + "::DefinitionMap::reset")
    fills = tight(body) in ("ifletSelf::Mut(defs)=self{defs.fill(Default::default())}",
                            "ifletSelf::Mut(defs)=self{defs.fill(Default::default());}")
    return ps, fills


def parse_dispatch_reset(src):
    what = "hint/engine/dispatch.rs::reset"
    params, body = fn_body(src, r"pub\s+fn\s+reset\s*\(", what)
    m = re.search(r"match\s+program\s*\{", body)
    if not m:
        fail("%s: `match program` not found" % what)
    j = match_close(body, m.end() - 1)
    arms_src = body[m.end():j]
    arms = {}
    i = 0
    while True:
        mm = re.compile(r"\s*Program::(\w+)\s*=>\s*\{").match(arms_src, i)
        if not mm:
            if arms_src[i:].strip().strip(","):
                fail("%s: match arm not understood near %r" % (what, arms_src[i:i + 60]))
            break
        k = match_close(arms_src, mm.end() - 1)
        arm = arms_src[mm.end():k]
        arms[mm.group(1)] = re.findall(r"self\s*\.\s*definitions\s*\.\s*(\w+)\s*\.\s*reset\s*\(\s*\)", arm)
        i = k + 1
        while i < len(arms_src) and arms_src[i] in ", \n\t":
            i += 1
    if "Font" not in arms:
        fail("%s: no Program::Font arm" % what)
    # run_program = reset then run
    p2, rp = fn_body(src, r"pub\s+fn\s+run_program\s*\(", "dispatch.rs::run_program")
    if tight(rp) != "self.reset(program,is_pedantic);self.run()":
        fail("dispatch.rs::run_program is no longer `self.reset(program, is_pedantic); self.run()`")
    return arms


def parse_outer(src):
    what = "outline/hint.rs"
    fields = struct_fields(src, "HintingInstance", what)
    params, body = fn_body(src, r"pub\s+fn\s+reconfigure\s*<'a>\s*\(", what + "::HintingInstance::reconfigure")
    table = classify_fields(body, fields, what + "::reconfigure")
    # reuse of the previous instance's memory
    t = tight(body)
    glyf_reuse = "HinterKind::Glyf(instance)=>instance,_=>Box::<glyf::HintInstance>::default()" in t
    cff_reuse = "HinterKind::Cff(subfonts)=>subfonts,_=>vec![]" in t
    if not glyf_reuse or not cff_reuse:
        fail("%s::reconfigure: the memory-reuse matches on current_kind changed shape" % what)
    i = t.find("HinterKind::Cff(subfonts)=>subfonts")
    j = t.find("subfonts.push(", i)
    k = t.find("subfonts.clear();", i)
    cff_cleared = 0 <= k < j
    glyf_recfg = "hint_instance.reconfigure(" in t
    if not glyf_recfg:
        fail("%s::reconfigure: hint_instance.reconfigure(..) call not found" % what)
    coords_src = "self.coords.extend_from_slice(location.into().effective_coords())" in t
    return fields, table, cff_cleared, coords_src


def parse_autohint(hint_src, inst_src, metrics_src):
    """Engine::Auto arm of HintingInstance::reconfigure, autohint::Instance and its lazily filled cache."""
    what = "outline/hint.rs::reconfigure Engine::Auto arm"
    params, body = fn_body(hint_src, r"pub\s+fn\s+reconfigure\s*<'a>\s*\(", what)
    m = re.search(r"Engine::Auto\(\s*(\w+)\s*\)\s*=>\s*\{", body)
    if not m:
        fail("%s: arm `Engine::Auto(x) => { .. }` not found" % what)
    arm = body[m.end():match_close(body, m.end() - 1)]
    mm = re.search(r"autohint::Instance::new\s*\(", arm)
    if not mm:
        fail("%s: autohint::Instance::new(..) call not found" % what)
    j = match_close(arm, mm.end() - 1, "(", ")")
    args = [norm(x) for x in split_top(arm[mm.end():j], ",") if norm(x)]
    # anything derived from the instance that is being replaced
    tainted = {"current_kind"}
    for lm in re.finditer(r"let\s+(?:mut\s+)?(\w+)\s*=\s*([^;]*);", arm):
        if any(re.search(r"\b%s\b" % re.escape(t), lm.group(2)) for t in tainted) or "self.kind" in lm.group(2):
            tainted.add(lm.group(1))
    arm_reuses = any(re.search(r"\b%s\b" % re.escape(t), a) for t in tainted for a in args) or any("self.kind" in a for a in args)
    if not re.search(r"self\s*\.\s*kind\s*=\s*HinterKind::Auto\(\s*instance\s*\)", arm):
        fail("%s: `self.kind = HinterKind::Auto(instance)` not found" % what)
    # autohint::Instance
    what2 = "outline/autohint/instance.rs"
    fields = struct_fields(inst_src, "Instance", what2)
    im = re.search(r"impl\s+Instance\s*\{", inst_src)
    if not im:
        fail("%s: impl Instance not found" % what2)
    impl = inst_src[im.end():match_close(inst_src, im.end() - 1)]
    nparams, nbody = fn_body(impl, r"pub\s+fn\s+new\s*\(", what2 + "::Instance::new")
    plist = []
    for prm in split_top(nparams[1:-1], ","):
        prm = norm(prm)
        if not prm:
            continue
        pm = re.match(r"(\w+)\s*:\s*(.+)$", prm)
        if not pm:
            fail("%s::new: parameter not understood: %r" % (what2, prm))
        plist.append((pm.group(1), pm.group(2)))
    if len(plist) != len(args):
        fail("%s: Instance::new takes %d parameters but the Auto arm passes %d" % (what2, len(plist), len(args)))
    takes_previous = any(re.search(r"\b(Instance|Self|HintingInstance|UnscaledStyleMetricsSet)\b", t) for _, t in plist)
    # the instance is assembled with a shorthand initialiser of exactly its fields
    sm = re.search(r"Self\s*\{([^}]*)\}\s*$", nbody.strip())
    if not sm:
        fail("%s::new: does not end with `Self { .. }`" % what2)
    inits = [tight(x) for x in sm.group(1).split(",") if tight(x)]
    if sorted(inits) != sorted(f for f, _ in fields):
        fail("%s::new: initialiser %r is not the shorthand list of the fields %r" % (what2, inits, [f for f, _ in fields]))
    # lazily filled / shared state: variants of the metrics set with interior mutability
    what3 = "outline/autohint/metrics/mod.rs"
    em = re.search(r"enum\s+UnscaledStyleMetricsSet\s*\{", metrics_src)
    if not em:
        fail("%s: enum UnscaledStyleMetricsSet not found" % what3)
    ebody = metrics_src[em.end():match_close(metrics_src, em.end() - 1)]
    variants = []
    for part in split_top(ebody, ","):
        part = re.sub(r"^(\s*#\[[^\]]*\]\s*)*", "", part.strip())
        if part:
            variants.append(tight(part))
    lazy_variants = [v for v in variants if INTERIOR.search(v)]
    # which Instance fields hold such state (type = the metrics set, or directly interior-mutable)
    lazy_fields = [f for f, t in fields if INTERIOR.search(t) or (lazy_variants and re.search(r"\bUnscaledStyleMetricsSet\b", t))]
    # every lazily filled field must be built from scratch by `new`: all `let <field> = ..;` right-hand sides are
    # constructor calls on the arguments
    built_fresh = True
    detail = []
    for f in lazy_fields:
        rhss = [tight(x.group(1)) for x in re.finditer(r"let\s+%s\s*=\s*([^;]*);" % re.escape(f), nbody)]
        if not rhss:
            built_fresh = False
            detail.append("%s: no `let %s = ..`" % (f, f))
        ctor = r"UnscaledStyleMetricsSet::(lazy|precomputed)\([^{};]*\)"
        for r in rhss:
            ok = re.fullmatch(ctor, r) or re.fullmatch(r"iflazy_metrics\{%s\}else\{%s\}" % (ctor, ctor), r)
            detail.append("%s = %s" % (f, r[:90]))
            if not ok:
                built_fresh = False
    return arm_reuses, args, fields, plist, takes_previous, lazy_variants, lazy_fields, built_fresh, detail


# ------------------------------------------------------------------ output

def coq_str(s):
    return '"%s"' % s.replace('"', '""')


def main():
    global REPO, OUT
    args = sys.argv[1:]
    while args:
        a = args.pop(0)
        if a == "--repo":
            REPO = args.pop(0)
        elif a == "--out":
            OUT = args.pop(0)
        else:
            print("unknown argument " + a, file=sys.stderr)
            return 2
    base = "skrifa/src/outline/"
    mem = cut_tests(strip_comments(read(base + "glyf/memory.rs")))
    outl = cut_tests(strip_comments(read(base + "glyf/outline.rs")))
    inst = cut_tests(strip_comments(read(base + "glyf/hint/instance.rs")))
    disp = cut_tests(strip_comments(read(base + "glyf/hint/engine/dispatch.rs")))
    defs = cut_tests(strip_comments(read(base + "glyf/hint/definition.rs")))
    hint = cut_tests(strip_comments(read(base + "hint.rs")))
    ainst = cut_tests(strip_comments(read(base + "autohint/instance.rs")))
    ametr = cut_tests(strip_comments(read(base + "autohint/metrics/mod.rs")))

    ft = parse_memory_new(mem, "FreeTypeOutlineMemory", "memory.rs::FreeTypeOutlineMemory")
    hb = parse_memory_new(mem, "HarfBuzzOutlineMemory", "memory.rs::HarfBuzzOutlineMemory")
    # alloc_slice / align_up themselves are hand-modelled in Carve.v: pin their text
    p, body = fn_body(mem, r"fn\s+align_up\s*\(", "memory.rs::align_up")
    if tight(body) != "len+(len.wrapping_neg()&(alignment-1))":
        fail("memory.rs::align_up changed: %s (Carve.v models `len + (len.wrapping_neg() & (alignment - 1))`)" % norm(body))
    p, body = fn_body(mem, r"fn\s+alloc_slice\s*<T>\s*\(", "memory.rs::alloc_slice")
    want = ("iflen==0{returnSome((Default::default(),buf));}letbase_ptr=buf.as_ptr()asusize;"
            "letaligned_ptr=align_up(base_ptr,align_of::<T>());letaligned_offset=aligned_ptr-base_ptr;"
            "letbuf=buf.get_mut(aligned_offset..)?;letlen_in_bytes=len*size_of::<T>();"
            "iflen_in_bytes>buf.len(){returnNone;}let(slice_buf,rest)=buf.split_at_mut(len_in_bytes);"
            "letslice=bytemuck::try_cast_slice_mut(slice_buf).ok()?;Some((slice,rest))")
    if tight(body) != want:
        fail("memory.rs::alloc_slice changed; coq/C12/Carve.v `alloc_slice` mirrors the previous text statement by statement.\n"
             "  now: %s" % tight(body))
    size_lines, slack, size_types = parse_required_buffer_size(outl)

    fields, table, uses, defmaps, graphics_from_args, progs, hint_shared, hint_writes, interior = parse_hint_instance(inst)
    ds_params, map_reset_fills = parse_definition_state(defs)
    arms = parse_dispatch_reset(disp)
    if len(defmaps) != len(ds_params):
        fail("instance.rs::reconfigure passes %d maps to DefinitionState::new(%s)" % (len(defmaps), ", ".join(ds_params)))
    o_fields, o_table, cff_cleared, coords_src = parse_outer(hint)
    (arm_reuses, auto_args, a_fields, a_params, takes_previous, lazy_variants, lazy_fields, built_fresh, a_detail) = parse_autohint(hint, ainst, ametr)

    used_types = []
    for row in ft + hb:
        if row[1] not in used_types:
            used_types.append(row[1])
    for t in size_types:
        if t not in used_types:
            used_types.append(t)

    o = []
    w = o.append
    w("(* GENERATED by translators/c12_extract.py — do not edit; regenerated and overwritten on every run.")
    w("   Sources (under /repo/skrifa/src/outline/): glyf/memory.rs, glyf/outline.rs, glyf/hint/instance.rs,")
    w("   glyf/hint/engine/dispatch.rs, glyf/hint/definition.rs, hint.rs.   Definitions only. *)")
    w("From Coq Require Import ZArith List Bool String.")
    w("From FV Require Import C12.Carve.")
    w("Import ListNotations.")
    w("Open Scope string_scope.")
    w("Open Scope Z_scope.")
    w("")
    w("(* element types met in alloc_slice / size_of / align_of: (name, (size_of, align_of)) *)")
    w("Definition type_table : list (string * (Z * Z)) := [")
    w(";\n".join("  (%s, (%d, %d))" % (coq_str(t), TYPES[t][0], TYPES[t][1]) for t in used_types))
    w("].")
    w("")

    def emit_allocs(name, rows, src):
        w("(* %s: the alloc_slice calls in source order *)" % src)
        w("Definition %s : list alloc_entry := [" % name)
        w(";\n".join("  {| ae_field := %s; ae_ty := %s; ae_size := %d; ae_align := %d; ae_cond := %s; ae_count := %s |}"
                     % (coq_str(f), coq_str(t), TYPES[t][0], TYPES[t][1], cnd, COUNTS[cf]) for f, t, cf, cnd in rows))
        w("].")
        w("")

    emit_allocs("ft_allocs", ft, "memory.rs FreeTypeOutlineMemory::new")
    emit_allocs("hb_allocs", hb, "memory.rs HarfBuzzOutlineMemory::new")
    w("(* outline.rs Outline::required_buffer_size: `if size != 0 { size += align_of::<%s>() }` *)" % slack[0])
    w("Definition slack : Z := %d." % slack[1])
    w("")
    w("(* outline.rs Outline::required_buffer_size(&self, hinting), hinting_embedded = (hinting == Hinting::Embedded) *)")
    w("Definition required_buffer_size (c : counts) (hinting_embedded : bool) : Z :=")
    w("  let size := 0 in")
    for l in size_lines:
        w(l)
    w("  size.")
    w("")
    w("(* hint/instance.rs: fields of HintInstance in declaration order *)")
    w("Definition hint_instance_fields : list string := [%s]." % "; ".join(coq_str(f) for f, _ in fields))
    w("")
    w("(* hint/instance.rs HintInstance::setup: what happens to each field *)")
    w("Definition setup_table : list (string * action) := [")
    w(";\n".join("  (%s, %s)  (* %s *)" % (coq_str(f), a, d.replace("*)", "* )").replace("(*", "( *")) for f, a, d in table))
    w("].")
    w("")
    w("(* hint/instance.rs HintInstance::reconfigure after self.setup(..): how each field reaches the engine, in order *)")
    w("Inductive use := UDefMut | UDefRef | UCowMut | UMut | URead | UAssign | UAssignAfterRun.")
    w("Definition reconfigure_uses : list (string * use) := [%s]." % "; ".join("(%s, %s)" % (coq_str(f), u) for f, u in uses))
    w("")
    w("(* engine definition map (parameter name of DefinitionState::new) -> (HintInstance field, passed as DefinitionMap::Mut?) *)")
    w("Definition reconfigure_defmaps : list (string * (string * bool)) := [%s]." %
      "; ".join("(%s, (%s, %s))" % (coq_str(p), coq_str(f), "true" if k == "Mut" else "false") for p, (f, k) in zip(ds_params, defmaps)))
    w("")
    w("(* RetainedGraphicsState given to the engine in reconfigure is built from the arguments only *)")
    w("Definition reconfigure_graphics_from_args : bool := %s." % ("true" if graphics_from_args else "false"))
    w("")
    w("(* programs run by reconfigure, in order (run_program = reset(program) then run) *)")
    w("Definition reconfigure_programs : list string := [%s]." % "; ".join(coq_str(p) for p in progs))
    w("")
    w("(* hint/engine/dispatch.rs Engine::reset: definition maps reset per program *)")
    w("Definition reset_maps : list (string * list string) := [%s]." %
      "; ".join("(%s, [%s])" % (coq_str(k), "; ".join(coq_str(x) for x in v)) for k, v in arms.items()))
    w("")
    w("(* hint/definition.rs DefinitionMap::reset is `if let Self::Mut(defs) = self { defs.fill(Default::default()) }` *)")
    w("Definition definition_map_reset_fills_default : bool := %s." % ("true" if map_reset_fills else "false"))
    w("")
    w("(* hint/instance.rs HintInstance::hint: receiver is &self; fields it writes (none expected); fields whose")
    w("   type has interior mutability (none expected) *)")
    w("Definition hint_takes_shared_self : bool := %s." % ("true" if hint_shared else "false"))
    w("Definition hint_writes : list string := [%s]." % "; ".join(coq_str(f) for f in hint_writes))
    w("Definition hint_instance_interior_mutability : list string := [%s]." % "; ".join(coq_str(f) for f in interior))
    w("")
    w("(* outline/hint.rs HintingInstance::reconfigure *)")
    w("Definition hinting_instance_fields : list string := [%s]." % "; ".join(coq_str(f) for f, _ in o_fields))
    w("Definition hinting_instance_table : list (string * action) := [")
    w(";\n".join("  (%s, %s)  (* %s *)" % (coq_str(f), a, d.replace("*)", "* )").replace("(*", "( *")) for f, a, d in o_table))
    w("].")
    w("(* the reused Vec<cff::Subfont> is cleared before being refilled; coords come from effective_coords() *)")
    w("Definition cff_subfonts_cleared : bool := %s." % ("true" if cff_cleared else "false"))
    w("Definition coords_from_effective_coords : bool := %s." % ("true" if coords_src else "false"))
    w("")
    w("(* outline/hint.rs Engine::Auto arm + outline/autohint/instance.rs + autohint/metrics/mod.rs:")
    w("   the autohinter instance is rebuilt by reconfigure; its lazily filled, lock-protected per-style metrics cache")
    w("   depends on (font, location) and must therefore not survive a reconfigure *)")
    w("Definition autohint_instance_fields : list string := [%s]." % "; ".join(coq_str(f) for f, _ in a_fields))
    w("Definition autohint_new_params : list (string * string) := [%s]." % "; ".join("(%s, %s)" % (coq_str(n), coq_str(t)) for n, t in a_params))
    w("Definition autohint_new_args_in_reconfigure : list string := [%s]." % "; ".join(coq_str(a) for a in auto_args))
    w("(* variants of UnscaledStyleMetricsSet with interior mutability, and the Instance fields holding them *)")
    w("Definition autohint_lazy_variants : list string := [%s]." % "; ".join(coq_str(v) for v in lazy_variants))
    w("Definition autohint_lazy_fields : list string := [%s]." % "; ".join(coq_str(f) for f in lazy_fields))
    w("(* the Auto arm hands (something derived from) the instance being replaced to Instance::new *)")
    w("Definition auto_arm_reuses_previous : bool := %s." % ("true" if arm_reuses else "false"))
    w("(* Instance::new has a parameter that can carry a previous instance / metrics set *)")
    w("Definition autohint_new_takes_previous : bool := %s." % ("true" if takes_previous else "false"))
    w("(* every lazily filled field is constructed from the arguments: %s *)" % "; ".join(a_detail).replace("*)", "* )").replace("(*", "( *"))
    w("Definition autohint_lazy_fields_built_fresh : bool := %s." % ("true" if built_fresh else "false"))
    txt = "\n".join(o) + "\n"
    os.makedirs(os.path.dirname(OUT), exist_ok=True)
    old = open(OUT).read() if os.path.exists(OUT) else None
    if old != txt:
        tmp = OUT + ".tmp"
        open(tmp, "w").write(txt)
        os.replace(tmp, OUT)
    print("c12_extract: %d ft allocs, %d hb allocs, %d HintInstance fields, slack %d -> %s%s" %
          (len(ft), len(hb), len(fields), slack[1], os.path.relpath(OUT), "" if old != txt else " (unchanged)"))
    return 0


if __name__ == "__main__":
    try:
        sys.exit(main())
    except Fail as e:
        print("c12_extract: BROKEN TRANSLATION TIE: %s" % e, file=sys.stderr)
        print("c12_extract: BROKEN TRANSLATION TIE: %s" % e)
        sys.exit(1)
