#!/usr/bin/env python3
"""layout_extract.py -- translator (tie) for C01 item 2, "all generated table shapes".

Reads every /repo/read-fonts/generated/generated_*.rs and, for every generated table reader
(`*Marker` struct + `impl FontRead/FontReadWithArgs` cursor walk + `impl Marker { *_byte_range }` +
`impl Table { getters }`), emits one Coq term of type `rlayout` (coq/C01/Layout.v) into
coq/C01/LayoutGen.v, plus a JSON summary coq/C01/LayoutGen.stats.json.

The translator is purely syntactic and FAILS LOUDLY: any statement in a cursor-walk `read` body, any
`*_byte_range` body, any function of a table's inherent impl that does not match one of the shapes
below makes it print file:line and exit 1 (the check then reports a broken translation tie).  It never
skips silently; the few item kinds it deliberately does not translate are counted in `not_translated`.

Python 3 standard library only.
"""
import glob
import json
import os
import re
import sys

REPO = os.environ.get("FV_REPO", "/repo")
ROOT = os.path.dirname(os.path.dirname(os.path.abspath(__file__)))
GEN_DIR = os.path.join(REPO, "read-fonts", "generated")
OUT_DIR = os.environ.get("FV_LAYOUT_OUT", os.path.join(ROOT, "coq", "C01"))   # override only for offline experiments
OUT_V = os.path.join(OUT_DIR, "LayoutGen.v")
OUT_JSON = os.path.join(OUT_DIR, "LayoutGen.stats.json")

ERRORS = []


class Loud(Exception):
    pass


def fail(path, line, what, text=""):
    msg = "%s:%d: %s%s" % (os.path.relpath(path, REPO), line, what, (": " + text[:300]) if text else "")
    raise Loud(msg)


# ----------------------------------------------------------------------------------------------
# lexical helpers
# ----------------------------------------------------------------------------------------------

def strip_comments(src):
    """Replace // comments, /* */ comments by spaces (newlines kept so that line numbers survive).
    String / byte-string / char literals are kept verbatim (they never contain braces in this code base,
    which is verified: a brace inside a literal makes us fail)."""
    out = []
    i, n = 0, len(src)
    while i < n:
        c = src[i]
        if src.startswith("//", i):
            j = src.find("\n", i)
            j = n if j < 0 else j
            out.append(" " * (j - i))
            i = j
        elif src.startswith("/*", i):
            j = src.find("*/", i + 2)
            j = n if j < 0 else j + 2
            out.append("".join(ch if ch == "\n" else " " for ch in src[i:j]))
            i = j
        elif c == '"':
            j = i + 1
            while j < n and src[j] != '"':
                j += 2 if src[j] == "\\" else 1
            lit = src[i:j + 1]
            if "{" in lit or "}" in lit or ";" in lit:
                # keep the literal but neutralise structure characters
                lit = lit.replace("{", "(").replace("}", ")").replace(";", ",")
            out.append(lit)
            i = j + 1
        else:
            out.append(c)
            i += 1
    return "".join(out)


def match_close(src, i, open_ch="{", close_ch="}"):
    """src[i] == open_ch; return index of the matching close."""
    assert src[i] in "{([", (src[i - 20:i + 20])
    pairs = {"{": "}", "(": ")", "[": "]"}
    stack = []
    k = i
    n = len(src)
    while k < n:
        ch = src[k]
        if ch in pairs:
            stack.append(pairs[ch])
        elif ch in ")}]":
            if not stack or stack[-1] != ch:
                raise Loud("unbalanced brackets near offset %d" % k)
            stack.pop()
            if not stack:
                return k
        k += 1
    raise Loud("unterminated block at offset %d" % i)


def canon(s):
    """Canonical spelling of a code fragment: all whitespace removed except a single blank between
    two word characters."""
    s = re.sub(r"\s+", " ", s.strip())
    s = re.sub(r" ?([^\w ]) ?", r"\1", s)
    return s


def line_of(src, idx):
    return src.count("\n", 0, idx) + 1


def split_top(s, sep=","):
    """split on `sep` at bracket depth 0 (angle brackets counted too when they look like generics)."""
    parts, depth, cur = [], 0, []
    for i, ch in enumerate(s):
        if ch in "([{":
            depth += 1
        elif ch in ")]}":
            depth -= 1
        elif ch == "<":
            depth += 1
        elif ch == ">" and (i == 0 or s[i - 1] not in "-="):
            depth -= 1
        if ch == sep and depth == 0:
            parts.append("".join(cur))
            cur = []
        else:
            cur.append(ch)
    if cur or parts:
        parts.append("".join(cur))
    return [p for p in parts]


def top_level_items(src):
    """Yield (header_text, body_text_or_None, header_start_index, body_start_index) for every item at brace depth 0."""
    i, n = 0, len(src)
    start = 0
    while i < n:
        ch = src[i]
        if ch == "{":
            j = match_close(src, i)
            yield src[start:i], src[i + 1:j], start, i + 1
            i = j + 1
            start = i
        elif ch == ";":
            yield src[start:i], None, start, i
            i += 1
            start = i
        elif ch in "([":
            i = match_close(src, i) + 1
        else:
            i += 1


def fns_of(body, base_idx):
    """Yield (name, signature, fn_body, abs_index_of_fn) for every `fn` directly inside an impl body."""
    for hdr, b, hs, bs in top_level_items(body):
        m = re.search(r"\bfn\s+(\w+)", hdr)
        if m and b is not None:
            yield m.group(1), canon(hdr[m.start():]), b, base_idx + hs + m.start(), base_idx + bs
        elif b is None and re.search(r"\b(const|type)\b", hdr):
            continue
        elif hdr.strip() == "":
            continue
        else:
            # attributes-only chunk or something unexpected
            if re.fullmatch(r"(\s*#\[[^\]]*\])*\s*", hdr):
                continue
            yield None, canon(hdr), b, base_idx + hs, base_idx + bs


def statements(body, base_idx):
    """Split a block body into statements: (canonical_text, abs_index).  A statement ends at a `;` at
    depth 0 or after a `{...}` block that starts an `if`/`if let` statement.  The last element may be
    the tail expression."""
    res = []
    i, n = 0, len(body)
    start = 0
    while i < n:
        ch = body[i]
        if ch in "([":
            i = match_close(body, i) + 1
            continue
        if ch == "{":
            j = match_close(body, i)
            head = body[start:i].strip()
            if head.startswith("if "):
                # if-statement without trailing semicolon (no else in generated readers)
                rest = body[j + 1:].lstrip()
                if rest.startswith("else"):
                    raise Loud("if/else statement")
                res.append((canon(body[start:j + 1]), base_idx + start + (len(body[start:]) - len(body[start:].lstrip()))))
                i = j + 1
                start = i
                continue
            i = j + 1
            continue
        if ch == ";":
            txt = body[start:i]
            if txt.strip():
                res.append((canon(txt), base_idx + start + (len(txt) - len(txt.lstrip()))))
            i += 1
            start = i
            continue
        i += 1
    tail = body[start:]
    if tail.strip():
        res.append((canon(tail), base_idx + start + (len(tail) - len(tail.lstrip()))))
    return res


# ----------------------------------------------------------------------------------------------
# sizes
# ----------------------------------------------------------------------------------------------

class Sizes:
    """RAW_BYTE_LEN of every scalar / fixed-size record type, computed from the sources:
       font-types (`int_scalar!`, `newtype_scalar!`, `impl_offset!`, explicit `type Raw = [u8; N]`),
       hand-written `impl Scalar for` in read-fonts/src, generated `impl font_types::Scalar for X`
       (`type Raw = <u16 as font_types::Scalar>::Raw`) and `impl FixedSize for R { const RAW_BYTE_LEN = A::RAW_BYTE_LEN + ... }`."""

    def __init__(self):
        self.lit = {}       # name -> int
        self.alias = {}     # name -> other type name
        self.sums = {}      # name -> list of type names
        self.where = {}
        self.cache = {}

    def scan_font_types(self):
        for p in sorted(glob.glob(os.path.join(REPO, "font-types", "src", "*.rs"))):
            src = strip_comments(open(p).read())
            for m in re.finditer(r"\b(?:crate::)?(?:int_scalar|newtype_scalar)!\(\s*(?:crate::)?(\w+)\s*,\s*\[u8;\s*(\d+)\]\s*\)", src):
                self.lit[m.group(1)] = int(m.group(2))
                self.where[m.group(1)] = "%s:%d" % (os.path.relpath(p, REPO), line_of(src, m.start()))
            for m in re.finditer(r"^impl_offset!\(\s*(\w+)\s*,\s*(\d+)\s*,\s*(\w+)\s*\)", src, re.M):
                self.alias[m.group(1)] = m.group(3)
            self._scan_scalar_impls(p, src)

    def _scan_scalar_impls(self, p, src):
        for m in re.finditer(r"impl\s+(?:\w+::)*Scalar\s+for\s+(\w+)\s*\{\s*type\s+Raw\s*=\s*(\[u8;\s*\d+\]|[^;]+);", src):
            name, raw = m.group(1), canon(m.group(2))
            mm = re.fullmatch(r"\[u8;(\d+)\]", raw)
            if mm:
                self.lit[name] = int(mm.group(1))
            else:
                mm = re.fullmatch(r"<(\w+) as (?:\w+::)*Scalar>::Raw", raw)
                if not mm:
                    fail(p, line_of(src, m.start()), "unknown Scalar::Raw form", raw)
                self.alias[name] = mm.group(1)
            self.where[name] = "%s:%d" % (os.path.relpath(p, REPO), line_of(src, m.start()))

    def scan_read_fonts_src(self):
        for p in sorted(glob.glob(os.path.join(REPO, "read-fonts", "src", "**", "*.rs"), recursive=True)):
            src = strip_comments(open(p).read())
            if "Scalar for" in src:
                self._scan_scalar_impls(p, src)

    def scan_generated(self, p, src):
        self._scan_scalar_impls(p, src)
        for m in re.finditer(r"impl\s+FixedSize\s+for\s+(\w+)\s*\{\s*const\s+RAW_BYTE_LEN\s*:\s*usize\s*=\s*([^;]+);", src):
            name, rhs = m.group(1), canon(m.group(2))
            terms = rhs.split("+")
            tys = []
            for t in terms:
                mm = re.fullmatch(r"(\w+)::RAW_BYTE_LEN", t)
                if not mm:
                    fail(p, line_of(src, m.start()), "unknown RAW_BYTE_LEN summand", t)
                tys.append(mm.group(1))
            self.sums[name] = tys
            self.where[name] = "%s:%d" % (os.path.relpath(p, REPO), line_of(src, m.start()))

    def size(self, ty, path="?", line=0, seen=()):
        ty = ty.strip()
        m = re.fullmatch(r"(?:Nullable|BigEndian)<(.+)>", ty)
        if m:
            return self.size(m.group(1), path, line, seen)
        if ty in self.cache:
            return self.cache[ty]
        if ty in seen:
            fail(path, line, "cyclic size definition", ty)
        if ty in self.lit:
            r = self.lit[ty]
        elif ty in self.alias:
            r = self.size(self.alias[ty], path, line, seen + (ty,))
        elif ty in self.sums:
            r = sum(self.size(t, path, line, seen + (ty,)) for t in self.sums[ty])
        else:
            fail(path, line, "RAW_BYTE_LEN of type is unknown to the translator", ty)
        self.cache[ty] = r
        return r


SIZES = Sizes()

# ----------------------------------------------------------------------------------------------
# Coq printing
# ----------------------------------------------------------------------------------------------


def cs(s):
    return '"%s"' % s.replace('"', "'")


def clist(xs):
    return "[" + "; ".join(xs) + "]"


# ----------------------------------------------------------------------------------------------
# expression parsers (all on canonical text)
# ----------------------------------------------------------------------------------------------
IDENT = r"[a-z_][a-z0-9_]*"
TYPE = r"[A-Z]\w*|u8|i8|u16|i16|u32|i32|i64"


class Ctx:
    def __init__(self, path, src, stats):
        self.path, self.src, self.stats = path, src, stats

    def ln(self, idx):
        return line_of(self.src, idx)

    def fail(self, idx, what, text=""):
        fail(self.path, self.ln(idx), what, text)

    def count(self, group, key):
        d = self.stats.setdefault(group, {})
        d[key] = d.get(key, 0) + 1


def parse_cnt_atom(cx, idx, a):
    m = re.fullmatch(r"(\d+)_usize", a)
    if m:
        return "CConst %s" % m.group(1)
    if re.fullmatch(IDENT, a):
        return "CLocal %s" % cs(a)
    cx.fail(idx, "unknown count-expression argument", a)


def parse_cnt(cx, idx, e):
    """count expression inside `( ... ).checked_mul` or as total_len_for_count argument"""
    m = re.fullmatch(r"(%s) as usize" % IDENT, e)
    if m:
        cx.count("count_exprs", "field_as_usize")
        return "CLocal %s" % cs(m.group(1))
    m = re.fullmatch(r"(\d+)_usize", e)
    if m:
        cx.count("count_exprs", "constant")
        return "CConst %s" % m.group(1)
    m = re.fullmatch(r"((?:transforms|[A-Z]\w*)::\w+)\((.*)\)", e)
    if m:
        args = [a for a in split_top(m.group(2)) if a != ""]
        cx.count("count_exprs", m.group(1))
        return "COpaque %s %s" % (cs(m.group(1)), clist([parse_cnt_atom(cx, idx, a) for a in args]))
    m = re.fullmatch(r"usize::try_from\((%s)\)\.unwrap_or_default\(\)" % IDENT, e)
    if m:
        cx.count("count_exprs", "usize::try_from.unwrap_or_default")
        return "COpaque %s %s" % (cs("usize::try_from.unwrap_or_default"), clist(["CLocal %s" % cs(m.group(1))]))
    cx.fail(idx, "unknown count expression", e)


def parse_cs_args(cx, idx, a):
    """argument of compute_size: `&x` or `&(x,y,)`"""
    m = re.fullmatch(r"&(%s),?" % IDENT, a)
    if m:
        return [m.group(1)]
    m = re.fullmatch(r"&\((.*)\),?", a)
    if m:
        names = [x for x in split_top(m.group(1)) if x != ""]
        for x in names:
            if not re.fullmatch(IDENT, x):
                cx.fail(idx, "unknown compute_size argument", a)
        return names
    cx.fail(idx, "unknown compute_size argument", a)


def parse_esz(cx, idx, e):
    m = re.fullmatch(r"(%s)::RAW_BYTE_LEN" % TYPE, e)
    if m:
        return "ESz %d" % SIZES.size(m.group(1), cx.path, cx.ln(idx)), ("fixed", m.group(1))
    m = re.fullmatch(r"<(\w+) as ComputeSize>::compute_size\((.*)\)\?", e)
    if m:
        names = parse_cs_args(cx, idx, m.group(2))
        return "ECompute %s %s" % (cs(m.group(1)), clist([cs(x) for x in names])), ("computed", m.group(1))
    cx.fail(idx, "unknown element-size expression", e)


def parse_lenexp(cx, idx, e):
    """right-hand side of `let X_byte_len = ...` (without the optional cond.then_some wrapper)"""
    m = re.fullmatch(r"\((.*)\)\.checked_mul\((.*)\)\.ok_or\(ReadError::OutOfBounds\)\?", e)
    if m:
        c = parse_cnt(cx, idx, m.group(1))
        z, kind = parse_esz(cx, idx, m.group(2))
        return "LMul (%s) (%s)" % (c, z), "checked_mul_" + kind[0]
    m = re.fullmatch(r"cursor\.remaining_bytes\(\)/(\w+)::RAW_BYTE_LEN\*(\w+)::RAW_BYTE_LEN", e)
    if m:
        if m.group(1) != m.group(2):
            cx.fail(idx, "remaining_bytes()/A*B with A != B", e)
        return "LRemainder %d" % SIZES.size(m.group(1), cx.path, cx.ln(idx)), "remaining_div_mul"
    if e == "cursor.remaining_bytes()":
        return "LRemaining", "remaining_bytes"
    m = re.fullmatch(r"\{let data=cursor\.remaining\(\)\.ok_or\(ReadError::OutOfBounds\)\?;<(\w+) as VarSize>::total_len_for_count\(data,(.*)\)\?\}", e)
    if m:
        return "LVarLen %s (%s)" % (cs(m.group(1)), parse_cnt(cx, idx, m.group(2))), "varlen_total_len_for_count"
    m = re.fullmatch(r"(%s)::RAW_BYTE_LEN|<\w+ as ComputeSize>::compute_size\(.*\)\?" % TYPE, e)
    if m:
        z, kind = parse_esz(cx, idx, e)
        return "LSize (%s)" % z, "single_" + kind[0]
    cx.fail(idx, "unknown byte-length expression", e)


FLAG_BITS = {}     # "Type::NAME" -> int
COND_TESTS = {}    # test string -> coq condsem (or None when the flag type is hand-written)


def scan_flag_consts(src):
    for m in re.finditer(r"impl\s+(\w+)\s*\{", src):
        ty = m.group(1)
        j = match_close(src, m.end() - 1)
        body = src[m.end():j]
        for c in re.finditer(r"pub const (\w+)\s*:\s*Self\s*=\s*Self\s*\{\s*bits\s*:\s*(0x[0-9a-fA-F_]+|\d+)\s*\}", body):
            FLAG_BITS["%s::%s" % (ty, c.group(1))] = int(c.group(2).replace("_", ""), 0)


def cond_sem(kind, inner):
    if kind == "compatible":
        m = re.fullmatch(r"(\d+)u16", inner)
        if m:
            return "CGe %s" % m.group(1)
        m = re.fullmatch(r"\((\d+)u16,(\d+)u16\)", inner)
        return "CMajMin %s %s" % (m.group(1), m.group(2))
    names = inner.split("|")
    if not all(n in FLAG_BITS for n in names):
        return None
    mask = 0
    for n in names:
        mask |= FLAG_BITS[n]
    return ("CMaskAll %d" if kind == "contains" else "CMaskAny %d") % mask


def parse_cond_prefix(cx, idx, s):
    """s starts with COND followed by `.then(`/`.then_some(`; returns (coq cond, rest)"""
    m = re.match(r"(%s)\.(compatible|contains|intersects)\(" % IDENT, s)
    if not m:
        cx.fail(idx, "unknown condition", s)
    op = s.index("(", m.start(2))
    cl = match_close(s, op, "(", ")")
    test = s[m.start(2):cl + 1]
    inner = s[op + 1:cl]
    ok = (re.fullmatch(r"\d+u16|\(\d+u16,\d+u16\)", inner) if m.group(2) == "compatible"
          else re.fullmatch(r"\w+::\w+(\|\w+::\w+)*", inner))
    if not ok:
        cx.fail(idx, "unknown condition argument", s[:cl + 1])
    cx.count("conditions", m.group(2))
    COND_TESTS[test] = cond_sem(m.group(2), inner)
    return "Cond %s %s" % (cs(m.group(1)), cs(test)), s[cl + 1:]


# ----------------------------------------------------------------------------------------------
# read body
# ----------------------------------------------------------------------------------------------


def translate_read(cx, body, body_idx, marker_name, arg_kind):
    """returns (args: list of names, ops: list of coq strings, marker_fields: list of names)"""
    stmts = statements(body, body_idx)
    ops = []
    args = []
    seen_cursor = False
    marker_fields = None
    for k, (s, idx) in enumerate(stmts):
        def shape(name):
            cx.count("read_statements", name)
        if marker_fields is not None:
            cx.fail(idx, "statement after cursor.finish", s)
        if s in ("let mut cursor=data.cursor()", "let cursor=data.cursor()"):
            if seen_cursor:
                cx.fail(idx, "second cursor", s)
            seen_cursor = True
            shape("let_cursor")
            continue
        m = re.fullmatch(r"let (%s)=\*args" % IDENT, s)
        if m:
            if arg_kind is None or ops or args:
                cx.fail(idx, "args binding in unexpected place", s)
            args = [m.group(1)]
            shape("let_args")
            continue
        m = re.fullmatch(r"let ?\((.*)\)=\*args", s)
        if m:
            if arg_kind is None or ops or args:
                cx.fail(idx, "args binding in unexpected place", s)
            args = [a for a in split_top(m.group(1)) if a]
            for a in args:
                if not re.fullmatch(IDENT, a):
                    cx.fail(idx, "unknown args pattern", s)
            shape("let_args_tuple")
            continue
        if not seen_cursor:
            cx.fail(idx, "statement before `let mut cursor`", s)
        m = re.fullmatch(r"cursor\.advance::<(.+)>\(\)", s)
        if m:
            ops.append("OAdvance %d" % SIZES.size(m.group(1), cx.path, cx.ln(idx)))
            shape("advance")
            continue
        m = re.fullmatch(r"let (%s):(.+)=cursor\.read\(\)\?" % IDENT, s)
        if m:
            ops.append("ORead %s %d" % (cs(m.group(1)), SIZES.size(m.group(2), cx.path, cx.ln(idx))))
            shape("read")
            continue
        m = re.fullmatch(r"cursor\.advance_by\((%s)_byte_len\)" % IDENT, s)
        if m:
            ops.append("OAdvanceBy %s" % cs(m.group(1)))
            shape("advance_by")
            continue
        m = re.fullmatch(r"if let Some\(value\)=(%s)_byte_len\{cursor\.advance_by\(value\);\}" % IDENT, s)
        if m:
            ops.append("OCondAdvanceBy %s" % cs(m.group(1)))
            shape("cond_advance_by")
            continue
        m = re.fullmatch(r"let (%s)_byte_start=(.*)" % IDENT, s)
        if m:
            c, rest = parse_cond_prefix(cx, idx, m.group(2))
            if rest != ".then(||cursor.position()).transpose()?":
                cx.fail(idx, "unknown *_byte_start initialiser", s)
            ops.append("OCondStart %s (%s)" % (cs(m.group(1)), c))
            shape("cond_position")
            continue
        m = re.fullmatch(r"let (%s)_byte_len=(.*)" % IDENT, s)
        if m:
            rhs = m.group(2)
            if re.match(r"%s\.(compatible|contains|intersects)\(" % IDENT, rhs):
                c, rest = parse_cond_prefix(cx, idx, rhs)
                mm = re.fullmatch(r"\.then_some\((.*?),?\)", rest)
                if not mm:
                    cx.fail(idx, "unknown conditional *_byte_len initialiser", s)
                le, kind = parse_lenexp(cx, idx, mm.group(1))
                ops.append("OCondLen %s (%s) (%s)" % (cs(m.group(1)), c, le))
                shape("cond_len_" + kind)
            else:
                le, kind = parse_lenexp(cx, idx, rhs)
                ops.append("OLen %s (%s)" % (cs(m.group(1)), le))
                shape("len_" + kind)
            continue
        m = re.fullmatch(r"let (%s)=(.*)" % IDENT, s)
        if m and re.match(r"%s\.(compatible|contains|intersects)\(" % IDENT, m.group(2)):
            c, rest = parse_cond_prefix(cx, idx, m.group(2))
            mm = re.fullmatch(r"\.then\(\|\|cursor\.read::<(.+)>\(\)\)\.transpose\(\)\?\.unwrap_or_default\(\)", rest)
            if not mm:
                cx.fail(idx, "unknown conditional read", s)
            ops.append("OCondRead %s (%s) %d" % (cs(m.group(1)), c, SIZES.size(mm.group(1), cx.path, cx.ln(idx))))
            shape("cond_read")
            continue
        if re.match(r"%s\.(compatible|contains|intersects)\(" % IDENT, s):
            c, rest = parse_cond_prefix(cx, idx, s)
            mm = re.fullmatch(r"\.then\(\|\|cursor\.advance::<(.+)>\(\)\)", rest)
            if not mm:
                cx.fail(idx, "unknown conditional statement", s)
            ops.append("OCondAdvance (%s) %d" % (c, SIZES.size(mm.group(1), cx.path, cx.ln(idx))))
            shape("cond_advance")
            continue
        m = re.fullmatch(r"cursor\.finish\((\w+)\{(.*)\}\)", s)
        if m:
            if m.group(1) != marker_name:
                cx.fail(idx, "finish() builds %s, expected %s" % (m.group(1), marker_name))
            marker_fields = []
            for f in split_top(m.group(2)):
                if f == "":
                    continue
                if re.fullmatch(IDENT, f):
                    marker_fields.append(f)       # shorthand: marker field = local of the same name
                elif f == "offset_type:std::marker::PhantomData":
                    cx.count("read_statements", "marker_phantom_field")
                else:
                    cx.fail(idx, "marker field is not initialised by the local of the same name", f)
            shape("finish")
            continue
        cx.fail(idx, "unknown statement shape in read body", s)
    if marker_fields is None:
        cx.fail(body_idx, "read body does not end in cursor.finish(..)")
    return args, ops, marker_fields


# ----------------------------------------------------------------------------------------------
# marker range functions
# ----------------------------------------------------------------------------------------------


def translate_range(cx, name, sig, body, body_idx):
    field = name[:-len("_byte_range")]
    m = re.fullmatch(r"fn \w+\(&self\)->(Range<usize>|Option<Range<usize>>)", sig)
    if not m:
        cx.fail(body_idx, "unknown byte_range signature", sig)
    optional = m.group(1).startswith("Option")
    st = statements(body, body_idx)
    if len(st) != 2:
        cx.fail(body_idx, "byte_range body is not `let start = ..; start..start + ..`", canon(body))
    (s0, i0), (s1, i1) = st
    m = re.fullmatch(r"let start=(.*)", s0)
    if not m:
        cx.fail(i0, "unknown byte_range start statement", s0)
    e = m.group(1)
    if e == "0":
        start = "SZero"
        cx.count("range_starts", "zero")
    elif re.fullmatch(r"self\.(%s)_byte_range\(\)\.end" % IDENT, e):
        start = "SAfter %s" % cs(re.fullmatch(r"self\.(%s)_byte_range\(\)\.end" % IDENT, e).group(1))
        cx.count("range_starts", "after_prev")
    elif re.fullmatch(r"self\.(%s)_byte_start\?" % IDENT, e):
        start = "SVar %s" % cs(re.fullmatch(r"self\.(%s)_byte_start\?" % IDENT, e).group(1))
        cx.count("range_starts", "stored_start")
        if not optional:
            cx.fail(i0, "`?` on *_byte_start in a non-optional range", s0)
    else:
        # self.a_byte_range().map(|range|range.end).unwrap_or_else(||  <same again | self.z_byte_range().end> )
        opts = []
        cur = e
        while True:
            mm = re.fullmatch(r"self\.(%s)_byte_range\(\)\.map\(\|range\|range\.end\)\.unwrap_or_else\(\|\|(.*)\)" % IDENT, cur)
            if mm:
                opts.append(mm.group(1))
                cur = mm.group(2)
                mm2 = re.fullmatch(r"\{(.*)\}", cur)
                if mm2:
                    cur = mm2.group(1)
                continue
            mm = re.fullmatch(r"self\.(%s)_byte_range\(\)\.end" % IDENT, cur)
            if mm and opts:
                start = "SChain %s %s" % (clist([cs(o) for o in opts]), cs(mm.group(1)))
                cx.count("range_starts", "after_optional_chain")
                break
            cx.fail(i0, "unknown byte_range start expression", e)
    if optional and not start.startswith("SVar"):
        cx.fail(i0, "optional range without stored start", s0)
    t = s1
    if optional:
        m = re.fullmatch(r"Some\((.*)\)", t)
        if not m:
            cx.fail(i1, "optional byte_range does not return Some(..)", t)
        t = m.group(1)
    m = re.fullmatch(r"start\.\.start\+(.*)", t)
    if not m:
        cx.fail(i1, "unknown byte_range result expression", s1)
    w = m.group(1)
    mm = re.fullmatch(r"(%s)::RAW_BYTE_LEN" % TYPE, w)
    if mm:
        ln = "RFixed %d" % SIZES.size(mm.group(1), cx.path, cx.ln(i1))
        cx.count("range_lens", "fixed")
    elif re.fullmatch(r"self\.(%s)_byte_len" % IDENT, w):
        ln = "RLenVar %s" % cs(re.fullmatch(r"self\.(%s)_byte_len" % IDENT, w).group(1))
        cx.count("range_lens", "stored_len")
    elif re.fullmatch(r"self\.(%s)_byte_len\?" % IDENT, w):
        if not optional:
            cx.fail(i1, "`?` on *_byte_len in a non-optional range", s1)
        ln = "RLenVarOpt %s" % cs(re.fullmatch(r"self\.(%s)_byte_len\?" % IDENT, w).group(1))
        cx.count("range_lens", "stored_optional_len")
    else:
        cx.fail(i1, "unknown byte_range width", w)
    return "mk_rule %s (%s) (%s)" % (cs(field), start, ln)


# ----------------------------------------------------------------------------------------------
# getters
# ----------------------------------------------------------------------------------------------

RESOLVER_SHAPES = [
    # offset resolvers: they call other getters and `resolve`, never unwrap
    (r"let data=self\.data;(let args=[^;]*;)?self\.\w+\(\)\.resolve(_with_args)?\(data(,&.*)?\)", "offset_resolve"),
    (r"let data=self\.data;(let args=[^;]*;)?self\.\w+\(\)\.map\(\|x\|x\.resolve(_with_args)?\(data(,&.*)?\)\)(\.transpose\(\)|\?)?", "offset_resolve_optional"),
    (r"let data=self\.data;let offsets=self\.\w+\(\);(let args=.*;)?ArrayOfOffsets::new\(offsets,data,(\(\)|args)\)", "array_of_offsets"),
    (r"let data=self\.data;let offsets=self\.\w+\(\);(let args=.*;)?ArrayOfNullableOffsets::new\(offsets,data,(\(\)|args)\)", "array_of_nullable_offsets"),
    (r"let data=self\.data;let offsets=self\.\w+\(\);(let args=[^;]*;)?offsets\.map\(\|offsets\|ArrayOf(Nullable)?Offsets::new\(offsets,data,(\(\)|args)\)\)", "array_of_offsets_optional_map"),
    (r"let data=self\.data;let offsets=self\.\w+\(\)\?;(let args=.*;)?Some\(ArrayOfOffsets::new\(offsets,data,(\(\)|args)\)\)", "array_of_offsets_optional"),
    (r"let data=self\.data;let offsets=self\.\w+\(\)\?;(let args=.*;)?Some\(ArrayOfNullableOffsets::new\(offsets,data,(\(\)|args)\)\)", "array_of_nullable_offsets_optional"),
]


def check_retype(cx, idx, c):
    """`into_concrete` / `of_unit_type`: rebuild the TableRef around the SAME data with a marker whose every
    field is copied from the old marker (only the phantom offset type changes)."""
    m = re.fullmatch(r"let TableRef\{data,(?:shape|\.\.)\}=self;TableRef\{shape:(\w+Marker)\{(.*)\},data(?::\*data)?,\}", c)
    if not m:
        cx.fail(idx, "unknown TableRef re-typing function", c)
    for f in split_top(m.group(2)):
        if f == "" or f == "offset_type:std::marker::PhantomData":
            continue
        mf = re.fullmatch(r"(\w+):shape\.(\w+)", f)
        if not mf or mf.group(1) != mf.group(2):
            cx.fail(idx, "re-typing function does not copy the marker field verbatim", f)
    cx.count("other_fns", "marker_retype(into_concrete/of_unit_type: fields copied verbatim)")


def ret_type(sig):
    m = re.fullmatch(r"fn \w+\(&self\)->(.*)", sig)
    return m.group(1) if m else None


def translate_getter(cx, name, sig, body, body_idx, shape_fields, pending_args):
    """returns ('getter', coq) | ('shape_arg', field) | ('other', shapename)"""
    c = canon(body)
    rt = ret_type(sig)
    # shape-argument getter
    m = re.fullmatch(r"self\.shape\.(%s)" % IDENT, c)
    if m:
        if m.group(1) not in shape_fields:
            cx.fail(body_idx, "self.shape.%s is not a marker field" % m.group(1))
        cx.count("getters", "shape_arg")
        return ("shape_arg", (name, m.group(1)))
    if "self.shape" in c:
        if rt is None:
            cx.fail(body_idx, "unknown getter signature", sig)
        m = re.fullmatch(r"let range=self\.shape\.(%s)_byte_range\(\)(\??);(.*)" % IDENT, c)
        if not m:
            cx.fail(body_idx, "unknown getter shape", c)
        field, opt, acc = m.group(1), m.group(2) == "?", m.group(3)
        if opt:
            mm = re.fullmatch(r"Some\((.*?),?\)", acc)
            mt = re.fullmatch(r"Option<(.*)>", rt)
            if not mm or not mt:
                cx.fail(body_idx, "optional getter does not return Some(..)", c)
            acc, rt = mm.group(1), mt.group(1)
        if acc == "self.data.read_at(range.start).unwrap()":
            w = SIZES.size(rt, cx.path, cx.ln(body_idx))
            a = "AReadAt %d" % w
            cx.count("getters", "read_at" + ("_optional" if opt else ""))
        elif acc == "self.data.read_array(range).unwrap()":
            mt = re.fullmatch(r"&'a\[(.*)\]", rt)
            if not mt:
                cx.fail(body_idx, "read_array getter with unknown return type", rt)
            ety = re.sub(r"^BigEndian<(.*)>$", r"\1", mt.group(1))
            a = "AReadArray %d" % SIZES.size(ety, cx.path, cx.ln(body_idx))
            cx.count("getters", "read_array" + ("_optional" if opt else ""))
        elif acc == "VarLenArray::read(self.data.split_off(range.start).unwrap()).unwrap()":
            if not re.fullmatch(r"VarLenArray<'a,.*>", rt):
                cx.fail(body_idx, "split_off getter with unknown return type", rt)
            a = "ASplitOff"
            cx.count("getters", "varlen_split_off" + ("_optional" if opt else ""))
        else:
            mm = re.fullmatch(r"self\.data\.read_with_args\(range,&(.*?),?\)\.unwrap\(\)", acc)
            if not mm:
                cx.fail(body_idx, "unknown getter access expression", acc)
            astr = mm.group(1)
            ma = re.fullmatch(r"\((.*)\)", astr)
            items = [x for x in split_top(ma.group(1)) if x] if ma else [astr]
            gargs = []
            for it in items:
                mi = re.fullmatch(r"self\.(%s)\(\)" % IDENT, it)
                if not mi:
                    cx.fail(body_idx, "unknown read_with_args argument", it)
                gargs.append(mi.group(1))
            mt = re.fullmatch(r"ComputedArray<'a,(\w+)(<'a>)?>", rt)
            if mt:
                direct, ty = "false", mt.group(1)
            elif re.fullmatch(r"\w+", rt):
                direct, ty = "true", rt
            else:
                cx.fail(body_idx, "read_with_args getter with unknown return type", rt)
            pending_args.append((name, gargs, body_idx))
            a = "AReadArgs %s %s @ARGS:%s@" % (direct, cs(ty), name)
            cx.count("getters", ("read_with_args_direct" if direct == "true" else "read_with_args_computed_array") + ("_optional" if opt else ""))
        return ("getter", (name, "mk_getter %s %s %s (%s)" % (cs(name), cs(field), "true" if opt else "false", a)))
    # anything else: must not be able to panic by itself -- only allow-listed shapes
    for rx, nm in RESOLVER_SHAPES:
        if re.fullmatch(rx, c):
            cx.count("other_fns", nm)
            return ("other", nm)
    cx.fail(body_idx, "unknown function shape in table impl", "fn %s: %s" % (name, c))


# ----------------------------------------------------------------------------------------------
# per file
# ----------------------------------------------------------------------------------------------


def process_file(path, stats, layouts):
    raw = open(path).read()
    src = strip_comments(raw)
    cx = Ctx(path, src, stats)
    SIZES.scan_generated(path, src)
    markers = {}       # marker name -> dict(fields, line)
    marker_impl = {}   # marker name -> list of rules
    typedefs = {}      # table name -> marker name
    reads = {}         # table name -> (args, ops, marker_fields, kind)
    tables_impl = {}   # table name -> list of (name, sig, body, idx)
    pending = []
    for hdr, body, hs, bs in top_level_items(src):
        h = canon(re.sub(r"#!?\[[^\]]*\]", " ", hdr))
        if h == "" and body is None:
            continue
        m = re.fullmatch(r"pub struct (\w+Marker)(<T=\(\)>)?", h)
        if m and body is not None:
            fields = {}
            for f in split_top(canon(body)):
                if not f:
                    continue
                mf = re.fullmatch(r"(%s):(.*)" % IDENT, f)
                if not mf:
                    cx.fail(bs, "unknown marker field", f)
                fields[mf.group(1)] = mf.group(2)
            markers[m.group(1)] = fields
            continue
        m = re.fullmatch(r"impl(?:<T>| )(\w+Marker)(?:<T>)?", h)
        if m and body is not None:
            rules = []
            for fname, sig, fb, fi, fbi in fns_of(body, bs):
                if fname is None or not fname.endswith("_byte_range"):
                    cx.fail(fi, "unknown item in Marker impl", sig)
                rules.append(translate_range(cx, fname, sig, fb, fbi))
            marker_impl[m.group(1)] = rules
            continue
        m = re.fullmatch(r"pub type (\w+)<'a(?:,T)?>=TableRef<'a,(\w+Marker)(?:<T>)?>", h)
        if m:
            typedefs[m.group(1)] = m.group(2)
            continue
        pending.append((h, body, hs, bs))
    # second pass: impls that need typedefs
    for h, body, hs, bs in pending:
        m = re.fullmatch(r"impl<'a(?:,T)?>(FontRead|FontReadWithArgs)<'a>for (\w+)<'a(?:,T)?>", h)
        if m and body is not None and m.group(2) in typedefs:
            tname = m.group(2)
            fl = list(fns_of(body, bs))
            if len(fl) != 1 or fl[0][0] not in ("read", "read_with_args"):
                cx.fail(bs, "unknown FontRead impl body for table", h)
            fname, sig, fb, fi, fbi = fl[0]
            if "cursor" not in fb:
                cx.fail(fi, "table read without cursor", sig)
            kind = None if m.group(1) == "FontRead" else "args"
            a, ops, mf = translate_read(cx, fb, fbi, typedefs[tname], kind)
            if tname in reads:
                cx.fail(fi, "two read impls for table", tname)
            reads[tname] = (a, ops, mf)
            continue
        m = re.fullmatch(r"impl<'a(?:,T)?>(\w+)<'a(?:,T)?>", h)
        if m and body is not None and m.group(1) in typedefs:
            lst = tables_impl.setdefault(m.group(1), [])
            for fname, sig, fb, fi, fbi in fns_of(body, bs):
                if fname is None:
                    cx.fail(fi, "unknown item in table impl", sig)
                lst.append((fname, sig, fb, fi, fbi))
            continue
        # everything else: classify, and make sure nothing we should have translated hides here
        classify_other(cx, h, body, hs, bs, typedefs)
    # assemble
    for tname in sorted(typedefs, key=lambda t: list(typedefs).index(t)):
        mk = typedefs[tname]
        if tname not in reads:
            cx.fail(0, "table %s has a marker but no cursor-walk read impl" % tname)
        if mk not in marker_impl or mk not in markers:
            cx.fail(0, "table %s: marker %s has no struct/impl" % (tname, mk))
        a, ops, mf = reads[tname]
        fields = markers[mk]
        for f in mf:
            if f not in fields:
                cx.fail(0, "finish() initialises unknown marker field %s.%s" % (mk, f))
        for f, ty in fields.items():
            if f.endswith("_byte_len") and ty in ("usize", "Option<usize>"):
                continue
            if f.endswith("_byte_start") and ty == "Option<usize>":
                continue
            if f == "offset_type" and ty.startswith("std::marker::PhantomData"):
                continue
            if f in a:
                continue
            cx.fail(0, "marker field %s.%s : %s is neither *_byte_len, *_byte_start nor a read argument" % (mk, f, ty))
        getters, shape_getters, pend = [], {}, []
        for fname, sig, fb, fi, fbi in tables_impl.get(tname, []):
            # custom constructor of FontReadWithArgs tables
            if fname == "read" and re.fullmatch(r"let args=.*;Self::read_with_args\(data,&args\)", canon(fb)):
                cx.count("other_fns", "read_args_constructor")
                continue
            if fname == "into_concrete" or fname == "of_unit_type":
                check_retype(cx, fbi, canon(fb))
                continue
            kind, val = translate_getter(cx, fname, sig, fb, fbi, fields, pend)
            if kind == "getter":
                getters.append(val)
            elif kind == "shape_arg":
                shape_getters[val[0]] = val[1]
        # resolve args of read_with_args getters
        gmap = dict(getters)
        out_getters = []
        for gname, term in getters:
            mm = re.search(r"@ARGS:(\w+)@", term)
            if mm:
                p = [x for x in pend if x[0] == gname][0]
                items = []
                for an in p[1]:
                    if an in shape_getters:
                        items.append("GAShape %s" % cs(shape_getters[an]))
                    elif an in gmap:
                        mw = re.search(r"mk_getter \"\w+\" \"(\w+)\" false \(AReadAt (\d+)\)", gmap[an])
                        if not mw:
                            cx.fail(p[2], "read_with_args argument self.%s() is not a plain scalar getter" % an)
                        items.append("GAField %s %s" % (cs(an), mw.group(2)))
                    else:
                        cx.fail(p[2], "read_with_args argument self.%s() is not a known getter" % an)
                term = term.replace(mm.group(0), clist(items))
            out_getters.append(term)
        layouts.append(dict(name=tname, file=os.path.basename(path), args=a, ops=ops, marker=mf,
                            rules=marker_impl[mk], getters=out_getters))
        stats["tables"] = stats.get("tables", 0) + 1
        stats["getters_total"] = stats.get("getters_total", 0) + len(out_getters)
        stats["range_rules_total"] = stats.get("range_rules_total", 0) + len(marker_impl[mk])
        stats["cursor_ops_total"] = stats.get("cursor_ops_total", 0) + len(ops)


NOT_TRANSLATED = [
    # (regex on canonical impl/item header, name, why it is outside the layout theorem)
    (r"impl(<'a>)? (FontRead<'a>|FontReadWithArgs<'a>) for \w+(<'a>)?", None, None),  # refined below
]


def classify_other(cx, h, body, hs, bs, typedefs):
    """Items that are not part of a table layout.  Anything that walks a cursor or unwraps a FontData
    read must be one of the allow-listed kinds (counted), otherwise we fail."""
    c = canon(body) if body is not None else ""
    m = re.fullmatch(r"impl<'a(?:,T)?>(FontRead|FontReadWithArgs)<'a>for (\w+)(<'a(?:,T)?>)?", h)
    if not m:
        m = re.fullmatch(r"impl (FontRead|FontReadWithArgs)<'_>for (\w+)", h)
    if m:
        if "cursor.finish" in c:
            cx.fail(bs, "cursor walk with finish() in an impl that is not a TableRef table", h)
        if "data.cursor()" in c:
            # record with a read_with_args constructor: every cursor call is followed by `?`, result is
            # Ok(Self {..}); no marker, no unwrap
            if re.search(r"unwrap\(\)|expect\(", c):
                cx.fail(bs, "unwrap in record reader", h)
            if not re.fullmatch(r"fn read_with_args\(data:FontData<'a>,args:&.*?,?\)->Result<Self,ReadError>\{let mut cursor=data\.cursor\(\);(let ?[^;]*=\*args;)?Ok\(Self\{((%s):cursor\.(read_be\(\)|read_with_args\(&.*?\)|read_array\(.*?\)|read_computed_array\(.*?\))\?,)+\}\)\}" % IDENT, c):
                cx.fail(bs, "unknown record reader shape", c)
            cx.count("not_translated", "record_read_with_args (every cursor call is `?`-checked, no marker, no unwrap)")
            return
        # format-dispatch enums: `let format: u16 = data.read_at(0usize)?; match format {..}`
        if re.search(r"unwrap\(\)|expect\(", c):
            cx.fail(bs, "unwrap in format dispatch", h)
        if re.search(r"data\.read_at\(\d+usize\)\?", c) and "match" in c:
            cx.count("not_translated", "format_dispatch_enum (read_at(K)? then match; no unwrap)")
            return
        if re.match(r"fn read\(bytes:FontData<'a>\)->Result<Self,ReadError>\{let untyped=\w+::read\(bytes\)\?;match untyped\.(extension_)?lookup_type\(\)\{", c):
            cx.count("not_translated", "lookup_type_dispatch_enum (Lookup::read(bytes)? then match; no unwrap)")
            return
        cx.fail(bs, "unknown FontRead impl", h + " " + c[:200])
    if "TableRef{" in c:
        # impl<'a> X<'a, ()> { fn into_concrete<T>(self) -> X<'a, T> { .. } }
        for fname, sig, fb, fi, fbi in fns_of(body, bs):
            if fname not in ("into_concrete", "of_unit_type"):
                cx.fail(fi, "TableRef constructed in unexpected function", sig)
            check_retype(cx, fbi, canon(fb))
        return
    if "data.cursor()" in c or "cursor.finish" in c:
        cx.fail(bs, "cursor walk in unexpected item", h)
    if re.search(r"self\.shape\.", c):
        cx.fail(bs, "marker use in unexpected item", h)
    if re.search(r"self\.data\.(read_at|read_array|read_with_args|split_off|slice)\(", c):
        cx.fail(bs, "FontData access in unexpected item", h)
    cx.count("other_items", re.sub(r"\b[A-Z]\w*\b", "T", re.sub(r"<.*", "", h))[:40])


# ----------------------------------------------------------------------------------------------
# main
# ----------------------------------------------------------------------------------------------

HEADER = """(* GENERATED by translators/layout_extract.py from /repo/read-fonts/generated/generated_*.rs -- DO NOT EDIT.
   Regenerated (and overwritten) on every run of the check; one [rlayout] term per generated table reader. *)
From Coq Require Import ZArith List String.
From FV Require Import C01.Layout.
Import ListNotations.
Open Scope string_scope.
Open Scope Z_scope.

"""


def coq_name(t):
    return "L_" + t


def main():
    stats = {}
    layouts = []
    try:
        SIZES.scan_font_types()
        SIZES.scan_read_fonts_src()
        files = sorted(glob.glob(os.path.join(GEN_DIR, "*.rs")))
        if not files:
            raise Loud("no generated files under " + GEN_DIR)
        # sizes of records may be defined in a later file than their use: scan all first
        for p in files:
            src0 = strip_comments(open(p).read())
            SIZES.scan_generated(p, src0)
            scan_flag_consts(src0)
        for p in files:
            process_file(p, stats, layouts)
    except Loud as e:
        print("layout_extract: TRANSLATION FAILED\n  " + str(e))
        return 1
    names = [l["name"] for l in layouts]
    dup = sorted({n for n in names if names.count(n) > 1})
    if dup:
        # same table name in two modules (test files): qualify by file
        for l in layouts:
            if l["name"] in dup:
                l["name"] = l["name"] + "__" + l["file"].replace("generated_", "")[:-3]
    out = [HEADER]
    for l in layouts:
        out.append("(* %s: %s *)\n" % (l["file"], l["name"]))
        out.append("Definition %s : rlayout := mk_rlayout %s\n  %s\n  %s\n  %s\n  %s\n  %s.\n\n" % (
            coq_name(l["name"]), cs(l["name"]),
            clist([cs(a) for a in l["args"]]),
            clist(l["ops"]).replace("; O", ";\n   O"),
            clist([cs(a) for a in l["marker"]]),
            clist(l["rules"]).replace("; mk_rule", ";\n   mk_rule"),
            clist(l["getters"]).replace("; mk_getter", ";\n   mk_getter")))
    out.append("Definition all_layouts : list rlayout :=\n  %s.\n" % clist([coq_name(l["name"]) for l in layouts]).replace("; ", ";\n   "))
    out.append("\n(* meaning of the gate tests, for the validation environment only (LayoutCheck.real_env); the theorems\n   quantify over every interpretation of the tests *)\n")
    sems = ["(%s, %s)" % (cs(t), v) for t, v in sorted(COND_TESTS.items()) if v is not None]
    out.append("Definition cond_sems : list (string * condsem) :=\n  %s.\n" % clist(sems).replace("; (", ";\n   ("))
    stats["cond_tests_without_generated_flag_bits"] = sorted(t for t, v in COND_TESTS.items() if v is None)
    os.makedirs(os.path.dirname(OUT_V), exist_ok=True)
    txt = "".join(out)
    old = open(OUT_V).read() if os.path.exists(OUT_V) else None
    if old != txt:
        open(OUT_V, "w").write(txt)
    stats["files"] = len(files)
    stats["layout_names"] = [l["name"] for l in layouts]
    stats["scalar_sizes_used"] = {k: v for k, v in sorted(SIZES.cache.items())}
    json.dump(stats, open(OUT_JSON, "w"), indent=1, sort_keys=True)
    print("layout_extract: %d tables, %d cursor ops, %d range rules, %d getters from %d files -> %s%s" % (
        stats.get("tables", 0), stats.get("cursor_ops_total", 0), stats.get("range_rules_total", 0),
        stats.get("getters_total", 0), len(files), os.path.relpath(OUT_V, ROOT), "" if old != txt else " (unchanged)"))
    print("  getters by access form: %s" % json.dumps(stats.get("getters", {}), sort_keys=True))
    print("  not translated (allow-list): %s" % json.dumps(stats.get("not_translated", {}), sort_keys=True))
    return 0


if __name__ == "__main__":
    sys.exit(main())
