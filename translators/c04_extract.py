#!/usr/bin/env python3
"""C04 schema extractor (Python 3 stdlib).

Reads BOTH generated halves of googlefonts/fontations independently:
  * read side : /repo/read-fonts/generated/generated_*.rs   (Marker `_byte_range` fns + `FontRead::read` bodies,
                fixed-size record structs, typed offset getters)
  * write side: /repo/write-fonts/generated/generated_*.rs  (struct definitions + `FontWrite::write_into` bodies)
and writes coq/C04/Gen.v: for every type understood on both sides a pair R_<T> / W_<T> of `schema`
terms (coq/C04/Model.v), `all_pairs`, and `skipped` (type, reason).  No information flows from one side to
the other, with two declared exceptions: (1) the byte width of flag / enum scalar types and the numeric
value of flag constants are read from read-fonts (write-fonts re-exports those very types), (2) every
offset target is emitted as an opaque subtable on both sides (each target type is its own pair).

A statement of a `read` / `write_into` body that matches neither a supported shape nor the explicit list of
known-unsupported shapes aborts the run with exit status 2 (the translation tie is broken)."""
import glob
import os
import re
import sys
from collections import Counter, OrderedDict

REPO = os.environ.get("FV_REPO") or os.environ.get("C04_REPO") or "/repo"
OUT = os.environ.get("C04_OUT") or os.path.join(os.path.dirname(os.path.dirname(os.path.abspath(__file__))), "coq", "C04", "Gen.v")

WIDTH = {"u8": 1, "i8": 1, "u16": 2, "i16": 2, "F2Dot14": 2, "FWord": 2, "UfWord": 2, "GlyphId16": 2, "NameId": 2,
         "Offset16": 2, "Uint24": 3, "Int24": 3, "Offset24": 3, "u32": 4, "i32": 4, "Fixed": 4, "Tag": 4,
         "Version16Dot16": 4, "MajorMinor": 4, "Offset32": 4, "LongDateTime": 8, "i64": 8, "GlyphId": 4}
OFFW = {"Offset16": 2, "Offset24": 3, "Offset32": 4}
WCONST = {"WIDTH_16": 2, "WIDTH_24": 3, "WIDTH_32": 4}


class Unknown(Exception):
    pass


class Skip(Exception):
    pass


def block_at(src, i):
    """src[i] == '{' -> (body, index after closing brace)"""
    d = 0
    j = i
    while True:
        c = src[j]
        if c == "{":
            d += 1
        elif c == "}":
            d -= 1
            if d == 0:
                return src[i + 1:j], j + 1
        j += 1


def split_stmts(body):
    out, d, cur = [], 0, ""
    i = 0
    while i < len(body):
        c = body[i]
        if c in "({[":
            d += 1
        elif c in ")}]":
            d -= 1
            if c == "}" and d == 0 and re.match(r"\s*if let Some\(value\)", cur):
                cur += c
                out.append(" ".join(cur.split()))
                cur = ""
                i += 1
                continue
        if c == ";" and d == 0:
            out.append(" ".join(cur.split()))
            cur = ""
        else:
            cur += c
        i += 1
    if cur.strip():
        out.append(" ".join(cur.split()))
    return [s for s in out if s]


def strip_attrs(s):
    return re.sub(r"#\[[^\]]*\]\s*", "", s)


# ------------------------------------------------------------------------------------------------
# shared (declared exception 1): flag / enum scalar widths and flag constants from read-fonts
# ------------------------------------------------------------------------------------------------
FLAG_W = {}
FLAG_CONST = {}


def scan_flags(files):
    for f in files:
        src = open(f).read()
        for m in re.finditer(r"impl font_types::Scalar for (\w+) \{\s*type Raw = <(\w+) as font_types::Scalar>::Raw", src):
            FLAG_W[m.group(1)] = WIDTH[m.group(2)]
        for m in re.finditer(r"impl (\w+) \{((?:\s*(?:///[^\n]*\n|#\[[^\]]*\]\s*)*\s*pub const \w+: Self = Self \{\s*bits: [0-9a-fA-Fx_]+,?\s*\};)+)", src):
            t = m.group(1)
            for c in re.finditer(r"pub const (\w+): Self = Self \{\s*bits: ([0-9a-fA-Fx_]+)", m.group(2)):
                FLAG_CONST[(t, c.group(1))] = int(c.group(2).replace("_", ""), 0)


def width_of(t):
    if t in WIDTH:
        return WIDTH[t]
    if t in FLAG_W:
        return FLAG_W[t]
    return None


def parse_gate(expr, vartypes):
    """`version.compatible((1u16, 0u16))` / `version.compatible(1u16)` / `flags.contains(T::NAME)`"""
    e = expr.replace(" ", "")
    e = e.replace("self.", "")
    m = re.fullmatch(r"(\w+)\.compatible\(\((\d+)u16,(\d+)u16\)\)", e)
    if m:
        ty = vartypes.get(m.group(1))
        if ty == "MajorMinor":
            return ("GVerMM", m.group(1), int(m.group(2)), int(m.group(3)))
        if ty == "Version16Dot16":
            return ("GVer16", m.group(1), int(m.group(2)), int(m.group(3)))
        raise Skip("gate on version variable of type %s" % ty)
    m = re.fullmatch(r"(\w+)\.compatible\((\d+)u16\)", e)
    if m:
        if vartypes.get(m.group(1)) not in ("u16",):
            raise Skip("gate u16 on version variable of type %s" % vartypes.get(m.group(1)))
        return ("GVerU", m.group(1), int(m.group(2)))
    m = re.fullmatch(r"(\w+)\.contains\((\w+)::(\w+)\)", e)
    if m:
        k = (m.group(2), m.group(3))
        if k not in FLAG_CONST:
            raise Skip("flag constant %s::%s not found" % k)
        return ("GFlag", m.group(1), FLAG_CONST[k])
    raise Unknown("gate expression: " + expr)


def parse_count(expr):
    e = expr.replace(" ", "")
    m = re.fullmatch(r"\(?(\w+)asusize\)?", e)
    if m:
        return ("CField", m.group(1), ("XId",))
    m = re.fullmatch(r"transforms::subtract\((\w+),(\d+)_usize\)", e)
    if m:
        return ("CField", m.group(1), ("XSubK", int(m.group(2))))
    m = re.fullmatch(r"transforms::add\((\w+),(\d+)_usize\)", e)
    if m:
        return ("CField", m.group(1), ("XAddK", int(m.group(2))))
    m = re.fullmatch(r"transforms::half\((\w+)\)", e)
    if m:
        return ("CField", m.group(1), ("XHalf",))
    m = re.fullmatch(r"(\d+)_usize", e)
    if m:
        return ("CConst", int(m.group(1)))
    raise Skip("count expression `%s`" % expr)


# ------------------------------------------------------------------------------------------------
# read side
# ------------------------------------------------------------------------------------------------
R_RECORDS = {}   # name -> list of (fname, type) or Skip reason string
R_TABLES = {}    # name -> fields or ("skip", reason)
R_SRC = {}       # name -> file source (for getters)

READ_UNSUPPORTED = [
    r"ComputeSize", r"VarSize", r"read_with_args", r"read_array", r"cursor\.remaining_bytes\(\)$", r"\*args",
    r"let \w+ = args", r"let \([\w, ]+\) = \*args", r"data\.read_at", r"match format", r"PhantomData", r"tuple_len", r"DeltaFormat::value_count",
    r"EntryFormat::map_size", r"add_multiply", r"multiply_add", r"subtract_add_two", r"bitmap_len", r"delta_set_index_data",
    r"item_variation_data_len", r"try_from", r"\.then_some\(cursor\.remaining_bytes\(\)\)", r"BigGlyphMetrics::RAW_BYTE_LEN$",
    r"cursor\.remaining\(\)", r"read_be", r"Ok\(Self", r"usize::try_from",
]


def read_records(src):
    for m in re.finditer(r"pub struct (\w+) \{", src):
        name = m.group(1)
        body, _ = block_at(src, m.end() - 1)
        if name.endswith("Marker"):
            continue
        if not re.search(r"impl FixedSize for %s \{" % name, src):
            continue
        fields = []
        ok = True
        for line in strip_attrs(re.sub(r"///[^\n]*", "", body)).split(","):
            line = " ".join(line.split())
            if not line:
                continue
            fm = re.fullmatch(r"pub (\w+): (?:BigEndian<)?([\w<>]+?)>?", line)
            if not fm:
                ok = False
                break
            fields.append((fm.group(1), fm.group(2)))
        R_RECORDS[name] = fields if ok else "record field shape"


def r_elem(ty, depth=0):
    """element schema (list of field tuples) for an array / record element type on the read side"""
    nm = re.fullmatch(r"Nullable<(Offset\d+)>", ty)
    if nm:
        return [("off", "item", OFFW[nm.group(1)], None, True)]
    if ty in OFFW:
        return [("off", "item", OFFW[ty], None, False)]
    w = width_of(ty)
    if w is not None:
        return [("scalar", "item", w, None, ("Stored",))]
    if ty in R_RECORDS and isinstance(R_RECORDS[ty], list) and depth < 3:
        out = []
        for fn, ft in R_RECORDS[ty]:
            nm = re.fullmatch(r"Nullable<(Offset\d+)>", ft)
            if nm:
                out.append(("off", re.sub(r"_offset$", "", fn), OFFW[nm.group(1)], None, True))
            elif ft in OFFW:
                out.append(("off", re.sub(r"_offset$", "", fn), OFFW[ft], None, False))
            elif width_of(ft) is not None:
                out.append(("scalar", fn, width_of(ft), None, ("Stored",)))
            else:
                sub = r_elem(ft, depth + 1)
                for s in sub:
                    out.append((s[0], fn + "." + s[1]) + tuple(s[2:]))
        return out
    raise Skip("element type %s" % ty)


def resolver_name(src, mn, default):
    """name of the getter documented as resolving offset field `mn` (`/// ... [`mn`][Self::mn].` + `pub fn NAME(`)"""
    m = re.search(r"///[^\n]*\[Self::%s\]\.\s*\n\s*pub fn (\w+)\(" % mn, src)
    return m.group(1) if m else default


def read_table(name, src, impl_body, read_body):
    # 1. marker ranges: order, names, sizes
    marker = []
    for m in re.finditer(r"pub fn (\w+)_byte_range\(&self\) -> (Option<)?Range<usize>>? \{", impl_body):
        body, _ = block_at(impl_body, m.end() - 1)
        b = " ".join(body.split())
        sm = re.search(r"start\.\.start \+ (.+?)\)?$", b)
        if not sm:
            raise Skip("marker range shape")
        marker.append((m.group(1), bool(m.group(2)), sm.group(1).strip()))
    # 2. the parse itself
    stmts = split_stmts(read_body)
    vartypes = {}
    fields = []     # (kind, name|None, ...)
    pend = {}       # array name -> (count, elemtype, gate)
    gates = {}      # field name -> gate (from `_byte_start`)
    for s in stmts:
        s = strip_attrs(s)
        if s in ("let mut cursor = data.cursor()", "let cursor = data.cursor()"):
            continue
        if s.startswith("cursor.finish("):
            continue
        m = re.fullmatch(r"cursor\.advance::<([\w<>]+)>\(\)", s)
        if m:
            fields.append(["scalar", None, m.group(1), None])
            continue
        m = re.fullmatch(r"let (\w+): (\w+) = cursor\.read\(\)\?", s)
        if m:
            vartypes[m.group(1)] = m.group(2)
            fields.append(["scalar", m.group(1), m.group(2), None])
            continue
        m = re.fullmatch(r"let (\w+)_byte_len = \((.+)\) \.checked_mul\((\w+)::RAW_BYTE_LEN\) \.ok_or\(ReadError::OutOfBounds\)\?", s)
        if m:
            pend[m.group(1)] = (parse_count(m.group(2)), m.group(3), None)
            continue
        m = re.fullmatch(r"let (\w+)_byte_len = cursor\.remaining_bytes\(\) / (\w+)::RAW_BYTE_LEN \* (\w+)::RAW_BYTE_LEN", s)
        if m:
            pend[m.group(1)] = (("CToEnd",), m.group(2), None)
            continue
        m = re.fullmatch(r"cursor\.advance_by\((\w+)_byte_len\)", s)
        if m:
            cnt, et, g = pend[m.group(1)]
            fields.append(["array", m.group(1), et, g, cnt])
            continue
        m = re.fullmatch(r"let (\w+)_byte_start = (.+?) \.then\(\|\| cursor\.position\(\)\) \.transpose\(\)\?", s)
        if m:
            gates[m.group(1)] = parse_gate(m.group(2), vartypes)
            continue
        m = re.fullmatch(r"(.+?) ?\.then\(\|\| cursor\.advance::<([\w<>]+)>\(\)\)", s)
        if m:
            fields.append(["scalar", None, m.group(2), parse_gate(m.group(1), vartypes)])
            continue
        m = re.fullmatch(r"let (\w+) = (.+?) \.then\(\|\| cursor\.read::<(\w+)>\(\)\) \.transpose\(\)\? \.unwrap_or_default\(\)", s)
        if m:
            vartypes[m.group(1)] = m.group(3)
            fields.append(["scalar", m.group(1), m.group(3), parse_gate(m.group(2), vartypes)])
            continue
        m = re.fullmatch(r"let (\w+)_byte_len = (.+?) ?\.then_some\( \((.+)\) \.checked_mul\((\w+)::RAW_BYTE_LEN\) \.ok_or\(ReadError::OutOfBounds\)\?, \)", s)
        if m:
            pend[m.group(1)] = (parse_count(m.group(3)), m.group(4), parse_gate(m.group(2), vartypes))
            continue
        m = re.fullmatch(r"if let Some\(value\) = (\w+)_byte_len \{ cursor\.advance_by\(value\); \}", s)
        if m:
            cnt, et, g = pend[m.group(1)]
            fields.append(["array", m.group(1), et, g, cnt])
            continue
        if any(re.search(p, s) for p in READ_UNSUPPORTED):
            raise Skip("read statement outside the DSL: " + re.sub(r"\b[a-z_0-9]+\b", "x", s)[:60])
        raise Unknown("read side, %s: `%s`" % (name, s))
    # 3. cross-check with the marker and name the advance-only fields
    if len(fields) != len(marker):
        raise Skip("read/marker length mismatch")
    out = []
    for fld, (mn, mopt, msz) in zip(fields, marker):
        if fld[1] is None:
            fld[1] = mn
        if fld[1] != mn:
            raise Skip("read/marker name mismatch %s/%s" % (fld[1], mn))
        gate = fld[3]
        if mn in gates:
            if gate is not None and gate != gates[mn]:
                raise Skip("two different gates on %s" % mn)
            gate = gates[mn]
        if mopt != (gate is not None):
            raise Skip("marker optionality / gate mismatch on %s" % mn)
        if fld[0] == "scalar":
            if msz != fld[2] + "::RAW_BYTE_LEN":
                raise Skip("read/marker width mismatch on %s" % mn)
            ty = fld[2]
            if ty in OFFW:
                # nullable iff the typed offset getter says so
                gm = re.search(r"pub fn %s\(&self\) -> (Option<)?(Nullable<)?%s>*\s*\{" % (mn, ty), src)
                if not gm:
                    raise Skip("offset getter for %s not found" % mn)
                out.append(("off", resolver_name(src, mn, re.sub(r"_offset$", "", mn)), OFFW[ty], gate, bool(gm.group(2))))
            else:
                w = width_of(ty)
                if w is None:
                    raise Skip("scalar type %s" % ty)
                out.append(("scalar", mn, w, gate, ("Stored",)))
        else:
            if msz != "self.%s_byte_len" % mn:
                raise Skip("read/marker array size mismatch on %s" % mn)
            et = fld[2]
            aname = mn
            if et in OFFW:
                # element nullability from the slice getter; name from the resolving getter
                gm = re.search(r"pub fn %s\(&self\) -> (Option<)?&'a \[BigEndian<(Nullable<)?%s>+\]" % (mn, et), src)
                if not gm:
                    raise Skip("offset array getter for %s not found" % mn)
                elem = [("off", "item", OFFW[et], None, bool(gm.group(2)))]
                aname = resolver_name(src, mn, mn)
            else:
                elem = r_elem(et)
            out.append(("array", aname, gate, fld[4], elem))
    return out


NARROWING = []   # (type, "var: declared as T, used `as U` in: stmt")
CAST_W = {"u8": 1, "i8": 1, "u16": 2, "i16": 2, "u32": 4, "i32": 4, "u64": 8, "i64": 8, "usize": 8, "isize": 8}


def audit_casts(name, body):
    """Every generated reader (also those outside the DSL): a variable read from the data with a declared
    integer type must never be narrowed by an `as` cast where it sizes something (count / length
    expressions).  `map_count as u16` for a u32 field silently truncates the array."""
    decl = {}
    for s in split_stmts(body):
        s = strip_attrs(s)
        m = re.match(r"let (\w+): (\w+) = cursor\.read\(\)\?", s)
        if m:
            decl[m.group(1)] = m.group(2)
        m = re.match(r"let (\w+) = .*cursor\.read::<(\w+)>\(\)", s)
        if m:
            decl[m.group(1)] = m.group(2)
        for c in re.finditer(r"\b(\w+) as (u8|i8|u16|i16|u32|i32|u64|i64|usize|isize)\b", s):
            v, t = c.group(1), c.group(2)
            dw = width_of(decl.get(v, "")) if v in decl else None
            if dw is not None and CAST_W[t] < dw:
                NARROWING.append((name, "%s is read as %s but used `as %s` in `%s`" % (v, decl[v], t, s[:90].replace('"', "'"))))


R_FORMATS = {}   # marker type name -> (int type, FORMAT constant)
R_UNIONS = {}    # enum name -> (tag width, [(variant, type name, FORMAT)]) or ("skip", reason)
W_ENUMS = {}     # enum name -> [(variant, type name)] or ("skip", reason)


def read_union(name, rb):
    """`let format: uN = data.read_at(0usize)?; match format { <T>Marker::FORMAT => Ok(Self::<V>(FontRead::read(data)?)), .., other => Err(..) }`"""
    m = re.search(r"let format: (u8|u16|u32) = data\.read_at\(0usize\)\?;\s*match format \{", rb)
    if not m:
        return ("skip", "format enum: tag is not `let format: uN = data.read_at(0)`")
    mb, _ = block_at(rb, m.end() - 1)
    arms = []
    for arm in [a.strip() for a in re.split(r",\s*\n", mb) if a.strip()]:
        arm = " ".join(arm.split()).rstrip(",")
        am = re.fullmatch(r"(\w+)Marker::FORMAT => Ok\(Self::(\w+)\(FontRead::read\(data\)\?\)\)", arm)
        if am:
            ty = am.group(1)
            if ty not in R_FORMATS:
                return ("skip", "format enum: no FORMAT constant for %s" % ty)
            if R_FORMATS[ty][0] != m.group(1):
                return ("skip", "format enum: FORMAT type of %s differs from the tag type" % ty)
            arms.append((am.group(2), ty, R_FORMATS[ty][1]))
        elif re.fullmatch(r"other => Err\(ReadError::InvalidFormat\(other\.into\(\)\)\)", arm):
            continue
        else:
            return ("skip", "format enum: read arm outside the DSL: " + arm[:60])
    return (width_of(m.group(1)), arms)


def scan_read(files):
    for f in files:
        src = open(f).read()
        for m in re.finditer(r"impl Format<(\w+)> for (\w+)Marker \{\s*const FORMAT: \w+ = (\d+);", src):
            R_FORMATS[m.group(2)] = (m.group(1), int(m.group(3)))
    for f in files:
        src = open(f).read()
        read_records(src)
        for m in re.finditer(r"impl<'a> FontRead(?:WithArgs)?<'a> for (\w+)<'a> \{", src):
            body, _ = block_at(src, m.end() - 1)
            fm = re.search(r"fn read(?:_with_args)?\([^)]*\) -> Result<Self, ReadError> \{", body)
            if fm:
                audit_casts(m.group(1), block_at(body, fm.end() - 1)[0])
    for f in files:
        src = open(f).read()
        for m in re.finditer(r"impl<'a> FontRead(WithArgs)?<'a> for (\w+)<'a> \{", src):
            name = m.group(2)
            body, _ = block_at(src, m.end() - 1)
            if m.group(1):
                R_TABLES[name] = ("skip", "read side needs external args (FontReadWithArgs)")
                continue
            fm = re.search(r"fn read\(data: FontData<'a>\) -> Result<Self, ReadError> \{", body)
            if not fm:
                R_TABLES[name] = ("skip", "no read fn")
                continue
            rb, _ = block_at(body, fm.end() - 1)
            mm = re.search(r"impl %sMarker \{" % name, src)
            if not mm:
                R_TABLES[name] = ("skip", "format enum / no marker" if "match format" in rb else "no marker impl")
                if "match format" in rb:
                    R_UNIONS[name] = read_union(name, rb)
                continue
            ib, _ = block_at(src, mm.end() - 1)
            try:
                R_TABLES[name] = read_table(name, src, ib, rb)
            except Skip as e:
                R_TABLES[name] = ("skip", "read: " + str(e))
    for name, flds in R_RECORDS.items():
        if name in R_TABLES:
            continue
        try:
            if not isinstance(flds, list):
                raise Skip(flds)
            R_TABLES[name] = r_elem(name)
        except Skip as e:
            R_TABLES[name] = ("skip", "read record: " + str(e))


# ------------------------------------------------------------------------------------------------
# write side
# ------------------------------------------------------------------------------------------------
W_STRUCTS = {}
W_BODIES = {}
W_TABLES = {}

WRITE_UNSUPPORTED = [r"adjust_offsets", r"compile_variation_data", r"\(self\.compile_\w+\(\)\)\.write_into", r"pad_to_2byte", r"^match self", r"write_slice", r"let val = \*self",
                     r"_padding"]


def parse_wtype(t):
    """-> (kind, inner, width/nullable...)"""
    t = t.replace(" ", "")
    m = re.fullmatch(r"Option<(.+)>", t)
    if m:
        return parse_wtype(m.group(1))
    m = re.fullmatch(r"(Nullable)?OffsetMarker<(.+?)(?:,(WIDTH_\d+))?>", t)
    if m and m.group(2).count("<") == m.group(2).count(">"):
        return ("off", m.group(2), WCONST.get(m.group(3), 2), bool(m.group(1)))
    m = re.fullmatch(r"(?:Vec|BTreeSet)<(.+)>", t)
    if m:
        return ("vec", parse_wtype(m.group(1)))
    m = re.fullmatch(r"\[u8;(\d+)\]", t)
    if m:
        return ("bytes", int(m.group(1)))
    return ("plain", t)


def w_elem(pt, depth=0):
    if pt[0] == "off":
        return [("off", "item", pt[2], None, pt[3])]
    if pt[0] == "plain":
        w = width_of(pt[1])
        if w is not None:
            return [("scalar", "item", w, None, ("Stored",))]
        if pt[1] in W_BODIES and depth < 3:
            flds = write_table(pt[1], depth + 1)
            for f in flds:
                if f[0] == "array" or (f[0] in ("scalar", "off") and f[3] is not None):
                    raise Skip("element %s is not a fixed-size record" % pt[1])
            return flds
    raise Skip("element type %s" % (pt,))


def lit_value(e):
    e = e.strip()
    m = re.fullmatch(r"MajorMinor::VERSION_(\d+)_(\d+)", e)
    if m:
        return int(m.group(1)) * 65536 + int(m.group(2))
    m = re.fullmatch(r"Version16Dot16::VERSION_(\d+)_(\d+)", e)
    if m:
        return int(m.group(1)) * 65536 + int(m.group(2)) * 4096
    if re.fullmatch(r"[\d +]+", e):
        return sum(int(x) for x in e.split("+"))
    return None


def write_table(name, depth=0):
    struct = W_STRUCTS.get(name, {})
    stmts = split_stmts(W_BODIES[name])
    vartypes = {}
    out = []

    def field_of(fname, gate):
        if fname not in struct:
            raise Skip("write_into mentions unknown field %s" % fname)
        pt = parse_wtype(struct[fname])
        if pt[0] == "off":
            return ("off", fname, pt[2], gate, pt[3])
        if pt[0] == "vec":
            return ("array", fname, gate, ("CWriter",), w_elem(pt[1], depth))
        if pt[0] == "bytes":
            return ("array", fname, gate, ("CWriter",), [("scalar", "item", 1, None, ("Stored",))])
        w = width_of(pt[1])
        if w is not None:
            return ("scalar", fname, w, gate, ("Stored",))
        if pt[1] in W_BODIES:
            # nested fixed-size record: flattened
            return ("nested", fname, gate, w_elem(pt, depth))
        raise Skip("field type %s" % struct[fname])

    def scalar_expr(e, gate):
        """`(EXPR as T)` / `(u16::try_from(EXPR).unwrap())`"""
        m = re.fullmatch(r"\((.+) as (\w+)\)", e)
        if m:
            w = width_of(m.group(2))
            if w is None:
                raise Skip("literal of type %s" % m.group(2))
            inner = m.group(1).strip()
            lv = lit_value(inner)
            if lv is not None:
                return ("scalar", "", w, gate, ("Lit", lv))
            cm = re.fullmatch(r"self\.(\w+)\(\)", inner)
            if cm:
                return ("scalar", "", w, gate, ("Opaque", cm.group(1)))
            em = re.fullmatch(r"(\w+)::(\w+)", inner)
            if em:
                return ("scalar", "", w, gate, ("Opaque", inner))
            raise Unknown("write side, %s: literal `%s`" % (name, e))
        m = re.fullmatch(r"\((u8|u16|u32)::try_from\((.+)\)\.unwrap\(\)\)", e)
        if m:
            w = WIDTH[m.group(1)]
            inner = m.group(2).replace(" ", "")
            am = re.fullmatch(r"array_len\(&self\.(\w+)\)", inner)
            if am:
                return ("scalar", "", w, gate, ("LenOf", am.group(1), ("XId",)))
            am = re.fullmatch(r"plus_one\(&self\.(\w+)\.len\(\)\)", inner)
            if am:
                return ("scalar", "", w, gate, ("LenOf", am.group(1), ("XAddK", 1)))
            am = re.fullmatch(r"2\*array_len\(&self\.(\w+)\)", inner)
            if am:
                return ("scalar", "", w, gate, ("LenOf", am.group(1), ("XDouble",)))
            raise Unknown("write side, %s: computed `%s`" % (name, e))
        return None

    for s in stmts:
        s = strip_attrs(s)
        if re.search(r"let val = \*self|write_slice", s):
            raise Skip("scalar enum / flags type (written as its integer)")
        m = re.fullmatch(r"let (\w+) = (.+) as (\w+)", s)
        if m:
            vartypes[m.group(1)] = m.group(3)
            inner = m.group(2).strip()
            lv = lit_value(inner)
            cm = re.fullmatch(r"self\.(\w+)\(\)", inner)
            vartypes["__" + m.group(1)] = ("Lit", lv) if lv is not None else (("Opaque", cm.group(1)) if cm else None)
            if vartypes["__" + m.group(1)] is None:
                raise Unknown("write side, %s: `%s`" % (name, s))
            continue
        m = re.fullmatch(r"let (\w+) = self\.(\w+)", s)
        if m:
            vartypes[m.group(1)] = struct.get(m.group(2), "?")
            vartypes["__" + m.group(1)] = ("Stored",)
            continue
        m = re.fullmatch(r"(\w+)\.write_into\(writer\)", s)
        if m and m.group(1) in vartypes:
            v = m.group(1)
            w = width_of(vartypes[v])
            out.append(("scalar", v, w, None, vartypes["__" + v]))
            continue
        m = re.fullmatch(r"self\.(\w+)\.write_into\(writer\)", s)
        if m:
            out.append(field_of(m.group(1), None))
            continue
        m = re.fullmatch(r"(\(.+\))\.write_into\(writer\)", s)
        if m:
            r = scalar_expr(m.group(1), None)
            if r is None:
                if any(re.search(p, s) for p in WRITE_UNSUPPORTED):
                    raise Skip("write statement outside the DSL: " + re.sub(r"\b[a-z_0-9]+\b", "x", s)[:60])
                raise Unknown("write side, %s: `%s`" % (name, s))
            out.append(r)
            continue
        m = re.fullmatch(r"(.+?) ?\.then\(\|\| \{? ?self\.(\w+) ?(?:\.as_ref\(\) \.expect\(\"missing conditional field should have failed validation\"\) )?\.write_into\(writer\) ?\}?\)", s)
        if m:
            # struct field types of flag fields, for gate parsing
            vt = dict(vartypes)
            out.append(field_of(m.group(2), parse_gate(m.group(1), vt)))
            continue
        m = re.fullmatch(r"(.+?) ?\.then\(\|\| (\(.+\))\.write_into\(writer\)\)", s)
        if m:
            r = scalar_expr(m.group(2), parse_gate(m.group(1), vartypes))
            if r is None:
                raise Unknown("write side, %s: `%s`" % (name, s))
            out.append(r)
            continue
        if any(re.search(p, s) for p in WRITE_UNSUPPORTED):
            raise Skip("write statement outside the DSL: " + re.sub(r"\b[a-z_0-9]+\b", "x", s)[:60])
        raise Unknown("write side, %s: `%s`" % (name, s))
    # flatten nested records
    flat = []
    for f in out:
        if f[0] == "nested":
            for s in f[3]:
                if f[2] is not None:
                    raise Skip("gated nested record")
                flat.append((s[0], f[1] + "." + s[1]) + tuple(s[2:]))
        else:
            flat.append(f)
    return flat


def scan_write(files):
    for f in files:
        src = open(f).read()
        for m in re.finditer(r"pub struct (\w+)(<[^>]*>)? \{", src):
            body, _ = block_at(src, m.end() - 1)
            fields = OrderedDict()
            for line in strip_attrs(re.sub(r"///[^\n]*", "", body)).split(",\n"):
                line = " ".join(line.split()).rstrip(",")
                fm = re.fullmatch(r"pub (\w+): (.+)", line)
                if fm:
                    fields[fm.group(1)] = fm.group(2)
            if m.group(2):
                W_TABLES[m.group(1)] = ("skip", "generic type")
            W_STRUCTS[m.group(1)] = fields
        enums = {}
        for m in re.finditer(r"pub enum (\w+) \{", src):
            body, _ = block_at(src, m.end() - 1)
            vs = []
            for line in strip_attrs(re.sub(r"///[^\n]*", "", body)).split(",\n"):
                line = " ".join(line.split()).rstrip(",")
                if not line:
                    continue
                vm = re.fullmatch(r"(\w+)\((\w+)\)", line)
                vs.append((vm.group(1), vm.group(2)) if vm else ("?", line[:50]))
            enums[m.group(1)] = vs
        for m in re.finditer(r"impl(<[^>]*>)? FontWrite for (\w+)(<[^>]*>)? \{", src):
            name = m.group(2)
            body, _ = block_at(src, m.end() - 1)
            fm = re.search(r"fn write_into\(&self, writer: &mut TableWriter\) \{", body)
            wb, _ = block_at(body, fm.end() - 1)
            if name in enums and not (m.group(1) or m.group(3)):
                # `match self { Self::<V>(item) => item.write_into(writer), .. }`
                mm = re.search(r"^\s*match self \{", wb)
                if not mm:
                    W_ENUMS[name] = ("skip", "format enum: write_into is not `match self`")
                else:
                    mb, _ = block_at(wb, mm.end() - 1)
                    arms = [" ".join(a.split()).rstrip(",") for a in re.split(r",\s*\n", mb) if a.strip()]
                    got = []
                    bad = None
                    for arm in arms:
                        am = re.fullmatch(r"Self::(\w+)\(item\) => item\.write_into\(writer\)", arm)
                        if not am:
                            bad = arm
                            break
                        got.append(am.group(1))
                    if bad is not None:
                        W_ENUMS[name] = ("skip", "format enum: write arm outside the DSL: " + bad[:60])
                    elif got != [v for v, _ in enums[name]] or any(v == "?" for v, _ in enums[name]):
                        W_ENUMS[name] = ("skip", "format enum: write arms do not match the enum's variants")
                    else:
                        W_ENUMS[name] = enums[name]
            if m.group(1) or m.group(3):
                W_TABLES[name] = ("skip", "generic type")
                continue
            W_BODIES[name] = wb
    for name in sorted(W_BODIES):
        if name in W_TABLES:
            continue
        try:
            W_TABLES[name] = write_table(name)
        except Skip as e:
            W_TABLES[name] = ("skip", "write: " + str(e))


# ------------------------------------------------------------------------------------------------
# Coq printing
# ------------------------------------------------------------------------------------------------
def cz(n):
    return "(%d)" % n if n < 0 else "%d" % n


def cx(x):
    return x[0] if len(x) == 1 else "(%s %s)" % (x[0], cz(x[1]))


def cgate(g):
    if g is None:
        return "GAlways"
    if g[0] in ("GVerMM", "GVer16"):
        return '(%s "%s" %d %d)' % g
    return '(%s "%s" %d)' % g


def ccount(c):
    if c[0] == "CField":
        return '(CField "%s" %s)' % (c[1], cx(c[2]))
    if c[0] == "CConst":
        return "(CConst %d)" % c[1]
    return c[0]


def ccomp(c):
    if c[0] == "Lit":
        return "(Lit %s)" % cz(c[1])
    if c[0] == "LenOf":
        return '(LenOf "%s" %s)' % (c[1], cx(c[2]))
    if c[0] == "Opaque":
        return '(Opaque "%s")' % c[1]
    return "Stored"


def cfield(f):
    if f[0] == "scalar":
        return 'FScalar "%s" %d %s %s' % (f[1], f[2], cgate(f[3]), ccomp(f[4]))
    if f[0] == "off":
        return 'FOffset "%s" %d %s %s true []' % (f[1], f[2], cgate(f[3]), "true" if f[4] else "false")
    return 'FArray "%s" %s %s [%s]' % (f[1], cgate(f[2]), ccount(f[3]), "; ".join(cfield(e) for e in f[4]))


def cschema(fs):
    return "[" + ";\n   ".join(cfield(f) for f in fs) + "]"


def main():
    rfiles = sorted(f for f in glob.glob(os.path.join(REPO, "read-fonts/generated/generated_*.rs")) if "generated_test_" not in f)
    wfiles = sorted(f for f in glob.glob(os.path.join(REPO, "write-fonts/generated/generated_*.rs"))
                    if "generated_test_" not in f and not f.endswith("generated_font.rs"))
    try:
        scan_flags(rfiles)
        scan_read(rfiles)
        scan_write(wfiles)
    except Unknown as e:
        sys.stderr.write("c04_extract: statement shape not understood — %s\n" % e)
        return 2
    pairs, skipped = [], []
    for name in sorted(set(R_TABLES) | set(W_TABLES)):
        r, w = R_TABLES.get(name), W_TABLES.get(name)
        if r is None:
            skipped.append((name, "no read-side type of this name"))
        elif w is None:
            skipped.append((name, "no write-side type of this name (read-only table)"))
        elif isinstance(r, tuple):
            skipped.append((name, r[1]))
        elif isinstance(w, tuple):
            skipped.append((name, w[1]))
        else:
            pairs.append((name, r, w))
    pairset = {n for n, _, _ in pairs}
    unions = []
    skipped2 = []
    for name, why in skipped:
        if why != "format enum / no marker":
            skipped2.append((name, why))
            continue
        ru, wu = R_UNIONS.get(name), W_ENUMS.get(name)
        reason = None
        if ru is None or wu is None:
            reason = "format enum: no %s-side enum of this shape" % ("read" if ru is None else "write")
        elif ru[0] == "skip":
            reason = ru[1]
        elif wu[0] == "skip":
            reason = wu[1]
        else:
            for v, ty, _ in ru[1]:
                if ty not in pairset:
                    reason = "format enum: variant %s (%s) is outside the DSL" % (v, ty)
                    break
            if reason is None:
                for v, ty in wu:
                    if ty not in pairset:
                        reason = "format enum: variant %s (%s) is outside the DSL" % (v, ty)
                        break
        if reason is not None:
            skipped2.append((name, reason))
        else:
            unions.append((name, ru, wu))
    skipped = skipped2
    with open(OUT, "w") as o:
        o.write("(* GENERATED by translators/c04_extract.py from /repo/read-fonts/generated and /repo/write-fonts/generated.\n"
                "   DO NOT EDIT.  R_<T>: read side only.  W_<T>: write side only (literal / computed scalars are unnamed there).\n"
                "   Flag / enum scalar widths and flag constant values come from read-fonts for both sides (write-fonts\n"
                "   re-exports those types); every offset target is opaque here (the target type is a pair of its own). *)\n")
        o.write("From Coq Require Import ZArith List String. Import ListNotations. Open Scope Z_scope. Open Scope string_scope.\n")
        o.write("From FV Require Import C04.Model.\n\n")
        for name, r, w in pairs:
            o.write("Definition R_%s : schema :=\n  %s.\n" % (name, cschema(r)))
            o.write("Definition W_%s : schema :=\n  %s.\n\n" % (name, cschema(w)))
        o.write("Definition all_pairs : list (string * schema * schema) :=\n  [" +
                ";\n   ".join('("%s", R_%s, W_%s)' % (n, n, n) for n, _, _ in pairs) + "].\n\n")
        o.write("(* format enums whose variants are all extracted pairs.  UR_<E>: read side — width of the leading `format` tag and, per\n"
                "   `match format` arm in source order, (variant, <T>Marker::FORMAT, R_<T>).  UW_<E>: write side — per `match self` arm\n"
                "   (variant, W_<T>).  Extracted independently from read-fonts / write-fonts. *)\n")
        for name, ru, wu in unions:
            o.write("Definition UR_%s : nat * list (string * Z * schema) :=\n  (%d%%nat, [%s]).\n" % (
                name, ru[0], "; ".join('("%s", %d, R_%s)' % (v, k, ty) for v, ty, k in ru[1])))
            o.write("Definition UW_%s : list (string * schema) :=\n  [%s].\n\n" % (
                name, "; ".join('("%s", W_%s)' % (v, ty) for v, ty in wu)))
        o.write("Definition all_unions : list (string * (nat * list (string * Z * schema)) * list (string * schema)) :=\n  [" +
                ";\n   ".join('("%s", UR_%s, UW_%s)' % (n, n, n) for n, _, _ in unions) + "].\n\n")
        o.write("(* integer narrowing casts of data-read variables inside generated readers (must be empty) *)\n")
        o.write("Definition narrowing_casts : list (string * string) :=\n  [" +
                ";\n   ".join('("%s", "%s")' % (n, why) for n, why in NARROWING) + "].\n\n")
        o.write("Definition skipped : list (string * string) :=\n  [" +
                ";\n   ".join('("%s", "%s")' % (n, why.replace('"', "'")) for n, why in skipped) + "].\n")
    # diagnostic: arrays whose read-side count field is not computed by the writer from that very array
    diag = []
    for name, r, w in pairs:
        if len(r) != len(w):
            diag.append("%s: field count differs (read %d, write %d)" % (name, len(r), len(w)))
            continue
        idx = {f[1]: i for i, f in enumerate(r)}
        for i, f in enumerate(r):
            if f[0] == "array" and f[3][0] == "CField":
                cf = f[3][1]
                j = idx.get(cf)
                wf = w[j] if j is not None else None
                comp = wf[4] if (wf is not None and wf[0] == "scalar") else None
                warr = w[i][1]
                if not (comp and comp[0] == "LenOf" and comp[1] == warr):
                    diag.append("%s.%s counts `%s` on the read side; writer: %s" % (name, cf, f[1], ccomp(comp) if comp else "?"))
    with open(OUT, "a") as o:
        o.write("\n(* count fields the writer does not compute from the array the reader sizes with them:\n   " + "\n   ".join(diag) + " *)\n")
    print("  stored / shared count fields: %d" % len(diag))
    for d in diag:
        print("    " + d)
    hist = Counter(re.sub(r"`.*`|:.*", "", why) for _, why in skipped)
    print("c04_extract: %d pairs, %d format enums (unions), %d skipped, %d narrowing casts in readers" % (len(pairs), len(unions), len(skipped), len(NARROWING)))
    for n, why in NARROWING:
        print("  NARROWING %s: %s" % (n, why))
    for k, v in hist.most_common():
        print("  %4d  %s" % (v, k))
    return 0


if __name__ == "__main__":
    sys.exit(main())
