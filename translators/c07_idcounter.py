#!/usr/bin/env python3
"""C07 id-counter extractor (Python 3 stdlib).

The C07 theorems (store_ids_order_isomorphic, *_equivariant, counter_independent,
concurrent_history_independent, promotion_equivariant) assume that the ObjectIds one compilation
draws are a STRICTLY MONOTONE image of creation order, whatever the process did before.  That holds
iff `ObjectId::next()` is a `fetch_add(1)` on a process-wide atomic that cannot wrap within any
feasible process lifetime.  This script makes that assumption a checked tie: it reads
$FV_REPO/write-fonts/src/graph.rs (default /repo), insists on the exact shape

    static OBJECT_COUNTER: Atomic<U><N> = Atomic<U><N>::new(<start>);
    pub struct ObjectId(u<M>);
    impl ObjectId { pub fn next() -> Self { ObjectId(OBJECT_COUNTER.fetch_add(<step>, <..>Ordering::<X>)) } }

with no other use of OBJECT_COUNTER and no other construction `ObjectId(..)` anywhere in
write-fonts/src, and writes coq/C07/IdGen.v with the widths / start / step it found.
coq/C07/IdCounter.v proves `2^id_bits > feasible_bound` and monotonicity from those numbers.

Any other source shape is a hard failure (exit status 2): the translation tie is broken.
Usage: c07_idcounter.py [--repo DIR] [--out FILE]
"""
import glob
import os
import re
import sys

REPO = os.environ.get("FV_REPO", "/repo")  # `./fv mutate` points this at its private patched copy
OUT = os.path.join(os.path.dirname(os.path.dirname(os.path.abspath(__file__))), "coq", "C07", "IdGen.v")


def die(msg):
    sys.stderr.write("c07_idcounter: UNRECOGNISED SOURCE SHAPE: %s\n" % msg)
    sys.exit(2)


def strip_comments(src):
    """remove // line comments and /* */ block comments (string literals in graph.rs never contain them
    around the pinned items; a stray match only makes the counts below larger, i.e. fails closed)"""
    src = re.sub(r"/\*.*?\*/", " ", src, flags=re.S)
    return re.sub(r"//[^\n]*", "", src)


def main():
    global REPO, OUT
    args = sys.argv[1:]
    while args:
        a = args.pop(0)
        if a == "--repo":
            REPO = args.pop(0)
        elif a == "--out":
            OUT = args.pop(0)
        else:
            die("unknown argument %r" % a)
    path = os.path.join(REPO, "write-fonts", "src", "graph.rs")
    if not os.path.exists(path):
        die("%s does not exist" % path)
    src = strip_comments(open(path).read())

    # 1. the counter
    decls = re.findall(r"\bstatic\s+(mut\s+)?OBJECT_COUNTER\s*:\s*([A-Za-z0-9_:]+)\s*=\s*([A-Za-z0-9_:]+)::new\(\s*([0-9_]+)\s*\)\s*;", src)
    if len(decls) != 1:
        die("expected exactly one `static OBJECT_COUNTER: AtomicUnn = AtomicUnn::new(k);`, found %d" % len(decls))
    mut, ty, ctor, start = decls[0]
    if mut:
        die("OBJECT_COUNTER is `static mut`")
    ty_short, ctor_short = ty.split("::")[-1], ctor.split("::")[-1]
    m = re.fullmatch(r"AtomicU(8|16|32|64)", ty_short)
    if not m or ctor_short != ty_short:
        die("counter type %s / constructor %s is not AtomicU8/16/32/64" % (ty, ctor))
    counter_bits = int(m.group(1))
    start = int(start.replace("_", ""))

    # 2. the id type
    structs = re.findall(r"\bstruct\s+ObjectId\s*\(\s*(pub(?:\([a-z]+\))?\s+)?([A-Za-z0-9_]+)\s*\)\s*;", src)
    if len(structs) != 1:
        die("expected exactly one `struct ObjectId(uNN);`, found %d" % len(structs))
    vis, fty = structs[0]
    if vis:
        die("ObjectId's field is visible outside graph.rs' type (%s): ids can be forged" % vis.strip())
    m = re.fullmatch(r"u(8|16|32|64)", fty)
    if not m:
        die("ObjectId field type %s is not u8/u16/u32/u64" % fty)
    field_bits = int(m.group(1))

    # 3. ObjectId::next
    nexts = re.findall(r"\bfn\s+next\s*\(\s*\)\s*->\s*Self\s*\{(.*?)\}", src, flags=re.S)
    bodies = [" ".join(b.split()) for b in nexts if "OBJECT_COUNTER" in b]
    if len(bodies) != 1:
        die("expected exactly one `fn next() -> Self` using OBJECT_COUNTER, found %d" % len(bodies))
    m = re.fullmatch(r"ObjectId\( ?OBJECT_COUNTER ?\. ?fetch_add\( ?([0-9_]+) ?, ?((?:[A-Za-z_][A-Za-z0-9_]*::)*)Ordering::(Relaxed|SeqCst|AcqRel|Acquire|Release) ?,? ?\) ?\)", bodies[0])
    if not m:
        die("body of ObjectId::next is not `ObjectId(OBJECT_COUNTER.fetch_add(k, Ordering::X))`: %r" % bodies[0])
    step = int(m.group(1).replace("_", ""))
    if step != 1:
        die("fetch_add step is %d, not 1" % step)
    impl = re.search(r"\bimpl\s+ObjectId\s*\{(.*?)\n\}", src, flags=re.S)
    if not impl or "fn next" not in impl.group(1):
        die("`fn next` is not inside `impl ObjectId { .. }`")

    # 4. nothing else touches the counter or forges ids, anywhere in write-fonts/src
    uses_counter = 0
    ctor_sites = 0
    for f in sorted(glob.glob(os.path.join(REPO, "write-fonts", "src", "**", "*.rs"), recursive=True)):
        s = strip_comments(open(f).read())
        uses_counter += len(re.findall(r"\bOBJECT_COUNTER\b", s))
        # `ObjectId(` followed by an expression (constructor call / tuple pattern), not the struct declaration
        ctor_sites += len(re.findall(r"(?<![A-Za-z0-9_])ObjectId\s*\(", s))
    if uses_counter != 2:
        die("OBJECT_COUNTER is mentioned %d times in write-fonts/src (expected 2: declaration + fetch_add)" % uses_counter)
    if ctor_sites != 2:
        die("`ObjectId(` occurs %d times in write-fonts/src (expected 2: struct declaration + ObjectId::next)" % ctor_sites)

    txt = """(* GENERATED by translators/c07_idcounter.py from write-fonts/src/graph.rs — do not edit.
   static OBJECT_COUNTER: %s = %s::new(%d);   pub struct ObjectId(%s);
   ObjectId::next() = ObjectId(OBJECT_COUNTER.fetch_add(%d, Ordering::%s))
   OBJECT_COUNTER has no other use and ObjectId(..) is constructed nowhere else in write-fonts/src. *)
From Coq Require Import ZArith.
Open Scope Z_scope.
Definition counter_bits : Z := %d.
Definition field_bits : Z := %d.
Definition counter_start : Z := %d.
Definition counter_step : Z := %d.
""" % (ty_short, ctor_short, start, fty, step, m.group(3), counter_bits, field_bits, start, step)
    old = open(OUT).read() if os.path.exists(OUT) else None
    if old != txt:
        os.makedirs(os.path.dirname(OUT), exist_ok=True)
        with open(OUT, "w") as fh:
            fh.write(txt)
    print("c07_idcounter: counter_bits=%d field_bits=%d start=%d step=%d -> %s" % (counter_bits, field_bits, start, step, OUT))


if __name__ == "__main__":
    main()
