#!/usr/bin/env python3
"""C07 process-/thread-wide state audit (Python 3 stdlib).

"Compilation is deterministic across threads, runs and unrelated prior work" can only be argued (and the
C07 theorems only apply) if the compiling crates keep NO state between calls other than the atomic id
counter, which the theorems handle (coq/C07/IdCounter.v).  This script makes that a checked tie: it scans
every .rs file under

    write-fonts/src  write-fonts/generated  klippa/src  incremental-font-transfer/src  shared-brotli-patch-decoder/src

of $FV_REPO (default /repo) for items that live longer than a call:
  * `thread_local!` blocks,
  * `static` / `static mut` items (module level or inside functions),
  * `OnceLock` / `OnceCell` / `LazyLock` / `LazyCell` / `Lazy<` / `lazy_static!` / `once_cell`,
and compares the set found with the PINNED list below.  Every `static` must also have a type this script can
classify: immutable data (`&str`, `&[T]`, arrays, plain structs of such) or interior-mutable
(`Atomic*`, `Mutex`, `RwLock`, `Cell`, `RefCell`, `Once*`, `Lazy*`, raw pointers).  The only interior-mutable
item allowed is write-fonts' OBJECT_COUNTER.

Any difference (a new item, a vanished item, a changed type, an unclassifiable type) is a hard failure
(exit status 2): new process- or thread-wide state breaks the tie even if no experiment can reach it.
It also writes coq/C07/StateGen.v (the list of interior-mutable items) for coq/C07/IdCounter.v's
`only_shared_state_is_id_counter`.
Usage: c07_state_audit.py [--repo DIR] [--out FILE]
"""
import glob
import os
import re
import sys

REPO = os.environ.get("FV_REPO", "/repo")
OUT = os.path.join(os.path.dirname(os.path.dirname(os.path.abspath(__file__))), "coq", "C07", "StateGen.v")
DIRS = ["write-fonts/src", "write-fonts/generated", "klippa/src", "incremental-font-transfer/src", "shared-brotli-patch-decoder/src"]

# (crate-relative file, item name, normalised type, mutable?)  — the state of /repo the C07 argument was made for
PINNED = {
    ("write-fonts/src/graph.rs", "OBJECT_COUNTER", "AtomicU*", True),
    ("write-fonts/src/validate.rs", "MANY_SPACES", "&str", False),
    ("write-fonts/src/tables/variations.rs", "PACKED_DELTA_BYTES", "&[u8]", False),   # test data
    ("write-fonts/src/tables/name.rs", "COLINS_BESPOKE_DATA", "&[u8]", False),        # test data
    ("klippa/src/lib.rs", "DEFAULT_LAYOUT_FEATURES", "&[Tag]", False),
    ("incremental-font-transfer/src/uri_templates.rs", "BYTE_INFO_MAP", "[ByteInfo; NUM_U8S]", False),
}
MUTABLE_TYPE = re.compile(r"\b(Atomic[A-Za-z0-9]*|Mutex|RwLock|Cell|RefCell|UnsafeCell|OnceLock|OnceCell|Once|LazyLock|LazyCell|Lazy|Condvar|Rc|Arc|Box|Vec|HashMap|BTreeMap|String)\b|\*mut|\*const")
LAZY = re.compile(r"\b(OnceLock|OnceCell|LazyLock|LazyCell|lazy_static|once_cell)\b|\bLazy\s*<|\bLazy::new")


def die(msg):
    sys.stderr.write("c07_state_audit: STATE SET DIFFERS FROM THE PINNED LIST: %s\n" % msg)
    sys.exit(2)


def strip(src):
    """drop comments, string and char literals (keeps byte offsets irrelevant; we only need item heads)"""
    out = []
    i, n = 0, len(src)
    while i < n:
        c = src[i]
        if src.startswith("//", i):
            j = src.find("\n", i)
            i = n if j < 0 else j
        elif src.startswith("/*", i):
            depth, i = 1, i + 2
            while i < n and depth:
                if src.startswith("/*", i):
                    depth += 1
                    i += 2
                elif src.startswith("*/", i):
                    depth -= 1
                    i += 2
                else:
                    i += 1
        elif c == '"' or (c == "r" and re.match(r'r#*"', src[i:])) or (c == "b" and re.match(r'b"|br#*"', src[i:])):
            m = re.match(r'b?r(#*)"', src[i:])
            if m:
                end = src.find('"' + m.group(1), i + len(m.group(0)))
                i = n if end < 0 else end + 1 + len(m.group(1))
            else:
                i = src.index('"', i) + 1
                while i < n and src[i] != '"':
                    i += 2 if src[i] == "\\" else 1
                i += 1
            out.append('""')
        elif c == "'" and re.match(r"'(\\.[^']*|[^'\\])'", src[i:]):
            i += len(re.match(r"'(\\.[^']*|[^'\\])'", src[i:]).group(0))
            out.append("' '")
        else:
            out.append(c)
            i += 1
    return "".join(out)


def norm_type(t):
    t = " ".join(t.split())
    t = re.sub(r"&\s*'static\s+", "&", t)
    t = re.sub(r"^(std::|core::)?(sync::atomic::)?AtomicU(8|16|32|64)$", "AtomicU*", t)
    return t


def main():
    global REPO, OUT
    args = sys.argv[1:]
    while args:
        a = args.pop(0)
        if a == "--repo":
            REPO = args.pop(0)
        elif a == "--out":
            OUT = args.pop(0)
        else:
            die("unknown argument %r" % a)
    found = set()
    problems = []
    nfiles = 0
    for d in DIRS:
        root = os.path.join(REPO, d)
        if not os.path.isdir(root):
            die("%s does not exist" % root)
        for f in sorted(glob.glob(os.path.join(root, "**", "*.rs"), recursive=True)):
            nfiles += 1
            rel = os.path.relpath(f, REPO)
            s = strip(open(f).read())
            for m in re.finditer(r"\bthread_local\s*!", s):
                names = re.findall(r"\bstatic\s+([A-Za-z_][A-Za-z0-9_]*)", s[m.end():m.end() + 2000])
                problems.append("%s: thread_local! (%s)" % (rel, ", ".join(names[:3]) or "?"))
            for m in LAZY.finditer(s):
                problems.append("%s: lazily initialised / once-initialised state `%s`" % (rel, m.group(0).strip()))
            # statics outside thread_local! blocks (those inside were reported above; they are listed again here
            # and fail as unpinned items, which is fine)
            for m in re.finditer(r"\bstatic\s+(mut\s+)?([A-Za-z_][A-Za-z0-9_]*)\s*:", s):
                # type = text up to the `=` at nesting depth 0
                i, depth = m.end(), 0
                while i < len(s):
                    ch = s[i]
                    if ch in "<([{":
                        depth += 1
                    elif ch in ">)]}":
                        depth -= 1
                    elif ch == "=" and depth == 0:
                        break
                    elif ch == ";" and depth == 0:
                        break
                    i += 1
                ty = norm_type(s[m.end():i])
                mutable = bool(m.group(1)) or bool(MUTABLE_TYPE.search(ty))
                if m.group(1):
                    problems.append("%s: `static mut %s`" % (rel, m.group(2)))
                found.add((rel, m.group(2), ty, mutable))
            # a `static` we could not parse (e.g. `static FOO = ..` never valid Rust, or macro-generated)
            for m in re.finditer(r"\bstatic\s+(?!mut\b)(?![A-Za-z_][A-Za-z0-9_]*\s*:)(?!ref\b)", s):
                ctx = s[m.start():m.start() + 40].replace("\n", " ")
                if re.match(r"static\s+mut\s+[A-Za-z_][A-Za-z0-9_]*\s*:", ctx):
                    continue
                if re.match(r"static\s*[,>)]|static\s+str\b|static\s+\[", ctx) or s[max(0, m.start() - 1)] in "'&":
                    continue  # the lifetime 'static
                problems.append("%s: unparsable static item near `%s`" % (rel, ctx))
    extra = sorted(found - PINNED)
    missing = sorted(PINNED - found)
    for e in extra:
        problems.append("NEW or CHANGED static: %s  %s : %s  (%s)" % (e[0], e[1], e[2], "interior-mutable" if e[3] else "immutable"))
    for e in missing:
        problems.append("pinned static no longer found as pinned: %s  %s : %s" % (e[0], e[1], e[2]))
    if problems:
        die("\n  " + "\n  ".join(problems))
    mut = sorted((e for e in found if e[3]))
    txt = "(* GENERATED by translators/c07_state_audit.py from %s — do not edit.\n" % ", ".join(DIRS)
    txt += "   %d source files scanned: no thread_local!, no static mut, no OnceLock/OnceCell/Lazy*/lazy_static;\n" % nfiles
    txt += "   %d static items, of which the interior-mutable ones are listed below. *)\n" % len(found)
    txt += "From Coq Require Import List String.\nImport ListNotations.\nOpen Scope string_scope.\n"
    txt += "Definition thread_local_items : list string := [].\n"
    txt += "Definition mutable_static_items : list string := [%s].\n" % "; ".join('"%s:%s"' % (e[0], e[1]) for e in mut)
    txt += "Definition immutable_static_items : list string := [%s].\n" % "; ".join('"%s:%s"' % (e[0], e[1]) for e in sorted(found) if not e[3])
    old = open(OUT).read() if os.path.exists(OUT) else None
    if old != txt:
        with open(OUT, "w") as fh:
            fh.write(txt)
    print("c07_state_audit: %d files, %d statics (%d interior-mutable: %s), 0 thread_locals -> %s" % (nfiles, len(found), len(mut), ", ".join(e[1] for e in mut), OUT))


if __name__ == "__main__":
    main()
