#!/usr/bin/env python3
"""Copy finished round-3 seeder outputs /tmp/seed3/<id>/out/mK into seeded/<id>/m<next> (idempotent:
records origin in meta.json and skips an origin already collected)."""
import json, os, shutil, sys, glob, re
root = os.environ.get('SEED_ROOT', '/tmp/seed3')
rnd = int(os.environ.get('SEED_ROUND', '3'))
ids = sys.argv[1:] or sorted(d for d in os.listdir(root) if re.fullmatch(r'C\d\d', d))
for pid in ids:
    outs = sorted(glob.glob(f'{root}/{pid}/out/m*'))
    dst_root = f'/verif/seeded/{pid}'
    os.makedirs(dst_root, exist_ok=True)
    have = {}
    for m in glob.glob(f'{dst_root}/m*/meta.json'):
        try:
            have[json.load(open(m)).get('origin')] = m
        except Exception:
            pass
    for o in outs:
        origin = f's{rnd}-{pid.lower()}:{os.path.basename(o)}'
        if origin in have:
            continue
        if not os.path.exists(f'{o}/patch.diff'):
            print('incomplete', o); continue
        n = 1
        while os.path.exists(f'{dst_root}/m{n}'):
            n += 1
        dst = f'{dst_root}/m{n}'
        shutil.copytree(o, dst)
        mp = f'{dst}/meta.json'
        try:
            meta = json.load(open(mp))
        except Exception:
            meta = {'raw_meta': open(mp).read() if os.path.exists(mp) else ''}
        meta['origin'] = origin; meta['round'] = rnd
        json.dump(meta, open(mp, 'w'), indent=1)
        print(pid, os.path.basename(o), '->', dst)
