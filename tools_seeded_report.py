#!/usr/bin/env python3
"""Build seeded/RESULTS.md from seeded/*/*/{meta,confirm}.json and .cache/seeded_results.txt (latest result per mutant wins)."""
import json, os, re, glob
ROOT = os.path.dirname(os.path.abspath(__file__))
latest = {}
p = os.path.join(ROOT, ".cache", "seeded_results.txt")
if os.path.exists(p):
    for l in open(p):
        m = re.match(r"(\S+) (\S+) (\S+): (.*)", l)
        if not m:
            continue
        t, pid, mm, rest = m.groups()
        checker = pid
        det = re.search(r"mutate patch.diff: \{(.*?)\}", rest)
        mis = re.search(r"mismatches=(\d+)", rest); orc = re.search(r"oracle_failures=(\d+)", rest); th = re.search(r"theorems=(\d+)/(\d+)", rest)
        broken = "broken-t" in rest or (th and th.group(1) != th.group(2))
        latest[(pid, mm)] = dict(detected=("DETECTED" in (det.group(1) if det else "")), mism=int(mis.group(1)) if mis else 0,
                                  oracle=int(orc.group(1)) if orc else 0, theorems=(th.group(0)[9:] if th else "?"), warn=("WARNING" in rest),
                                  nlc=(re.search(r"no_longer_checks=\[(.+?)\] cases", rest).group(1)[:120].replace("|", "/") if re.search(r"no_longer_checks=\[(.+?)\] cases", rest) else ""))
extra = os.path.join(ROOT, "seeded", "extra_results.json")   # results obtained through another property's check, recorded by hand
xr = json.load(open(extra)) if os.path.exists(extra) else {}
rows = []
for d in sorted(glob.glob(os.path.join(ROOT, "seeded", "*", "*", "meta.json"))):
    pid, mm = d.split(os.sep)[-3], d.split(os.sep)[-2]
    meta = json.load(open(d))
    cf = os.path.join(os.path.dirname(d), "confirm.json")
    conf = json.load(open(cf)) if os.path.exists(cf) else {}
    r = latest.get((pid, mm))
    how = []
    if r:
        if r["theorems"] != "?" and r["theorems"].split("/")[0] != r["theorems"].split("/")[1]:
            how.append("proof/translation breaks (%s)" % r["theorems"])
        if r["mism"]:
            how.append("%d model≠impl cases" % r["mism"])
        if r["oracle"]:
            how.append("%d oracle failures (failing input in replay)" % r["oracle"])
        if r.get("nlc"):
            how.append("tie breaks: " + r["nlc"])
    res = ("DETECTED" if r and r["detected"] and not r["warn"] and how else ("missed" if r else "not run"))
    if (pid + "/" + mm) in xr:
        res = xr[pid + "/" + mm]["result"]; how = [xr[pid + "/" + mm]["how"]]
    rows.append((pid, mm, ", ".join(meta.get("files_changed", []))[:70], (meta.get("needs_to_manifest") or "")[:160].replace("\n", " ").replace("|", "/"),
                 "yes" if conf.get("confirmed") else "NO", res, "; ".join(how)))
out = ["# Seeded property-breaking changes and what the checks do with them", "",
       "Each change was written by a fresh sub-agent that saw only the property text and a scratch worktree; `confirmed` = the lead re-ran,",
       "in a separate scratch worktree (`tools_confirm_seeded.py`), that the demo passes without the patch, fails with it, and that the existing tests of the touched crates and their dependents",
       "still pass with it. `result` is what `./fv mutate seeded/<id>/<m>/patch.diff <id>` reported (private worktree copy of /repo with the patch applied, quick tier).", "",
       "| property | mutant | files | needs to manifest | confirmed | result | caught by |", "|---|---|---|---|---|---|---|"]
for r in rows:
    out.append("| " + " | ".join(r) + " |")
n = len(rows); d = sum(1 for r in rows if r[5].startswith("DETECTED"))
out += ["", "%d of %d seeded changes detected." % (d, n), ""]
open(os.path.join(ROOT, "seeded", "RESULTS.md"), "w").write("\n".join(out))
print("%d/%d detected" % (d, n))
for r in rows:
    if not r[5].startswith("DETECTED"):
        print("  ", r[0], r[1], r[5], r[4])
