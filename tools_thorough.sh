#!/bin/bash
# run the thorough tier of the given checks sequentially; summary in .cache/thorough_results.txt
cd "$(dirname "$0")"
ids="$@"; [ -z "$ids" ] && ids=$(cat checks/registered.txt)
for id in $ids; do
  s=$(date +%s)
  out=$(timeout 7200 ./fv check $id --tier thorough 2>&1 | grep -E "VIOLATION|thorough:" | cut -c1-260 | tr '\n' '|')
  echo "$(date +%H:%M) $id $(( $(date +%s) - s ))s $out" >> .cache/thorough_results.txt
done
