//! C03 harness — "Scaled and hinted outlines match FreeType for static fonts".
//!
//! (a) kernel shards: the arithmetic kernels that skrifa and FreeType must share are run on
//!     boundary-dense + random operand tuples on BOTH real implementations (skrifa through the
//!     `skrifa::verif` hooks / font-types, FreeType through freetype-sys FFI where the symbol is
//!     exported); each case `(op, args, skrifa result, FreeType result)` is evaluated by the two
//!     Coq models of coq/C03/Model.v (`check_case`).  Implementation-only oracle: the two real
//!     results agree (modulo 2^32, the statement that is proved), and an i128 transcription of the
//!     FreeType semantics agrees with skrifa for the kernels FreeType does not export.
//! (b) the property itself: fauntlet's own FreeType/skrifa instances and RegularizingPen over every
//!     static outline font of font-test-data x all glyphs x ppem grid x {unhinted, interpreter x
//!     {mono, normal, light, lcd, vertical lcd}}; any path or advance difference is an oracle failure
//!     with key "<font>:<glyph>:<ppem>:<mode>".
use fauntlet::{Font, Hinting, HintingTarget, InstanceOptions, RegularizingPen};
use font_types::{F26Dot6, Fixed};
use freetype::ffi;
use serde_json::json;
use skrifa::outline::pen::PathElement;
use skrifa::verif::{math, RoundMode, RoundState};
use skrifa::GlyphId;
use std::collections::BTreeMap;
use std::panic::AssertUnwindSafe;
use std::sync::atomic::{AtomicUsize, Ordering};
use std::sync::Mutex;
use vh::*;

// ------------------------------------------------------------------------------------------
// (a) kernels
// ------------------------------------------------------------------------------------------

const MODES: [RoundMode; 8] = [
    RoundMode::Grid,
    RoundMode::HalfGrid,
    RoundMode::DoubleGrid,
    RoundMode::DownToGrid,
    RoundMode::UpToGrid,
    RoundMode::Off,
    RoundMode::Super,
    RoundMode::Super45,
];

/// skrifa side; `None` = this op has no skrifa side, `Some(Err)` = panic
fn run_sk(op: i64, a: &[i64]) -> Option<Result<i64, String>> {
    let a: Vec<i32> = a.iter().map(|v| *v as i32).collect();
    let r = match op {
        1 => catch(move || math::mul(a[0], a[1]) as i64),
        2 => catch(move || math::div(a[0], a[1]) as i64),
        3 => catch(move || math::mul_div(a[0], a[1], a[2]) as i64),
        4 => catch(move || math::mul_div_no_round(a[0], a[1], a[2]) as i64),
        5 => catch(move || math::mul14(a[0], a[1]) as i64),
        6 => catch(move || math::floor(a[0]) as i64),
        7 => catch(move || math::round(a[0]) as i64),
        8 => catch(move || math::ceil(a[0]) as i64),
        9 => catch(move || math::round_pad(a[0], a[1]) as i64),
        10..=17 => catch(move || {
            let st = RoundState {
                mode: MODES[(op - 10) as usize],
                threshold: a[0],
                phase: a[1],
                period: a[2],
            };
            st.round(F26Dot6::from_bits(a[3])).to_bits() as i64
        }),
        // the scale step of FreeTypeScaler: F26Dot6::from_bits(v) * scale
        18 => catch(move || (F26Dot6::from_bits(a[0]) * F26Dot6::from_bits(a[1])).to_bits() as i64),
        // Outlines::compute_scale: F26Dot6(ppem*64) / F26Dot6(upem)
        19 => catch(move || (F26Dot6::from_bits(a[0]) / F26Dot6::from_bits(a[1])).to_bits() as i64),
        20 => catch(move || F26Dot6::from_bits(a[0]).round().to_bits() as i64),
        23 => catch(move || Fixed::from_bits(a[0]).floor().to_bits() as i64),
        _ => return None,
    };
    Some(r)
}

/// FreeType side through FFI (FT_Long = c_long = i64 on this platform)
fn run_ft(op: i64, a: &[i64]) -> Option<i64> {
    let l = |i: usize| a[i] as ffi::FT_Long;
    unsafe {
        Some(match op {
            1 | 18 => ffi::FT_MulFix(l(0), l(1)) as i64,
            2 | 19 => ffi::FT_DivFix(l(0), l(1)) as i64,
            3 => ffi::FT_MulDiv(l(0), l(1), l(2)) as i64,
            21 => ffi::FT_RoundFix(l(0)) as i64,
            22 => ffi::FT_CeilFix(l(0)) as i64,
            23 => ffi::FT_FloorFix(l(0)) as i64,
            _ => return None,
        })
    }
}

/// Third, independent transcription (i128, LP64 `long` = i64 made explicit) of the FreeType
/// functions that are not exported; used only by the implementation-only oracle.
mod ftref {
    fn l(v: i128) -> i128 {
        v as i64 as i128
    }
    fn pix_floor(x: i128) -> i128 {
        x & !63
    }
    pub fn mul14(a: i128, b: i128) -> i128 {
        let mut r = a * b;
        r += 0x2000 + (r >> 63);
        (r >> 14) as i32 as i128
    }
    pub fn mul_div_no_round(a: i128, b: i128, c: i128) -> i128 {
        let s = a.signum().min(0).abs() + b.signum().min(0).abs() + c.signum().min(0).abs();
        let d = if c != 0 { (a.abs() * b.abs()) / c.abs() } else { 0x7FFF_FFFF };
        if s % 2 == 1 {
            l(-d)
        } else {
            l(d)
        }
    }
    pub fn round(mode: usize, thr: i128, ph: i128, per: i128, d: i128) -> Option<i128> {
        let pos = d >= 0;
        let m = d.abs();
        let clamp0 = |v: i128| if pos { v.max(0) } else { (-v).min(0) };
        Some(match mode {
            0 => clamp0(pix_floor(l(m + 32))),
            1 => {
                let v = l(pix_floor(m) + 32);
                if pos {
                    if v < 0 { 32 } else { v }
                } else if -v > 0 {
                    -32
                } else {
                    -v
                }
            }
            2 => clamp0(l(m + 16) & !31),
            3 => clamp0(pix_floor(m)),
            4 => clamp0(pix_floor(l(m + 63))),
            5 => d,
            6 => {
                if pos {
                    let v = l(l(d + (thr - ph)) & -per) + ph;
                    if v < 0 { ph } else { v }
                } else {
                    let v = l(-(l((thr - ph) - d) & -per)) - ph;
                    if v > 0 { -ph } else { v }
                }
            }
            7 => {
                if per == 0 {
                    return None;
                }
                if pos {
                    let v = (l(d + (thr - ph)) / per) * per + ph;
                    if v < 0 { ph } else { v }
                } else {
                    let v = -((l((thr - ph) - d) / per) * per) - ph;
                    if v > 0 { -ph } else { v }
                }
            }
            _ => return None,
        })
    }
}

fn in_i32(v: i128) -> bool {
    v >= i32::MIN as i128 && v <= i32::MAX as i128
}

struct Kernels {
    st: Stats,
    cw: CaseWriter,
}

impl Kernels {
    fn emit(&mut self, op: i64, a: Vec<i64>) {
        let sk = run_sk(op, &a);
        let ft = run_ft(op, &a);
        let st = &mut self.st;
        st.evaluations += 1;
        st.count(&format!("kernel.op{:02}", op));
        let key = format!("kernel:{}:{:?}", op, a);
        if let Some(Err(_)) = &sk {
            st.count(&format!("kernel.op{:02}.skrifa_panics", op));
        }
        // branch counters of RoundState::round: sign of the distance, clamp fired
        if (10..=17).contains(&op) {
            st.count(&format!("kernel.op{:02}.{}", op, if a[3] >= 0 { "d_nonneg" } else { "d_neg" }));
            if let Some(Ok(r)) = &sk {
                if a[3] != 0 && (*r == 0 || ((op == 16 || op == 17) && r.abs() == a[1].abs() && (*r >= 0) != (a[3] >= 0 || a[1] >= 0))) {
                    st.count(&format!("kernel.op{:02}.clamp_or_zero", op));
                }
            }
        }
        if op == 4 {
            st.count(&format!("kernel.op04.signs_{}{}{}", (a[0] < 0) as u8, (a[1] < 0) as u8, (a[2] < 0) as u8));
            if a[2] == 0 {
                st.count("kernel.op04.c_zero");
            }
        }
        // oracle 1: both real implementations agree (mod 2^32: FreeType's `long` is 64 bits wide)
        if let (Some(Ok(s)), Some(f)) = (&sk, &ft) {
            if !in_i32(*f as i128) {
                st.count(&format!("kernel.op{:02}.ft_result_exceeds_i32", op));
            }
            if *s != (*f as i32) as i64 {
                st.oracle_failure(json!({"key": key, "what": "skrifa kernel != FreeType (FFI) kernel mod 2^32",
                                         "op": op, "args": a, "skrifa": s, "freetype": f}));
            }
        }
        if let (Some(Err(e)), Some(f)) = (&sk, &ft) {
            st.oracle_failure(json!({"key": key, "what": "skrifa kernel panics where FreeType returns", "op": op,
                                     "args": a, "panic": e, "freetype": f}));
        }
        // oracle 2: i128 transcription of the unexported FreeType function.  skrifa == FreeType is demanded
        // exactly on the numeric ranges for which coq/C03/Props.v proves it (round_*_eq, muldiv_noround_
        // wrapfree_range + ftmuldiv_noround_eq); outside them (an i32 intermediate may wrap) a difference is
        // the divergence the `_refuted` witnesses describe: counted as an observation, not a failure.
        if let Some(Ok(s)) = &sk {
            let z: Vec<i128> = a.iter().map(|v| *v as i128).collect();
            let r = match op {
                4 => Some(ftref::mul_div_no_round(z[0], z[1], z[2])),
                5 => Some(ftref::mul14(z[0], z[1])),
                10..=17 => ftref::round((op - 10) as usize, z[0], z[1], z[2], z[3]),
                _ => None,
            };
            const MIN: i128 = i32::MIN as i128;
            const SMALL: i128 = 1 << 28;
            let in_domain = match op {
                4 => {
                    z.iter().all(|v| *v != MIN)
                        && (z[2] == 0 || (z[0].abs() * z[1].abs()) / z[2].abs() <= i32::MAX as i128)
                }
                5 | 15 => true,
                10..=14 => z[3].abs() <= 2147483520,
                16 => z.iter().all(|v| v.abs() <= SMALL),
                17 => z.iter().all(|v| v.abs() <= SMALL) && z[2] != 0,
                _ => false,
            };
            if let Some(r) = r {
                st.count(&format!("kernel.op{:02}.{}", op, if in_domain { "in_proved_range" } else { "outside_proved_range" }));
                if *s as i128 != r {
                    if in_domain {
                        st.oracle_failure(json!({"key": key, "what": "skrifa kernel != FreeType semantics (i128 transcription, LP64) inside the range where equality is proved",
                                                 "op": op, "args": a, "skrifa": s, "freetype_ref": r.to_string()}));
                    } else {
                        // differs from FreeType's 64-bit value; "mod32": differs even in the low 32 bits
                        st.count(&format!("kernel.op{:02}.divergence_outside_proved_range", op));
                        if *s != (r as i32) as i64 {
                            st.count(&format!("kernel.op{:02}.divergence_mod32_outside_proved_range", op));
                        }
                    }
                }
            }
        }
        if a.iter().any(|v| v.abs() > 1) {
            st.nontrivial(&key);
        }
        let skv: Vec<i128> = match &sk {
            Some(Ok(v)) => vec![*v as i128],
            _ => vec![],
        };
        let ftv: Vec<i128> = ft.iter().map(|v| *v as i128).collect();
        if st.samples.len() < 3 {
            st.sample(json!({"op": op, "args": a, "skrifa": format!("{:?}", sk), "freetype": format!("{:?}", ft)}));
        }
        self.cw.push(format!(
            "({}, {}, {}, {})",
            op,
            czlist(a.iter().map(|v| *v as i128)),
            czlist(skv),
            czlist(ftv)
        ));
    }
}

impl Kernels {
    /// a case whose two real results were observed indirectly (through drawn outlines)
    fn emit_observed(&mut self, op: i64, a: Vec<i64>, sk: i64, ft: i64) {
        let st = &mut self.st;
        st.evaluations += 1;
        st.count(&format!("kernel.op{:02}", op));
        let key = format!("kernel:{}:{:?}", op, a);
        if sk != ft {
            st.oracle_failure(json!({"key": key, "what": "skrifa != FreeType on an instruction micro-program", "op": op, "args": a,
                                     "skrifa": sk, "freetype": ft}));
        }
        if op == 30 {
            st.count(if (a[0] - a[1]).abs() > a[2] { "kernel.op30.cutin_exceeded" } else { "kernel.op30.within_cutin" });
            st.count(if a[0] >= a[1] { "kernel.op30.cvt_above" } else { "kernel.op30.cvt_below" });
        }
        st.nontrivial(&key);
        self.cw.push(format!("({}, {}, {}, {})", op, czlist(a.iter().map(|v| *v as i128)), czlist([sk as i128]), czlist([ft as i128])));
    }
}

fn kernels(k: &mut Kernels, rng: &mut Rng, thorough: bool) {
    let grid = boundary_i32();
    let mult = if thorough { 10 } else { 1 };
    let any = |rng: &mut Rng, grid: &[i32]| -> i64 {
        match rng.below(4) {
            0 => rng.next_u32() as i32 as i64,
            1 => rng.range(-70000, 70000),
            _ => (*rng.pick(grid) as i64 + rng.range(-3, 3)).clamp(i32::MIN as i64, i32::MAX as i64),
        }
    };
    let extra = [i32::MIN, i32::MAX, 0, 1, -1, 64, -64, 65536, -65536, 32768, -32768, i32::MIN + 1, 0x4000, -0x4000];
    let sub: Vec<i32> = grid.iter().cloned().step_by(if thorough { 3 } else { 11 }).chain(extra).collect();
    // binary kernels
    for op in [1i64, 2, 5, 18, 19] {
        for a in &sub {
            for b in &sub {
                if op == 1 || op == 2 || rng.chance(1, 3) {
                    k.emit(op, vec![*a as i64, *b as i64]);
                }
            }
        }
        for _ in 0..800 * mult {
            let (a, b) = (any(rng, &grid), any(rng, &grid));
            k.emit(op, vec![a, b]);
        }
    }
    // realistic scale steps: font-unit coordinates x scale factors of real (ppem, upem) pairs
    for upem in [16i64, 250, 1000, 1024, 2048, 2816, 4096, 16384] {
        for ppem in [1i64, 6, 7, 8, 9, 11, 12, 13, 16, 17, 24, 40, 64, 72, 96, 128, 256, 1000, 4000] {
            k.emit(19, vec![ppem * 64, upem]);
            let scale = (F26Dot6::from_bits((ppem * 64) as i32) / F26Dot6::from_bits(upem as i32)).to_bits() as i64;
            for _ in 0..(4 * mult) {
                let v = rng.range(-upem * 2, upem * 2);
                k.emit(18, vec![v, scale]);
            }
            // exact ties of the product: v * scale = (2k+1) * 0x8000
            k.emit(18, vec![0x8000, scale]);
            k.emit(18, vec![-0x8000, scale]);
        }
    }
    // ternary kernels
    let sub3: Vec<i32> = grid
        .iter()
        .cloned()
        .step_by(if thorough { 12 } else { 45 })
        .chain([i32::MIN, i32::MAX, 0, 1, -1, 64, -64, i32::MIN + 1])
        .collect();
    for op in [3i64, 4] {
        for a in &sub3 {
            for b in &sub3 {
                for c in &sub3 {
                    k.emit(op, vec![*a as i64, *b as i64, *c as i64]);
                }
            }
        }
        for _ in 0..1200 * mult {
            let v = vec![any(rng, &grid), any(rng, &grid), any(rng, &grid)];
            k.emit(op, v);
        }
        // the shapes the interpreter uses: DIV = (a, 64, b), MUL = (a, b, 64)
        for _ in 0..500 * mult {
            let (a, b) = (any(rng, &grid), any(rng, &grid));
            k.emit(op, if op == 4 { vec![a, 64, b] } else { vec![a, b, 64] });
        }
    }
    // unary kernels
    for op in [6i64, 7, 8, 20, 21, 22, 23] {
        for a in &grid {
            k.emit(op, vec![*a as i64]);
        }
        for _ in 0..200 * mult {
            let v = any(rng, &grid);
            k.emit(op, vec![v]);
        }
        // ties
        for q in -4i64..4 {
            for d in [-1i64, 0, 1] {
                k.emit(op, vec![q * 65536 + 32768 + d]);
                k.emit(op, vec![q * 64 + 32 + d]);
            }
        }
    }
    for n in [32i64, 64, 1, 2, 0, -1, 16, 3, i32::MIN as i64, i32::MAX as i64] {
        for a in grid.iter().step_by(3) {
            k.emit(9, vec![*a as i64, n]);
        }
        for q in -3i64..3 {
            for d in [-1i64, 0, 1] {
                k.emit(9, vec![q * 32 + 16 + d, n]);
            }
        }
    }
    // round states: the six fixed modes ignore (threshold, phase, period)
    for op in 10i64..=15 {
        for d in &grid {
            k.emit(op, vec![0, 0, 64, *d as i64]);
        }
        for q in -3i64..3 {
            for d in [-1i64, 0, 1, 15, 16, 17, 31, 32, 33, 63] {
                k.emit(op, vec![0, 0, 64, q * 64 + d]);
            }
        }
        for _ in 0..150 * mult {
            let v = vec![any(rng, &grid), any(rng, &grid), any(rng, &grid), any(rng, &grid)];
            k.emit(op, v);
        }
    }
    // SROUND / S45ROUND: every state the instruction decoder can produce (selector byte 0..255)
    for op in [16i64, 17] {
        for sel in 0..256i64 {
            let grid_period: i64 = if op == 16 { 64 } else { 0x2D41 >> 8 }; // ttinterp.c SetSuperRound(0x4000 / 0x2D41)
            let period = match sel & 0xC0 {
                0 => grid_period / 2,
                0x40 => grid_period,
                0x80 => grid_period * 2,
                _ => grid_period,
            };
            let phase = match sel & 0x30 {
                0 => 0,
                0x10 => period / 4,
                0x20 => period / 2,
                _ => period * 3 / 4,
            };
            let threshold = if sel & 0x0F == 0 { period - 1 } else { ((sel & 0x0F) - 4) * period / 8 };
            let n = if thorough { 24 } else { 5 };
            for _ in 0..n {
                let d = if rng.chance(1, 2) { rng.range(-4096, 4096) } else { any(rng, &grid) };
                k.emit(op, vec![threshold, phase, period, d]);
            }
            k.emit(op, vec![threshold, phase, period, 0]);
            k.emit(op, vec![threshold, phase, period, -1]);
        }
        // arbitrary / degenerate states (period 0, negative, MIN, -1 ...)
        for per in [0i64, 1, -1, 2, 3, 46, 64, -64, 128, i32::MIN as i64, i32::MAX as i64] {
            for d in grid.iter().step_by(9) {
                k.emit(op, vec![rng.range(-70, 70), rng.range(-70, 70), per, *d as i64]);
            }
        }
        for _ in 0..1000 * mult {
            let v = vec![any(rng, &grid), any(rng, &grid), any(rng, &grid), any(rng, &grid)];
            k.emit(op, v);
        }
        // small arbitrary states and distances: the clamp branches (val crossing 0) are dense here
        for _ in 0..1200 * mult {
            let per = *rng.pick(&[3i64, 5, 7, 23, 32, 45, 46, 64, 91, 128, -3, -46]);
            let v = vec![rng.range(-70, 70), rng.range(-70, 70), per, rng.range(-200, 200)];
            k.emit(op, v);
        }
    }
}

/// replay of the `..._refuted` witnesses of coq/C03/Examples.v on the real pair of implementations
fn witnesses(st: &mut Stats) {
    let mut w = serde_json::Map::new();
    // which FT_MulFix is linked? the portable FT_INT64 body would return 2^46-ish here
    let big = run_ft(1, &[0x7FFF_FFFF, 0x7FFF_FFFF]).unwrap();
    w.insert(
        "ft_mulfix_variant".into(),
        json!(if in_i32(big as i128) { "FT_MulFix_x86_64 (truncating to FT_Int32) — as modelled" } else { "portable FT_INT64 body (64-bit result)" }),
    );
    let mut both = |name: &str, op: i64, a: &[i64], exp_sk: i64, exp_ft: i64, st: &mut Stats| {
        let sk = run_sk(op, a).unwrap();
        let ft = run_ft(op, a).unwrap();
        let confirmed = sk == Ok(exp_sk) && ft == exp_ft;
        w.insert(name.into(), json!({"op": op, "args": a, "skrifa": format!("{:?}", sk), "freetype": ft, "confirmed_on_real_code": confirmed}));
        if !confirmed {
            st.count("witness_not_confirmed");
        }
    };
    both("ftdivfix_refuted", 2, &[0x7FFF_FFFF, 1], -65536, 0x7FFF_FFFF_0000, st);
    both("ftmuldiv_refuted", 3, &[0x7FFF_FFFF, 0x7FFF_FFFF, 1], 1, 0x3FFF_FFFF_0000_0001, st);
    // divergence witnesses at the i32 limits (coq/C03/Examples.v `*_refuted`): the real skrifa kernel (which
    // wraps since /repo fb7fa4b) must return the value the Coq model predicts; the FreeType side of these
    // kernels is not exported, so FreeType's value comes from the i128 transcription (= the Coq FreeType model)
    let mut wrapw = |name: &str, op: i64, a: &[i64], exp_sk: i64, exp_ft: i128, st: &mut Stats| {
        let sk = run_sk(op, a).unwrap();
        let z: Vec<i128> = a.iter().map(|v| *v as i128).collect();
        let ft = if op == 4 { Some(ftref::mul_div_no_round(z[0], z[1], z[2])) } else { ftref::round((op - 10) as usize, z[0], z[1], z[2], z[3]) };
        let confirmed = sk == Ok(exp_sk) && ft == Some(exp_ft) && exp_sk as i128 != exp_ft;
        w.insert(name.into(), json!({"op": op, "args": a, "skrifa": format!("{:?}", sk), "freetype_semantics": ft.map(|v| v.to_string()),
                                     "diverges": true, "confirmed_on_real_skrifa": confirmed}));
        if !confirmed {
            st.count("witness_not_confirmed");
        }
    };
    let (mn, mx) = (i32::MIN as i64, i32::MAX as i64);
    wrapw("muldiv_noround_refuted", 4, &[mn, 2, 4], 1 << 30, -(1 << 30), st);
    wrapw("div_instruction_refuted", 4, &[mn, 64, 128], 1 << 30, -(1 << 30), st);
    wrapw("round_grid_refuted", 10, &[0, 0, 64, mx], 0, 1 << 31, st);
    wrapw("round_double_grid_refuted", 12, &[0, 0, 64, mx], 0, 1 << 31, st);
    wrapw("round_up_to_grid_refuted", 14, &[0, 0, 64, mx], 0, 1 << 31, st);
    wrapw("round_half_grid_refuted", 11, &[0, 0, 64, mn], 0, -2147483680, st);
    wrapw("round_super_refuted", 16, &[40, 0, 64, mx], 0, 1 << 31, st);
    wrapw("round_super45_refuted", 17, &[40, 0, 64, mx], 0, 1 << 31, st);
    for (name, v) in w.iter() {
        if v.get("confirmed_on_real_code") == Some(&json!(false)) || v.get("confirmed_on_real_skrifa") == Some(&json!(false)) {
            st.oracle_failure(json!({"key": format!("witness:{name}"), "what": "a `_refuted` witness of coq/C03/Examples.v is not reproduced by the real implementations", "detail": v}));
        }
    }
    st.v.insert("witnesses".into(), serde_json::Value::Object(w));
}

// ------------------------------------------------------------------------------------------
// (c) synthetic TrueType font: instruction micro-programs compared between skrifa and FreeType
// ------------------------------------------------------------------------------------------
/// A fixed (seed-independent, so that failure keys are stable) TrueType font whose glyphs are 8-point polygons
/// carrying small instruction programs: every family of point-moving instruction (MIAP, MDAP, MDRP, MIRP,
/// MSIRP, ALIGNRP, ALIGNPTS, SHP, SHC, SHPIX, IP, ISECT, SCFS, UTP, FLIPPT, DELTAP/DELTAC, twilight zone, CALL/
/// LOOPCALL, MPPEM/MPS/GETINFO conditionals, non-axis vectors, stack arithmetic made visible through SCFS) with
/// operands above / below / at the control-value cut-in, single-width and minimum-distance thresholds, both signs,
/// every round state.  "Everything between the kernels" is exercised by comparing the two interpreters on it.
mod synth {
    use vh::Rng;

    pub struct Glyph {
        pub name: String,
        pub pts: Vec<(i16, i16)>,
        pub code: Vec<u8>,
        /// kernel tie: (cvt value, current coordinate, cut-in) of a `SCFS; WCVTP; SCVTCI; ROFF; MIAP[1]` program on point 0
        pub miap_kernel: Option<(i64, i64, i64)>,
        /// divergence class of the `stack` family: CINDEX/MINDEX with an index outside 1..=depth (FreeType, not pedantic:
        /// CINDEX pushes 0, MINDEX only pops the index, the program goes on)
        pub class: Option<&'static str>,
    }

    #[derive(Default)]
    pub struct Asm(pub Vec<u8>);
    impl Asm {
        pub fn push(&mut self, vals: &[i32]) -> &mut Self {
            for v in vals {
                if (0..=255).contains(v) {
                    self.0.extend([0xB0, *v as u8]);
                } else {
                    let w = (*v).clamp(-32768, 32767) as i16;
                    self.0.push(0xB8);
                    self.0.extend(w.to_be_bytes());
                }
            }
            self
        }
        pub fn op(&mut self, o: u8) -> &mut Self {
            self.0.push(o);
            self
        }
    }

    pub const FAMILIES: [&str; 17] = [
        "miap", "mdrp", "mirp", "align", "isect", "shpix", "arith", "measure", "delta", "cond", "twilight", "call", "flip",
        "vectors", "mixed", "kmiap", "stack",
    ];
    /// keys of the `stack` family's divergence classes (one oracle failure per class instead of one per glyph and mode)
    pub const CLASS_MINDEX_ZERO: &str = "mindex-zero-index";
    pub const CLASS_INDEX_RANGE: &str = "cindex-mindex-index-out-of-range";
    const VARIANTS: usize = 36;
    const SCRATCH_CVT: i32 = 40; // cvt entries 40.. are written by the programs

    fn round_state(a: &mut Asm, r: &mut Rng) {
        match r.below(11) {
            0 => a.op(0x18),                                         // RTG
            1 => a.op(0x19),                                         // RTHG
            2 => a.op(0x3D),                                         // RTDG
            3 => a.op(0x7D),                                         // RDTG
            4 => a.op(0x7C),                                         // RUTG
            5 => a.op(0x7A),                                         // ROFF
            6 | 7 => a.push(&[r.below(256) as i32]).op(0x76),        // SROUND
            8 => a.push(&[r.below(256) as i32]).op(0x77),            // S45ROUND
            _ => a,
        };
    }

    fn thresholds(a: &mut Asm, r: &mut Rng) {
        if r.chance(2, 3) {
            a.push(&[*r.pick(&[0, 1, 8, 16, 17, 32, 64, 68, 69, 128, 300, -1])]).op(0x1D); // SCVTCI
        }
        if r.chance(1, 3) {
            a.push(&[*r.pick(&[0, 8, 16, 32, 64, 200])]).op(0x1E); // SSWCI
            a.push(&[*r.pick(&[0, 60, 100, 180, 300, -120])]).op(0x1F); // SSW (FUnits)
        }
        if r.chance(1, 2) {
            a.push(&[*r.pick(&[0, 1, 32, 63, 64, 65, 100, 128])]).op(0x1A); // SMD
        }
    }

    /// returns 0 = y axis, 1 = x axis, 2 = diagonal
    fn axis(a: &mut Asm, r: &mut Rng) -> usize {
        match r.below(8) {
            0..=2 => {
                a.op(0x00);
                0
            }
            3..=5 => {
                a.op(0x01);
                1
            }
            6 => {
                // projection along the line p1-p5, freedom = projection
                a.push(&[1, 5]).op(0x06).op(0x0E);
                2
            }
            _ => {
                // projection vector from the stack (45 degrees), freedom vector x
                a.push(&[0x2D41, 0x2D41]).op(0x0A).op(0x05);
                2
            }
        }
    }

    fn coord(pts: &[(i16, i16)], p: usize, ax: usize) -> i32 {
        if ax == 0 {
            pts[p].1 as i32
        } else {
            pts[p].0 as i32
        }
    }

    const DELTAS: [i32; 17] = [0, 1, -1, 3, -3, 8, -8, 15, -15, 30, -30, 60, -60, 120, -120, 250, -250];

    fn fam_miap(a: &mut Asm, r: &mut Rng, pts: &[(i16, i16)], ax: usize) {
        for k in 0..(1 + r.below(3) as i32) {
            let p = r.below(8) as usize;
            let idx = SCRATCH_CVT + k;
            a.push(&[idx, coord(pts, p, ax) + *r.pick(&DELTAS)]).op(0x70); // WCVTF
            a.push(&[p as i32, idx]).op(0x3E + r.below(2) as u8); // MIAP[a]
        }
    }

    fn fam_mdrp(a: &mut Asm, r: &mut Rng) {
        a.push(&[r.below(8) as i32]).op(0x2E + r.below(2) as u8); // MDAP[a]
        for _ in 0..(1 + r.below(3)) {
            a.push(&[r.below(8) as i32]).op(0xC0 + r.below(32) as u8); // MDRP[abcde]
        }
    }

    fn fam_mirp(a: &mut Asm, r: &mut Rng, pts: &[(i16, i16)], ax: usize) {
        if r.chance(1, 4) {
            a.op(0x4E); // FLIPOFF
        }
        let p0 = r.below(8) as usize;
        a.push(&[p0 as i32]).op(0x2E + r.below(2) as u8);
        for k in 0..(1 + r.below(3) as i32) {
            let q = r.below(8) as usize;
            let mut d = coord(pts, q, ax) - coord(pts, p0, ax) + *r.pick(&DELTAS);
            if r.chance(1, 5) {
                d = -d;
            }
            let idx = SCRATCH_CVT + 4 + k;
            a.push(&[idx, d]).op(0x70);
            a.push(&[q as i32, idx]).op(0xE0 + r.below(32) as u8); // MIRP[abcde]
        }
    }

    fn fam_align(a: &mut Asm, r: &mut Rng, pts: &[(i16, i16)], ax: usize) {
        fam_miap(a, r, pts, ax);
        let (b, c, d) = (r.below(8) as i32, r.below(8) as i32, r.below(8) as i32);
        match r.below(5) {
            0 => {
                a.push(&[b, c, 2]).op(0x17).op(0x3C); // SLOOP 2; ALIGNRP
            }
            1 => {
                a.push(&[b]).op(0x11).push(&[c]).op(0x12); // SRP1 SRP2
                a.push(&[d]).op(0x32 + r.below(2) as u8); // SHP[a]
            }
            2 => {
                a.push(&[b]).op(0x11).push(&[c]).op(0x12);
                a.push(&[0]).op(0x34 + r.below(2) as u8); // SHC[a] contour 0
            }
            3 => {
                a.push(&[b]).op(0x11).push(&[c]).op(0x12);
                a.push(&[d, (d + 3) % 8, 2]).op(0x17).op(0x39); // SLOOP 2; IP
            }
            _ => {
                a.push(&[b, c]).op(0x27); // ALIGNPTS
            }
        }
    }

    fn fam_isect(a: &mut Asm, r: &mut Rng) {
        let mut v: Vec<i32> = (0..8).collect();
        r.shuffle(&mut v);
        a.push(&[v[0], v[1], v[2], v[3], v[4]]).op(0x0F); // ISECT
        if r.chance(1, 2) {
            a.push(&[v[5]]).op(0x29); // UTP
        }
    }

    fn fam_shpix(a: &mut Asm, r: &mut Rng) {
        let amounts = [0, 1, -1, 16, -16, 31, 32, 33, 64, -64, 100, -200, 640];
        match r.below(3) {
            0 => {
                a.push(&[r.below(8) as i32, r.below(8) as i32, 2]).op(0x17);
                a.push(&[*r.pick(&amounts)]).op(0x38); // SHPIX
            }
            1 => {
                a.push(&[r.below(8) as i32]).op(0x10); // SRP0
                a.push(&[r.below(8) as i32, *r.pick(&amounts)]).op(0x3A + r.below(2) as u8); // MSIRP[a]
            }
            _ => {
                a.push(&[r.below(8) as i32, *r.pick(&amounts) * 5]).op(0x48); // SCFS
            }
        }
    }

    fn fam_arith(a: &mut Asm, r: &mut Rng) {
        let vals = [0, 1, -1, 2, 3, 31, 32, 33, 63, 64, 65, 100, -100, 127, 128, 640, -640, 1000, 4095, 4096, -4097, 32767, -32768, 20000];
        a.push(&[r.below(8) as i32]); // the point SCFS will move
        a.push(&[*r.pick(&vals), *r.pick(&vals)]);
        let bin = [0x60u8, 0x61, 0x62, 0x63, 0x8B, 0x8C]; // ADD SUB DIV MUL MAX MIN
        let op = *r.pick(&bin);
        if op == 0x62 {
            // never divide by zero (both interpreters raise an error, nothing to compare)
            a.op(0x20).push(&[0]).op(0x54).op(0x58).op(0x21).push(&[7]).op(0x59); // DUP 0 EQ IF POP 7 EIF
        }
        a.op(op);
        for _ in 0..r.below(3) {
            let un = [0x64u8, 0x65, 0x66, 0x67, 0x68, 0x69, 0x6A, 0x6B, 0x6C, 0x6D, 0x56, 0x57, 0x5C]; // ABS NEG FLOOR CEILING ROUND* NROUND* ODD EVEN NOT
            a.op(*r.pick(&un));
        }
        // keep the coordinate inside a range where f32 holds it exactly: v -> (v MIN 200000) MAX -200000
        a.push(&[20000]).op(0x8C).push(&[-20000]).op(0x8B);
        a.op(0x48); // SCFS
    }

    fn fam_measure(a: &mut Asm, r: &mut Rng, pts: &[(i16, i16)], ax: usize) {
        fam_miap(a, r, pts, ax);
        let (p, q) = (r.below(8) as i32, r.below(8) as i32);
        if r.chance(1, 2) {
            a.push(&[q, p]).op(0x46 + r.below(2) as u8).op(0x48); // GC[a] p ; SCFS q
        } else {
            a.push(&[q, p, (p + 2) % 8]).op(0x49 + r.below(2) as u8); // MD[a]
            a.op(0x38); // SHPIX q by the measured distance
        }
    }

    fn fam_delta(a: &mut Asm, r: &mut Rng, pts: &[(i16, i16)], ax: usize) {
        a.push(&[*r.pick(&[9, 6, 16, 25, 40, 60, 100, 170, 250])]).op(0x5E); // SDB
        a.push(&[*r.pick(&[0, 1, 3, 4, 6])]).op(0x5F); // SDS
        let n = 2 + r.below(3) as i32;
        if r.chance(2, 3) {
            fam_mdrp(a, r); // touch something first (backward compatibility looks at touch flags)
            for _ in 0..n {
                a.push(&[r.below(256) as i32, r.below(8) as i32]);
            }
            a.push(&[n]).op(*r.pick(&[0x5D, 0x71, 0x72])); // DELTAP1/2/3
        } else {
            let p = r.below(8) as usize;
            let idx = SCRATCH_CVT + 9;
            a.push(&[idx, coord(pts, p, ax) + *r.pick(&DELTAS)]).op(0x70);
            for _ in 0..n {
                a.push(&[r.below(256) as i32, idx]);
            }
            a.push(&[n]).op(*r.pick(&[0x73, 0x74, 0x75])); // DELTAC1/2/3
            a.push(&[p as i32, idx]).op(0x3F);
        }
    }

    fn fam_cond(a: &mut Asm, r: &mut Rng, pts: &[(i16, i16)], ax: usize) {
        match r.below(4) {
            0 => {
                a.op(0x4B).push(&[*r.pick(&[9, 12, 20, 33, 50, 80, 128, 150, 200, 260, 300])]); // MPPEM t
                a.op(*r.pick(&[0x50, 0x51, 0x52, 0x53, 0x54, 0x55]));
            }
            1 => {
                a.op(0x4C).push(&[*r.pick(&[12, 20, 64, 640, 1280, 6400])]).op(0x52); // MPS t GT
            }
            2 => {
                // GETINFO selector; keep one result bit
                a.push(&[*r.pick(&[1, 2, 4, 8, 32, 64, 128, 256, 512, 1024, 2048, 4096])]).op(0x88);
                if r.chance(1, 2) {
                    a.push(&[*r.pick(&[35, 38, 40, 42])]).op(0x53); // version >= n
                }
            }
            _ => {
                a.push(&[r.below(8) as i32]).op(0x46).push(&[*r.pick(&[0, 64, 300, 1000])]).op(0x52); // GC p > t
            }
        }
        a.op(0x58); // IF
        fam_miap(a, r, pts, ax);
        a.op(0x1B); // ELSE
        fam_shpix(a, r);
        a.op(0x59); // EIF
    }

    fn fam_twilight(a: &mut Asm, r: &mut Rng, pts: &[(i16, i16)], ax: usize) {
        let tw = r.below(8) as i32;
        let p = r.below(8) as usize;
        a.push(&[0]).op(0x13); // SZP0 0
        a.push(&[SCRATCH_CVT + 10, coord(pts, p, ax) + *r.pick(&DELTAS)]).op(0x70);
        a.push(&[tw, SCRATCH_CVT + 10]).op(0x3E + r.below(2) as u8); // MIAP in the twilight zone
        match r.below(3) {
            0 => {
                let q = r.below(8) as usize;
                a.push(&[SCRATCH_CVT + 11, coord(pts, q, ax) - coord(pts, p, ax) + *r.pick(&DELTAS)]).op(0x70);
                a.push(&[q as i32, SCRATCH_CVT + 11]).op(0xE0 + r.below(32) as u8); // MIRP from twilight rp0
            }
            1 => {
                a.push(&[r.below(8) as i32]).op(0xC0 + r.below(32) as u8); // MDRP from twilight rp0
            }
            _ => {
                a.push(&[r.below(8) as i32]).op(0x3C); // ALIGNRP
            }
        }
        a.push(&[1]).op(0x16); // SZPS 1
    }

    fn fam_call(a: &mut Asm, r: &mut Rng, pts: &[(i16, i16)], ax: usize) {
        a.push(&[r.below(8) as i32]).op(0x2F); // MDAP[1]
        match r.below(3) {
            0 => {
                a.push(&[r.below(8) as i32, 0]).op(0x2B); // CALL 0: MDRP
            }
            1 => {
                let n = 1 + r.below(4) as i32;
                for _ in 0..n {
                    a.push(&[r.below(8) as i32]);
                }
                a.push(&[n, 1]).op(0x2A); // LOOPCALL 1: SHPIX 24
            }
            _ => {
                let p = r.below(8) as usize;
                a.push(&[SCRATCH_CVT + 12, coord(pts, p, ax) + *r.pick(&DELTAS)]).op(0x70);
                a.push(&[p as i32, SCRATCH_CVT + 12, 2]).op(0x2B); // CALL 2: MIAP[1]
            }
        }
    }

    fn fam_flip(a: &mut Asm, r: &mut Rng) {
        match r.below(3) {
            0 => {
                a.push(&[r.below(8) as i32, r.below(8) as i32, 2]).op(0x17).op(0x80); // FLIPPT
            }
            1 => {
                let lo = r.below(6) as i32;
                a.push(&[lo, lo + 1 + r.below(2) as i32]).op(0x82); // FLIPRGOFF
            }
            _ => {
                let lo = r.below(6) as i32;
                a.push(&[lo, lo + 1]).op(0x82).push(&[lo, lo]).op(0x81); // off then one back on
            }
        }
    }

    fn fam_vectors(a: &mut Asm, r: &mut Rng, pts: &[(i16, i16)]) {
        let (p1, p2) = (r.below(8) as i32, r.below(8) as i32);
        let p2 = if p1 == p2 { (p2 + 3) % 8 } else { p2 };
        match r.below(5) {
            0 => a.push(&[p1, p2]).op(0x06 + r.below(2) as u8).op(0x0E), // SPVTL[a]; SFVTPV
            1 => a.push(&[p1, p2]).op(0x08 + r.below(2) as u8).op(0x02 + r.below(2) as u8), // SFVTL[a]; SPVTCA
            2 => a.push(&[p1, p2]).op(0x86 + r.below(2) as u8).op(0x0E), // SDPVTL[a]; SFVTPV
            3 => a.push(&[*r.pick(&[0x4000, 0x3B21, 0x2D41, 0x376D]), *r.pick(&[0, 0x187E, 0x2D41, 0x2000])]).op(0x0A).op(0x0E),
            _ => a.op(0x01).op(0x0C).op(0x0B).op(0x0D).op(0x0A), // SVTCA x; GPV; SFVFS; GFV; SPVFS (round trip)
        };
        fam_mdrp(a, r);
        let p = r.below(8) as usize;
        a.push(&[SCRATCH_CVT + 13, pts[p].0 as i32 + *r.pick(&DELTAS)]).op(0x70);
        a.push(&[p as i32, SCRATCH_CVT + 13]).op(0x3E + r.below(2) as u8);
    }

    /// CINDEX / MINDEX at the boundary indices of an 8-deep stack (0, 1, 2, 3, depth, depth+1, -1, i16 limits), the
    /// whole resulting stack made visible: each of the top eight values afterwards becomes the coordinate (SCFS along
    /// y: allowed in every hinting mode) or the shift (SHPIX along x: visible in mono) of one of the eight points.
    /// Returns the divergence class of the variant (index outside 1..=depth).
    fn fam_stack(a: &mut Asm, v: usize) -> Option<&'static str> {
        const IDX: [i32; 9] = [0, 1, 2, 8, 9, -1, 3, 32767, -32768];
        const DEPTH: i32 = 8;
        let idx = IDX[v % 9];
        let mindex = (v / 9) % 2 == 1;
        let scfs = v / 18 == 0;
        a.op(if scfs { 0x00 } else { 0x01 }); // SVTCA[y] / SVTCA[x]
        let vals: Vec<i32> = (0..DEPTH).map(|i| if scfs { 64 * (3 * i + 2) + 7 * i } else { 24 * (i + 1) - 100 }).collect();
        a.push(&vals).push(&[idx]).op(if mindex { 0x26 } else { 0x25 }); // MINDEX / CINDEX
        for p in 0..8 {
            a.push(&[p]).op(0x23).op(if scfs { 0x48 } else { 0x38 }); // PUSH p; SWAP; SCFS / SHPIX
        }
        if (1..=DEPTH).contains(&idx) {
            None
        } else if mindex && idx == 0 {
            Some(CLASS_MINDEX_ZERO)
        } else {
            Some(CLASS_INDEX_RANGE)
        }
    }

    pub fn glyphs() -> Vec<Glyph> {
        let mut r = Rng::new(0xC03);
        let mut out = vec![Glyph { name: ".notdef".into(), pts: vec![], code: vec![], miap_kernel: None, class: None }];
        let base: [(i32, i32); 8] = [(100, 0), (900, 0), (1130, 310), (1100, 1090), (880, 1400), (120, 1400), (-60, 1010), (-30, 290)];
        for fam in FAMILIES {
            for v in 0..VARIANTS {
                let pts: Vec<(i16, i16)> =
                    base.iter().map(|(x, y)| ((x + r.range(-70, 70) as i32) as i16, (y + r.range(-70, 70) as i32) as i16)).collect();
                let mut a = Asm::default();
                let mut kernel = None;
                let mut class = None;
                if fam == "stack" {
                    class = fam_stack(&mut a, v);
                } else if fam == "kmiap" {
                    // x(point 0) := v; cvt := c; cut-in := k; no rounding; MIAP[1]  =>  x(point 0) = cut-in selection
                    let pick = |r: &mut Rng| -> i32 {
                        match r.below(4) {
                            0 => r.range(-32768, 32767) as i32,
                            1 => *r.pick(&[0, 1, -1, 64, -64, 32767, -32768, 68, 17]),
                            _ => r.range(-700, 700) as i32,
                        }
                    };
                    let vv = pick(&mut r);
                    let c = if r.chance(1, 2) { vv + *r.pick(&DELTAS) } else { pick(&mut r) }.clamp(-32768, 32767);
                    let k = if r.chance(1, 2) { (c - vv).abs() + r.range(-1, 1) as i32 } else { *r.pick(&[0, 1, 17, 68, 300, -1, -5, 32767]) }
                        .clamp(-32768, 32767);
                    a.op(0x01); // SVTCA[x]
                    a.push(&[0, vv]).op(0x48); // SCFS
                    a.push(&[SCRATCH_CVT, c]).op(0x44); // WCVTP
                    a.push(&[k]).op(0x1D); // SCVTCI
                    a.op(0x7A); // ROFF
                    a.push(&[0, SCRATCH_CVT]).op(0x3F); // MIAP[1]
                    kernel = Some((c as i64, vv as i64, k as i64));
                } else {
                    let ax = if fam == "vectors" { 1 } else { axis(&mut a, &mut r) };
                    round_state(&mut a, &mut r);
                    thresholds(&mut a, &mut r);
                    let blocks = if fam == "mixed" { 3 } else { 1 };
                    for _ in 0..blocks {
                        let f = if fam == "mixed" { *r.pick(&FAMILIES[..14]) } else { fam };
                        match f {
                            "miap" => fam_miap(&mut a, &mut r, &pts, ax),
                            "mdrp" => fam_mdrp(&mut a, &mut r),
                            "mirp" => fam_mirp(&mut a, &mut r, &pts, ax),
                            "align" => fam_align(&mut a, &mut r, &pts, ax),
                            "isect" => fam_isect(&mut a, &mut r),
                            "shpix" => fam_shpix(&mut a, &mut r),
                            "arith" => fam_arith(&mut a, &mut r),
                            "measure" => fam_measure(&mut a, &mut r, &pts, ax),
                            "delta" => fam_delta(&mut a, &mut r, &pts, ax),
                            "cond" => fam_cond(&mut a, &mut r, &pts, ax),
                            "twilight" => fam_twilight(&mut a, &mut r, &pts, ax),
                            "call" => fam_call(&mut a, &mut r, &pts, ax),
                            "flip" => fam_flip(&mut a, &mut r),
                            _ => fam_vectors(&mut a, &mut r, &pts),
                        }
                    }
                    match r.below(4) {
                        0 => {
                            a.op(0x30).op(0x31); // IUP[y] IUP[x]
                        }
                        1 => {
                            a.op(0x30);
                        }
                        _ => {}
                    }
                }
                out.push(Glyph { name: format!("{fam}{v:02}"), pts, code: a.0, miap_kernel: kernel, class });
            }
        }
        out
    }

    fn be16(v: &mut Vec<u8>, x: i32) {
        v.extend((x as u16).to_be_bytes());
    }

    /// Replace glyf/loca/maxp/hmtx/cvt/fpgm/prep of a template font (head/hhea patched; cmap, name, post, OS/2 kept).
    pub fn build_font(template: &[u8], glyphs: &[Glyph]) -> Vec<u8> {
        let ntab = u16::from_be_bytes([template[4], template[5]]) as usize;
        let mut tables: std::collections::BTreeMap<[u8; 4], Vec<u8>> = Default::default();
        for i in 0..ntab {
            let rec = &template[12 + 16 * i..28 + 16 * i];
            let tag: [u8; 4] = rec[0..4].try_into().unwrap();
            let off = u32::from_be_bytes(rec[8..12].try_into().unwrap()) as usize;
            let len = u32::from_be_bytes(rec[12..16].try_into().unwrap()) as usize;
            if [b"head", b"hhea", b"cmap", b"name", b"post", b"OS/2"].contains(&&tag) {
                tables.insert(tag, template[off..off + len].to_vec());
            }
        }
        // glyf + loca (long) + hmtx
        let (mut glyf, mut loca, mut hmtx) = (vec![], vec![], vec![]);
        let mut max_ins = 0usize;
        for g in glyphs {
            loca.extend((glyf.len() as u32).to_be_bytes());
            if g.pts.is_empty() {
                be16(&mut hmtx, 1000);
                be16(&mut hmtx, 0);
                continue;
            }
            let xs: Vec<i32> = g.pts.iter().map(|p| p.0 as i32).collect();
            let ys: Vec<i32> = g.pts.iter().map(|p| p.1 as i32).collect();
            let (xmin, xmax) = (*xs.iter().min().unwrap(), *xs.iter().max().unwrap());
            let (ymin, ymax) = (*ys.iter().min().unwrap(), *ys.iter().max().unwrap());
            be16(&mut glyf, 1);
            for v in [xmin, ymin, xmax, ymax] {
                be16(&mut glyf, v);
            }
            be16(&mut glyf, g.pts.len() as i32 - 1);
            be16(&mut glyf, g.code.len() as i32);
            glyf.extend(&g.code);
            max_ins = max_ins.max(g.code.len());
            glyf.extend(std::iter::repeat(0x01u8).take(g.pts.len())); // on curve, 16-bit deltas
            let mut prev = 0;
            for x in &xs {
                be16(&mut glyf, x - prev);
                prev = *x;
            }
            prev = 0;
            for y in &ys {
                be16(&mut glyf, y - prev);
                prev = *y;
            }
            while glyf.len() % 4 != 0 {
                glyf.push(0);
            }
            be16(&mut hmtx, 1300 + (xmax % 7) * 11);
            be16(&mut hmtx, xmin); // lsb = xMin: the first phantom point sits at 0
        }
        loca.extend((glyf.len() as u32).to_be_bytes());
        let mut maxp = vec![];
        maxp.extend(0x00010000u32.to_be_bytes());
        for v in [glyphs.len() as i32, 8, 1, 0, 0, 2, 16, 16, 8, 0, 256, max_ins.max(64) as i32, 0, 0] {
            be16(&mut maxp, v);
        }
        let cvt_vals: [i32; 40] = [
            0, 100, 300, 900, 1000, 1100, 1400, 800, 200, 50, -50, 20, 10, 5, 1, 64, 128, 700, 1300, 1234, -300, -800, -1100, 1500, 2, 3, 40, 80,
            160, 600, 450, 1050, 0, 0, 0, 0, 0, 0, 0, 0,
        ];
        let mut cvt = vec![];
        for v in cvt_vals.iter().chain([0i32; 24].iter()) {
            be16(&mut cvt, *v);
        }
        // fpgm: F0 = MDRP[min,round] ; F1 = SHPIX by 24 ; F2 = MIAP[1]
        let fpgm: Vec<u8> = vec![0xB0, 0, 0x2C, 0xD4, 0x2D, 0xB0, 1, 0x2C, 0xB0, 24, 0x38, 0x2D, 0xB0, 2, 0x2C, 0x3F, 0x2D];
        // prep: above 100 ppem tighten the cut-in (what real fonts do); below 7 ppem switch glyph programs off
        let mut prep = Asm::default();
        prep.op(0x4B).push(&[100]).op(0x52).op(0x58).push(&[16]).op(0x1D).op(0x59);
        prep.op(0x4B).push(&[7]).op(0x50).op(0x58).push(&[1, 1]).op(0x8E).op(0x59);
        let head = tables.get_mut(b"head").unwrap();
        head[50] = 0;
        head[51] = 1; // indexToLocFormat = long
        let hhea = tables.get_mut(b"hhea").unwrap();
        let n = glyphs.len() as u16;
        hhea[34..36].copy_from_slice(&n.to_be_bytes());
        for (tag, data) in [(b"glyf", glyf), (b"loca", loca), (b"hmtx", hmtx), (b"maxp", maxp), (b"cvt ", cvt), (b"fpgm", fpgm), (b"prep", prep.0)] {
            tables.insert(*tag, data);
        }
        let mut out = vec![];
        out.extend(0x00010000u32.to_be_bytes());
        be16(&mut out, tables.len() as i32);
        for _ in 0..3 {
            be16(&mut out, 0); // searchRange etc.: neither reader uses them
        }
        let mut off = 12 + 16 * tables.len();
        let mut body = vec![];
        for (tag, data) in &tables {
            out.extend(tag);
            out.extend(0u32.to_be_bytes());
            out.extend((off as u32).to_be_bytes());
            out.extend((data.len() as u32).to_be_bytes());
            body.extend(data);
            let pad = (4 - data.len() % 4) % 4;
            body.extend(std::iter::repeat(0u8).take(pad));
            off += data.len() + pad;
        }
        out.extend(body);
        out
    }
}

// ------------------------------------------------------------------------------------------
// (b) the differential grid
// ------------------------------------------------------------------------------------------

const TARGETS: [(Option<Hinting>, &str); 6] = [
    (None, "unhinted"),
    (Some(Hinting::Interpreter(HintingTarget::Mono)), "mono"),
    (Some(Hinting::Interpreter(HintingTarget::Normal)), "normal"),
    (Some(Hinting::Interpreter(HintingTarget::Light)), "light"),
    (Some(Hinting::Interpreter(HintingTarget::Lcd)), "lcd"),
    (Some(Hinting::Interpreter(HintingTarget::VerticalLcd)), "vlcd"),
];

#[derive(Default)]
struct GridOut {
    failures: Vec<serde_json::Value>,
    counters: BTreeMap<String, u64>,
    nontrivial: Vec<u64>,
    evaluations: u64,
    sample: Option<serde_json::Value>,
    /// (synthetic glyph id, x of point 0 from skrifa, from FreeType) in 26.6 for the kernel-tie glyphs
    kernel_obs: Vec<(usize, i64, i64)>,
}

static SYNTH: std::sync::OnceLock<Vec<synth::Glyph>> = std::sync::OnceLock::new();
const SYNTH_FILE: &str = "c03_synthetic.ttf";

fn path_str(p: &[PathElement]) -> String {
    let mut s = p.iter().map(|e| format!("{e:?}")).collect::<Vec<_>>().join("; ");
    if s.len() > 3000 {
        s.truncate(3000);
        s.push_str(" ...");
    }
    s
}

fn font_files() -> Vec<std::path::PathBuf> {
    let mut v = vec![];
    for sub in ["ttf", "ttc"] {
        let d = std::path::Path::new("/repo/font-test-data/test_data").join(sub);
        if let Ok(rd) = std::fs::read_dir(&d) {
            for e in rd.flatten() {
                let p = e.path();
                let ext = p.extension().map(|e| e.to_string_lossy().to_lowercase()).unwrap_or_default();
                if ["ttf", "otf", "ttc"].contains(&ext.as_str()) {
                    v.push(p);
                }
            }
        }
    }
    v.sort();
    // development aid: C03_FONT_FILTER=<substring> restricts the grid to matching file names
    if let Ok(f) = std::env::var("C03_FONT_FILTER") {
        v.retain(|p| p.to_string_lossy().contains(&f));
    }
    v
}

fn run_grid_task(path: &std::path::Path, ppem: u32, out: &mut GridOut) {
    let name = path.file_name().unwrap().to_string_lossy().to_string();
    let Some(mut font) = Font::new(path) else {
        *out.counters.entry(format!("grid.font_unreadable.{name}")).or_default() += 1;
        return;
    };
    for font_ix in 0..font.count() {
        let fname = if font.count() > 1 { format!("{name}#{font_ix}") } else { name.clone() };
        if font.axis_count(font_ix) != 0 {
            // the property is about static fonts
            *out.counters.entry("grid.skipped_variable_font_instances".into()).or_default() += 1;
            continue;
        }
        for (hinting, mode) in TARGETS {
            if ppem == 0 && hinting.is_some() {
                continue;
            }
            let options = InstanceOptions::new(font_ix, ppem, &[], hinting);
            let Some((mut ft, mut sk)) = font.instantiate(&options) else {
                *out.counters.entry(format!("grid.not_instantiable.{fname}")).or_default() += 1;
                continue;
            };
            if !ft.is_scalable() {
                *out.counters.entry(format!("grid.not_scalable.{fname}")).or_default() += 1;
                continue;
            }
            *out.counters.entry(format!("grid.instances.{mode}")).or_default() += 1;
            let is_scaled = ppem != 0;
            let mut ft_outline: Vec<PathElement> = vec![];
            let mut sk_outline: Vec<PathElement> = vec![];
            for gid in 0..sk.glyph_count() {
                let g = GlyphId::from(gid);
                let synth_glyph = if name == SYNTH_FILE { SYNTH.get().and_then(|v| v.get(gid as usize)) } else { None };
                let key = match synth_glyph {
                    Some(sg) => format!("{fname}:{}:{ppem}:{mode}", sg.name),
                    None => format!("{fname}:{gid}:{ppem}:{mode}"),
                };
                ft_outline.clear();
                sk_outline.clear();
                let ft_adv = ft.outline(g, &mut RegularizingPen::new(&mut ft_outline, is_scaled));
                let sk_res = std::panic::catch_unwind(AssertUnwindSafe(|| {
                    sk.outline(g, &mut RegularizingPen::new(&mut sk_outline, is_scaled))
                }));
                out.evaluations += 1;
                let Some(ft_adv) = ft_adv else {
                    // FreeType refuses the glyph: nothing to compare against
                    *out.counters.entry("grid.ft_refused_glyph".into()).or_default() += 1;
                    continue;
                };
                match sk_res {
                    Err(_) => {
                        out.failures.push(json!({"key": key, "what": "skrifa panics, FreeType draws", "freetype": path_str(&ft_outline)}));
                        continue;
                    }
                    Ok(Err(e)) => {
                        *out.counters.entry("grid.skrifa_error_ft_ok".into()).or_default() += 1;
                        out.failures.push(json!({"key": key, "what": format!("skrifa returns error {e:?}, FreeType draws"),
                                                 "freetype": path_str(&ft_outline)}));
                        continue;
                    }
                    Ok(Ok(sk_adv)) => {
                        *out.counters.entry("grid.glyphs_compared".into()).or_default() += 1;
                        *out.counters.entry(format!("grid.compared.{fname}")).or_default() += 1;
                        if !ft_outline.is_empty() {
                            out.nontrivial.push(fnv(key.as_bytes()));
                        }
                        if out.sample.is_none() && ft_outline.len() > 3 && gid > 2 && ppem != 0 && hinting.is_some() {
                            out.sample = Some(json!({"key": key, "advance_ft": ft_adv, "advance_skrifa": sk_adv, "path": path_str(&ft_outline)}));
                        }
                        if let (Some(sg), "mono", 16) = (synth_glyph, mode, ppem) {
                            if sg.miap_kernel.is_some() {
                                let x0 = |p: &[PathElement]| match p.first() {
                                    Some(PathElement::MoveTo { x, .. }) => (*x as f64 * 64.0).round() as i64,
                                    _ => i64::MIN,
                                };
                                out.kernel_obs.push((gid as usize, x0(&sk_outline), x0(&ft_outline)));
                            }
                        }
                        if ft_outline != sk_outline {
                            out.failures.push(json!({"key": key, "what": "outline differs", "freetype": path_str(&ft_outline),
                                                     "skrifa": path_str(&sk_outline)}));
                        } else if let Some(sk_adv) = sk_adv {
                            *out.counters.entry("grid.advances_compared".into()).or_default() += 1;
                            if sk_adv != ft_adv {
                                out.failures.push(json!({"key": key, "what": "advance width differs", "freetype": ft_adv, "skrifa": sk_adv}));
                            }
                        } else {
                            *out.counters.entry("grid.advance_not_reported_by_skrifa".into()).or_default() += 1;
                        }
                    }
                }
            }
        }
    }
}

/// Decode a TrueType instruction stream and collect the constants that are compared with MPPEM (fonts switch
/// behaviour at such thresholds: `PUSH n; MPPEM; LT/GT/...` or `MPPEM; PUSH n; GTEQ ...`).  Heuristic superset:
/// every value pushed within the 4 pushes before an MPPEM, or after it and before the next comparison.
fn scan_mppem_constants(code: &[u8], out: &mut std::collections::BTreeSet<u32>) {
    let mut recent: Vec<i32> = vec![];
    let mut after: Option<usize> = None; // instructions seen since the last MPPEM
    let mut i = 0;
    while i < code.len() {
        let op = code[i];
        i += 1;
        let (n, wide) = match op {
            0x40 => {
                let n = *code.get(i).unwrap_or(&0) as usize;
                i += 1;
                (n, false)
            }
            0x41 => {
                let n = *code.get(i).unwrap_or(&0) as usize;
                i += 1;
                (n, true)
            }
            0xB0..=0xB7 => ((op - 0xB0) as usize + 1, false),
            0xB8..=0xBF => ((op - 0xB8) as usize + 1, true),
            _ => (0, false),
        };
        for _ in 0..n {
            let v = if wide {
                let v = i16::from_be_bytes([*code.get(i).unwrap_or(&0), *code.get(i + 1).unwrap_or(&0)]) as i32;
                i += 2;
                v
            } else {
                let v = *code.get(i).unwrap_or(&0) as i32;
                i += 1;
                v
            };
            recent.push(v);
            if after.is_some() && (2..=4096).contains(&v) {
                out.insert(v as u32);
            }
        }
        if op == 0x4B {
            for v in recent.iter().rev().take(4) {
                if (2..=4096).contains(v) {
                    out.insert(*v as u32);
                }
            }
            after = Some(0);
        } else if let Some(k) = after {
            // a comparison (LT..NEQ) or 8 further instructions end the window
            after = if (0x50..=0x55).contains(&op) || k >= 8 { None } else { Some(k + 1) };
        }
    }
}

fn mppem_thresholds(path: &std::path::Path) -> Vec<u32> {
    use skrifa::raw::{tables::glyf::Glyph, types::Tag, FileRef, TableProvider};
    let mut set = std::collections::BTreeSet::new();
    let Ok(data) = std::fs::read(path) else { return vec![] };
    let Ok(file) = FileRef::new(&data) else { return vec![] };
    for font in file.fonts().flatten() {
        for tag in [b"fpgm", b"prep"] {
            if let Some(t) = font.table_data(Tag::new(tag)) {
                scan_mppem_constants(t.as_bytes(), &mut set);
            }
        }
        if let (Ok(glyf), Ok(loca), Ok(maxp)) = (font.glyf(), font.loca(None), font.maxp()) {
            for gid in 0..maxp.num_glyphs() {
                match loca.get_glyf(skrifa::GlyphId::from(gid), &glyf) {
                    Ok(Some(Glyph::Simple(g))) => scan_mppem_constants(g.instructions(), &mut set),
                    Ok(Some(Glyph::Composite(g))) => scan_mppem_constants(g.instructions().unwrap_or_default(), &mut set),
                    _ => {}
                }
            }
        }
    }
    let mut v: Vec<u32> = set.iter().flat_map(|c| [c.saturating_sub(1), *c, c + 1]).filter(|c| *c >= 2).collect();
    v.sort();
    v.dedup();
    v.truncate(90);
    v
}

fn grid(st: &mut Stats, thorough: bool, synthetic: Option<&std::path::Path>) -> Vec<(usize, i64, i64)> {
    let mut ppems: Vec<u32> = vec![0];
    // The whole grid costs a few seconds, so the quick tier already runs a dense grid: every integer size up to
    // 320 (prep programs switch behaviour at ppem thresholds well above 100), a sparse tail, and per font +-1
    // around every constant its programs compare with MPPEM.
    if thorough {
        ppems.extend(2..=512);
        ppems.extend([600, 768, 1000, 1500, 2000, 2048, 4000]);
    } else {
        ppems.extend(4..=320);
        ppems.extend([384, 512, 768, 1000, 2048]);
    }
    // development aid: C03_PPEMS=a,b,c replaces the size list
    if let Ok(l) = std::env::var("C03_PPEMS") {
        ppems = l.split(',').filter_map(|x| x.trim().parse().ok()).collect();
    }
    let mut files = font_files();
    if let Some(p) = synthetic {
        files.push(p.to_path_buf());
    }
    let mut tasks: Vec<(std::path::PathBuf, u32)> = vec![];
    let mut extra_sizes = 0usize;
    for f in &files {
        let mut mine = ppems.clone();
        for t in mppem_thresholds(f) {
            if !mine.contains(&t) {
                mine.push(t);
                extra_sizes += 1;
            }
        }
        for p in &mine {
            tasks.push((f.clone(), *p));
        }
    }
    st.v.insert("grid_mppem_threshold_extra_sizes".into(), extra_sizes.into());
    let next = AtomicUsize::new(0);
    let results: Mutex<Vec<(usize, GridOut)>> = Mutex::new(vec![]);
    let nthreads = std::thread::available_parallelism().map(|n| n.get()).unwrap_or(8).min(16);
    std::thread::scope(|s| {
        for _ in 0..nthreads {
            s.spawn(|| loop {
                let i = next.fetch_add(1, Ordering::Relaxed);
                if i >= tasks.len() {
                    break;
                }
                let mut out = GridOut::default();
                run_grid_task(&tasks[i].0, tasks[i].1, &mut out);
                results.lock().unwrap().push((i, out));
            });
        }
    });
    let mut results = results.into_inner().unwrap();
    results.sort_by_key(|r| r.0);
    let mut failures = vec![];
    let mut kernel_obs = vec![];
    for (_, out) in results {
        kernel_obs.extend(out.kernel_obs);
        st.evaluations += out.evaluations;
        for (k, v) in out.counters {
            st.add(&k, v);
        }
        for h in out.nontrivial {
            st.distinct.insert(h);
        }
        if let Some(s) = out.sample {
            if st.samples.len() < 5 {
                st.samples.push(s);
            }
        }
        failures.extend(out.failures);
    }
    st.v.insert("grid_fonts".into(), files.len().into());
    st.v.insert("grid_ppem_sizes".into(), ppems.len().into());
    st.v.insert("grid_mismatches".into(), failures.len().into());
    // every failing instance key (the per-instance key is "<font>:<glyph>:<ppem>:<mode>")
    let keys: Vec<String> = failures.iter().map(|f| format!("{} | {}", f["key"].as_str().unwrap_or(""), f["what"].as_str().unwrap_or(""))).collect();
    st.v.insert("grid_mismatch_keys".into(), json!(keys.iter().take(3000).collect::<Vec<_>>()));
    // One oracle failure per (font, glyph, mode): key "<font>:<glyph>:*:<mode>", carrying the list of
    // failing ppem sizes and both paths of the first failing instance.
    let mut groups: BTreeMap<String, (serde_json::Value, Vec<String>)> = BTreeMap::new();
    // FreeType's CFF engine rejects scales above 2000 ppem (psft.c CF2_MAX_SIZE -> Glyph_Too_Big) and cffgload.c
    // then reloads the glyph UNHINTED and scales it afterwards; skrifa keeps hinting.  That documented divergence
    // class gets one key per font, "<font>:cff-above-2000ppem", instead of one per glyph and mode.
    let is_cff: std::collections::BTreeSet<String> = files
        .iter()
        .filter(|f| {
            std::fs::read(f)
                .ok()
                .and_then(|d| skrifa::raw::FontRef::new(&d).ok().map(|font| {
                    use skrifa::raw::TableProvider;
                    font.cff().is_ok() || font.cff2().is_ok()
                }))
                .unwrap_or(false)
        })
        .map(|f| f.file_name().unwrap().to_string_lossy().to_string())
        .collect();
    // (font, glyph, mode) groups that already fail at ordinary sizes keep their ordinary key at every size
    let fails_small: std::collections::BTreeSet<String> = failures
        .iter()
        .filter_map(|f| {
            let key = f["key"].as_str().unwrap_or("");
            let parts: Vec<&str> = key.rsplitn(4, ':').collect();
            (parts.len() == 4 && parts[1].parse::<u32>().map(|p| p <= 1000).unwrap_or(false))
                .then(|| format!("{}:{}:{}", parts[3], parts[2], parts[0]))
        })
        .collect();
    for f in failures {
        let key = f["key"].as_str().unwrap_or("").to_string();
        let parts: Vec<&str> = key.rsplitn(4, ':').collect(); // mode, ppem, glyph, font
        let big_cff = is_cff.contains(parts[3])
            && parts[0] != "unhinted"
            && parts[1].parse::<u32>().map(|p| p > 2000).unwrap_or(false)
            && f["what"] == "outline differs";
        // synthetic font above 1000 ppem: coordinates approach the range where 32-bit intermediates of single
        // instructions overflow (FreeType computes in 64-bit longs); one key for that class
        let big_synth = parts[3] == SYNTH_FILE
            && parts[1].parse::<u32>().map(|p| p > 1000).unwrap_or(false)
            && !fails_small.contains(&format!("{}:{}:{}", parts[3], parts[2], parts[0]));
        // synthetic `stack` family: CINDEX/MINDEX with an index outside 1..=depth is one documented divergence class
        // per kind (FreeType, not pedantic, goes on; skrifa corrupts the stack for MINDEX 0 and aborts otherwise)
        let stack_class = (parts[3] == SYNTH_FILE && parts[0] != "unhinted" && f["what"] == "outline differs")
            .then(|| SYNTH.get().and_then(|v| v.iter().find(|g| g.name == parts[2])).and_then(|g| g.class))
            .flatten();
        let gkey = if let Some(c) = stack_class {
            format!("{}:{}", parts[3], c)
        } else if big_cff {
            format!("{}:cff-above-2000ppem", parts[3])
        } else if big_synth {
            format!("{}:above-1000ppem", parts[3])
        } else {
            format!("{}:{}:*:{}", parts[3], parts[2], parts[0])
        };
        let e = groups.entry(gkey).or_insert_with(|| (f.clone(), vec![]));
        let inst = if big_cff || big_synth || stack_class.is_some() { format!("{}@{}:{}", parts[2], parts[1], parts[0]) } else { parts[1].to_string() };
        if e.1.len() < 400 {
            e.1.push(inst);
        }
    }
    st.v.insert("grid_mismatch_groups".into(), json!(groups.keys().collect::<Vec<_>>()));
    for (gkey, (first, ppems)) in groups {
        let mut f = first;
        f["first_instance"] = f["key"].clone();
        f["key"] = json!(gkey);
        f["failing_ppems"] = json!(ppems);
        st.oracle_failure(f);
    }
    kernel_obs
}

// ------------------------------------------------------------------------------------------
// (d) the same comparison through REUSED skrifa hinting instances
// ------------------------------------------------------------------------------------------
/// `HintingInstance::reconfigure` must leave no trace of the previous configuration: for a sample of final cells
/// (font, ppem, target) the skrifa outline is drawn by an instance that was first configured for other cells (sizes on
/// the far side of the font's MPPEM thresholds and at both extremes, another target, another font, chains of two) and
/// then reconfigured; FreeType's answer for the final cell (fresh face) is the reference.
fn reuse_pass(st: &mut Stats, files: &[std::path::PathBuf], rng: &mut Rng, thorough: bool) {
    use skrifa::outline::{DrawSettings, HintingInstance};
    use skrifa::prelude::{LocationRef, Size};
    use skrifa::{FontRef, MetadataProvider};
    struct Face {
        path: std::path::PathBuf,
        name: String,
        index: usize,
        data: std::sync::Arc<Vec<u8>>,
        thresholds: Vec<u32>,
    }
    // static faces only
    let mut faces: Vec<Face> = vec![];
    for f in files {
        let Ok(data) = std::fs::read(f) else { continue };
        let data = std::sync::Arc::new(data);
        let name = f.file_name().unwrap().to_string_lossy().to_string();
        let count = match skrifa::raw::FileRef::new(&data) {
            Ok(skrifa::raw::FileRef::Font(_)) => 1,
            Ok(skrifa::raw::FileRef::Collection(c)) => c.len() as usize,
            _ => 0,
        };
        for index in 0..count {
            let Ok(font) = FontRef::from_index(&data, index as u32) else { continue };
            if font.axes().len() != 0 || font.outline_glyphs().format().is_none() {
                continue;
            }
            let fname = if count > 1 { format!("{name}#{index}") } else { name.clone() };
            faces.push(Face { path: f.clone(), name: fname, index, data: data.clone(), thresholds: mppem_thresholds(f) });
        }
    }
    // work items: (face, final ppem, target index 1..=5, history = list of (face, ppem, target index))
    type Cell = (usize, u32, usize);
    let mut items: Vec<(Cell, Vec<Vec<Cell>>)> = vec![];
    for (fi, face) in faces.iter().enumerate() {
        let mut hist_sizes: Vec<u32> = vec![2, 3, 7, 9, 2047, 2049, 2100, 4000];
        hist_sizes.extend(face.thresholds.iter().cloned());
        hist_sizes.sort();
        hist_sizes.dedup();
        let mut finals: Vec<u32> = vec![8, 12, 16, 24, 50, 128, 200];
        for _ in 0..(if thorough { 8 } else { 2 }) {
            if !face.thresholds.is_empty() {
                finals.push(*rng.pick(&face.thresholds));
            }
        }
        if thorough {
            finals.extend([10, 11, 13, 20, 33, 64, 100, 300, 1000]);
        }
        finals.sort();
        finals.dedup();
        for p in finals {
            for t in 1..=5usize {
                let other_t = 1 + (t + rng.below(4) as usize) % 5;
                let other_face = (fi + 1 + rng.below(faces.len().max(2) as u64 - 1) as usize) % faces.len();
                let histories = vec![
                    vec![(fi, hist_sizes[0], t)],
                    vec![(fi, *hist_sizes.last().unwrap(), t)],
                    vec![(fi, *rng.pick(&hist_sizes), other_t)],
                    vec![(other_face, *rng.pick(&[7u32, 12, 40, 2100]), other_t)],
                    vec![(other_face, 16, t), (fi, *rng.pick(&hist_sizes), other_t)],
                ];
                items.push(((fi, p, t), histories));
            }
        }
    }
    let next = AtomicUsize::new(0);
    let results: Mutex<Vec<(usize, GridOut)>> = Mutex::new(vec![]);
    let nthreads = std::thread::available_parallelism().map(|n| n.get()).unwrap_or(8).min(16);
    std::thread::scope(|s| {
        for _ in 0..nthreads {
            s.spawn(|| loop {
                let i = next.fetch_add(1, Ordering::Relaxed);
                if i >= items.len() {
                    break;
                }
                let ((fi, ppem, t), histories) = &items[i];
                let face = &faces[*fi];
                let (hinting, mode) = TARGETS[*t];
                let mut out = GridOut::default();
                // FreeType reference for the final cell (fresh face)
                let Some(mut font) = Font::new(&face.path) else { continue };
                let options = InstanceOptions::new(face.index, *ppem, &[], hinting);
                let Some((mut ft, mut fresh)) = font.instantiate(&options) else {
                    *out.counters.entry("reuse.final_cell_not_instantiable".into()).or_default() += 1;
                    results.lock().unwrap().push((i, out));
                    continue;
                };
                if !ft.is_scalable() {
                    continue;
                }
                let n = fresh.glyph_count();
                let mut ft_paths: Vec<Option<Vec<PathElement>>> = vec![];
                for gid in 0..n {
                    let mut v = vec![];
                    let ok = ft.outline(GlyphId::from(gid), &mut RegularizingPen::new(&mut v, true)).is_some();
                    ft_paths.push(ok.then_some(v));
                }
                let fref = FontRef::from_index(&face.data, face.index as u32).unwrap();
                let outlines = fref.outline_glyphs();
                for hist in histories {
                    // build the instance on the first history cell, reconfigure through the rest, then to the final cell
                    let mut inst: Option<HintingInstance> = None;
                    let mut ok = true;
                    for (hf, hp, ht) in hist.iter().chain(std::iter::once(&(*fi, *ppem, *t))) {
                        let hface = &faces[*hf];
                        let href = FontRef::from_index(&hface.data, hface.index as u32).unwrap();
                        let houtlines = href.outline_glyphs();
                        let opts = TARGETS[*ht].0.unwrap().skrifa_options();
                        let r = match inst.as_mut() {
                            None => HintingInstance::new(&houtlines, Size::new(*hp as f32), LocationRef::default(), opts).map(|h| inst = Some(h)),
                            Some(h) => h.reconfigure(&houtlines, Size::new(*hp as f32), LocationRef::default(), opts),
                        };
                        if r.is_err() {
                            // a history cell the hinter rejects: start over from the next cell
                            inst = None;
                            *out.counters.entry("reuse.history_cell_rejected".into()).or_default() += 1;
                            if (*hf, *hp, *ht) == (*fi, *ppem, *t) {
                                ok = false;
                            }
                        }
                    }
                    let Some(inst) = inst.filter(|_| ok) else { continue };
                    *out.counters.entry("reuse.chains".into()).or_default() += 1;
                    let hdesc: Vec<String> = hist.iter().map(|(hf, hp, ht)| format!("{}@{}:{}", faces[*hf].name, hp, TARGETS[*ht].1)).collect();
                    for gid in 0..n {
                        let Some(ft_path) = &ft_paths[gid as usize] else { continue };
                        let Some(glyph) = outlines.get(GlyphId::from(gid)) else { continue };
                        let mut v: Vec<PathElement> = vec![];
                        let r = std::panic::catch_unwind(AssertUnwindSafe(|| {
                            glyph.draw(DrawSettings::hinted(&inst, false), &mut RegularizingPen::new(&mut v, true)).is_ok()
                        }));
                        out.evaluations += 1;
                        *out.counters.entry("reuse.glyphs_compared".into()).or_default() += 1;
                        let gname = if face.name == SYNTH_FILE {
                            SYNTH.get().and_then(|s| s.get(gid as usize)).map(|g| g.name.clone()).unwrap_or(gid.to_string())
                        } else {
                            gid.to_string()
                        };
                        if !matches!(r, Ok(true)) || &v != ft_path {
                            // only report what a fresh instance gets right (fresh-instance differences belong to the grid)
                            let mut fv: Vec<PathElement> = vec![];
                            let _ = fresh.outline(GlyphId::from(gid), &mut RegularizingPen::new(&mut fv, true));
                            if &fv == ft_path {
                                out.failures.push(json!({"key": format!("{}:{}:{}:{}", face.name, gname, ppem, mode),
                                    "what": "outline from a reconfigured (reused) hinting instance differs; a fresh instance matches FreeType",
                                    "history": hdesc, "freetype": path_str(ft_path), "skrifa": path_str(&v)}));
                            } else {
                                *out.counters.entry("reuse.differs_like_fresh_instance".into()).or_default() += 1;
                            }
                        }
                    }
                }
                results.lock().unwrap().push((i, out));
            });
        }
    });
    let mut results = results.into_inner().unwrap();
    results.sort_by_key(|r| r.0);
    let mut groups: BTreeMap<String, (serde_json::Value, Vec<String>)> = BTreeMap::new();
    let mut total = 0usize;
    for (_, out) in results {
        st.evaluations += out.evaluations;
        for (k, v) in out.counters {
            st.add(&k, v);
        }
        for f in out.failures {
            total += 1;
            let key = f["key"].as_str().unwrap_or("").to_string();
            let parts: Vec<&str> = key.rsplitn(4, ':').collect(); // mode, ppem, glyph, font
            let gkey = format!("{}:{}:*:{}:reused", parts[3], parts[2], parts[0]);
            let e = groups.entry(gkey).or_insert_with(|| (f.clone(), vec![]));
            if e.1.len() < 60 {
                e.1.push(format!("{}<-{}", parts[1], f["history"]));
            }
        }
    }
    st.v.insert("reuse_cells".into(), items.len().into());
    st.v.insert("reuse_mismatches".into(), total.into());
    st.v.insert("reuse_mismatch_groups".into(), json!(groups.keys().collect::<Vec<_>>()));
    for (gkey, (first, inst)) in groups {
        let mut f = first;
        f["first_instance"] = f["key"].clone();
        f["key"] = json!(gkey);
        f["failing_ppem_and_history"] = json!(inst);
        st.oracle_failure(f);
    }
}

/// development aid (`c03 probe <font> <gid> <ppem>`): pedantic-mode outcome of both interpreters
fn probe(args: &[String]) {
    use freetype::face::LoadFlag;
    use skrifa::outline::{DrawSettings, HintingInstance, HintingOptions};
    use skrifa::prelude::Size;
    use skrifa::MetadataProvider;
    let data = std::fs::read(&args[2]).unwrap();
    let gid: u32 = args[3].parse().unwrap();
    let ppem: u32 = args[4].parse().unwrap();
    let lib = freetype::Library::init().unwrap();
    let face = lib.new_memory_face(data.clone(), 0).unwrap();
    face.set_pixel_sizes(ppem, ppem).unwrap();
    for (name, flags) in [("mono", LoadFlag::TARGET_MONO), ("normal", LoadFlag::TARGET_NORMAL)] {
        let r = face.load_glyph(gid, LoadFlag::NO_BITMAP | LoadFlag::NO_AUTOHINT | LoadFlag::PEDANTIC | flags);
        println!("freetype pedantic {name}: {:?}", r);
    }
    let font = skrifa::FontRef::new(&data).unwrap();
    let outlines = font.outline_glyphs();
    for (name, target) in [("mono", skrifa::outline::Target::Mono), ("normal", skrifa::outline::SmoothMode::Normal.into())] {
        let h = HintingInstance::new(&outlines, Size::new(ppem as f32), skrifa::instance::LocationRef::default(),
            HintingOptions { engine: skrifa::outline::Engine::Interpreter, target });
        match h {
            Err(e) => println!("skrifa hinting instance {name}: error {e:?}"),
            Ok(h) => {
                let g = outlines.get(GlyphId::new(gid)).unwrap();
                let mut v: Vec<PathElement> = vec![];
                let r = g.draw(DrawSettings::hinted(&h, true), &mut v);
                println!("skrifa pedantic {name}: {:?}", r.map(|m| m.advance_width));
            }
        }
    }
}

fn main() {
    let args: Vec<String> = std::env::args().collect();
    if args.get(1).map(|s| s == "probe").unwrap_or(false) {
        return probe(&args);
    }
    let thorough = tier_is_thorough(&args);
    let seed = seed_from_env();
    let dir = out_dir(&args, "C03");
    let mut rng = Rng::new(seed);
    let mut st = Stats::new();
    // (b) first (skrifa panics inside the grid are caught; keep the default hook silent)
    silence_panics();
    let t0 = std::time::Instant::now();
    let glyphs = SYNTH.get_or_init(synth::glyphs);
    let synth_path = dir.join(SYNTH_FILE);
    std::fs::create_dir_all(&dir).unwrap();
    let template = std::fs::read("/repo/font-test-data/test_data/ttf/tinos_subset.ttf").unwrap();
    std::fs::write(&synth_path, synth::build_font(&template, glyphs)).unwrap();
    st.v.insert("synthetic_glyphs".into(), glyphs.len().into());
    let kernel_obs = grid(&mut st, thorough, Some(&synth_path));
    let t_grid = t0.elapsed().as_secs_f64();
    let mut all_files = font_files();
    all_files.push(synth_path.clone());
    let t1 = std::time::Instant::now();
    reuse_pass(&mut st, &all_files, &mut rng, thorough);
    st.v.insert("reuse_seconds".into(), json!(t1.elapsed().as_secs_f64()));
    // (a)
    let cw = CaseWriter::new(
        &dir,
        "From Coq Require Import ZArith List. Import ListNotations. Open Scope Z_scope.\nFrom FV Require Import Lib.Cases C03.Model.",
        "Z * list Z * list Z * list Z",
        "check_case",
        2800,
    );
    let mut k = Kernels { st, cw };
    kernels(&mut k, &mut rng, thorough);
    // op 30: the MIAP[1] control-value cut-in decision, observed through the synthetic font on BOTH interpreters
    for (gid, sk_x, ft_x) in &kernel_obs {
        let (c, v, cut) = glyphs[*gid].miap_kernel.unwrap();
        k.emit_observed(30, vec![c, v, cut], *sk_x, *ft_x);
    }
    let Kernels { mut st, cw } = k;
    witnesses(&mut st);
    let shards = cw.finish();
    st.v.insert("shards".into(), shards.into());
    st.v.insert("model_cases".into(), cw.len().into());
    st.v.insert("grid_seconds".into(), json!(t_grid));
    st.write(
        &dir,
        "(a) kernels: boundary-dense grid (0, +-2^k, +-(2^k+-1..3), MIN, MAX) crossed pairwise/triple-wise + random + rounding ties + every SROUND/S45ROUND selector; non-trivial = some operand of magnitude > 1 (distinct by (op,args)). (b) differential grid: every static font of font-test-data x every glyph x ppem grid x {unhinted, mono, normal, light, lcd, vlcd}; non-trivial = FreeType path non-empty (distinct by font:glyph:ppem:mode)",
    );
    println!(
        "kernel_cases={} shards={} grid_glyph_comparisons={} grid_seconds={:.1} oracle_failures={}",
        cw.len(),
        shards,
        st.counters.get("grid.glyphs_compared").cloned().unwrap_or(0),
        t_grid,
        st.counters.get("oracle_failures").cloned().unwrap_or(0)
    );
}
