//! C03 harness — "Scaled and hinted outlines match FreeType for static fonts".
//!
//! (a) kernel shards: the arithmetic kernels that skrifa and FreeType must share are run on
//!     boundary-dense + random operand tuples on BOTH real implementations (skrifa through the
//!     `skrifa::verif` hooks / font-types, FreeType through freetype-sys FFI where the symbol is
//!     exported); each case `(op, args, skrifa result, FreeType result)` is evaluated by the two
//!     Coq models of coq/C03/Model.v (`check_case`).  Implementation-only oracle: the two real
//!     results agree (modulo 2^32, the statement that is proved), and an i128 transcription of the
//!     FreeType semantics agrees with skrifa for the kernels FreeType does not export.
//! (b) the property itself: fauntlet's own FreeType/skrifa instances and RegularizingPen over every
//!     static outline font of font-test-data x all glyphs x ppem grid x {unhinted, interpreter x
//!     {mono, normal, light, lcd, vertical lcd}}; any path or advance difference is an oracle failure
//!     with key "<font>:<glyph>:<ppem>:<mode>".
use fauntlet::{Font, Hinting, HintingTarget, InstanceOptions, RegularizingPen};
use font_types::{F26Dot6, Fixed};
use freetype::ffi;
use serde_json::json;
use skrifa::outline::pen::PathElement;
use skrifa::verif::{math, RoundMode, RoundState};
use skrifa::GlyphId;
use std::collections::BTreeMap;
use std::panic::AssertUnwindSafe;
use std::sync::atomic::{AtomicUsize, Ordering};
use std::sync::Mutex;
use vh::*;

// ------------------------------------------------------------------------------------------
// (a) kernels
// ------------------------------------------------------------------------------------------

const MODES: [RoundMode; 8] = [
    RoundMode::Grid,
    RoundMode::HalfGrid,
    RoundMode::DoubleGrid,
    RoundMode::DownToGrid,
    RoundMode::UpToGrid,
    RoundMode::Off,
    RoundMode::Super,
    RoundMode::Super45,
];

/// skrifa side; `None` = this op has no skrifa side, `Some(Err)` = panic
fn run_sk(op: i64, a: &[i64]) -> Option<Result<i64, String>> {
    let a: Vec<i32> = a.iter().map(|v| *v as i32).collect();
    let r = match op {
        1 => catch(move || math::mul(a[0], a[1]) as i64),
        2 => catch(move || math::div(a[0], a[1]) as i64),
        3 => catch(move || math::mul_div(a[0], a[1], a[2]) as i64),
        4 => catch(move || math::mul_div_no_round(a[0], a[1], a[2]) as i64),
        5 => catch(move || math::mul14(a[0], a[1]) as i64),
        6 => catch(move || math::floor(a[0]) as i64),
        7 => catch(move || math::round(a[0]) as i64),
        8 => catch(move || math::ceil(a[0]) as i64),
        9 => catch(move || math::round_pad(a[0], a[1]) as i64),
        10..=17 => catch(move || {
            let st = RoundState {
                mode: MODES[(op - 10) as usize],
                threshold: a[0],
                phase: a[1],
                period: a[2],
            };
            st.round(F26Dot6::from_bits(a[3])).to_bits() as i64
        }),
        // the scale step of FreeTypeScaler: F26Dot6::from_bits(v) * scale
        18 => catch(move || (F26Dot6::from_bits(a[0]) * F26Dot6::from_bits(a[1])).to_bits() as i64),
        // Outlines::compute_scale: F26Dot6(ppem*64) / F26Dot6(upem)
        19 => catch(move || (F26Dot6::from_bits(a[0]) / F26Dot6::from_bits(a[1])).to_bits() as i64),
        20 => catch(move || F26Dot6::from_bits(a[0]).round().to_bits() as i64),
        23 => catch(move || Fixed::from_bits(a[0]).floor().to_bits() as i64),
        _ => return None,
    };
    Some(r)
}

/// FreeType side through FFI (FT_Long = c_long = i64 on this platform)
fn run_ft(op: i64, a: &[i64]) -> Option<i64> {
    let l = |i: usize| a[i] as ffi::FT_Long;
    unsafe {
        Some(match op {
            1 | 18 => ffi::FT_MulFix(l(0), l(1)) as i64,
            2 | 19 => ffi::FT_DivFix(l(0), l(1)) as i64,
            3 => ffi::FT_MulDiv(l(0), l(1), l(2)) as i64,
            21 => ffi::FT_RoundFix(l(0)) as i64,
            22 => ffi::FT_CeilFix(l(0)) as i64,
            23 => ffi::FT_FloorFix(l(0)) as i64,
            _ => return None,
        })
    }
}

/// Third, independent transcription (i128, LP64 `long` = i64 made explicit) of the FreeType
/// functions that are not exported; used only by the implementation-only oracle.
mod ftref {
    fn l(v: i128) -> i128 {
        v as i64 as i128
    }
    fn pix_floor(x: i128) -> i128 {
        x & !63
    }
    pub fn mul14(a: i128, b: i128) -> i128 {
        let mut r = a * b;
        r += 0x2000 + (r >> 63);
        (r >> 14) as i32 as i128
    }
    pub fn mul_div_no_round(a: i128, b: i128, c: i128) -> i128 {
        let s = a.signum().min(0).abs() + b.signum().min(0).abs() + c.signum().min(0).abs();
        let d = if c != 0 { (a.abs() * b.abs()) / c.abs() } else { 0x7FFF_FFFF };
        if s % 2 == 1 {
            l(-d)
        } else {
            l(d)
        }
    }
    pub fn round(mode: usize, thr: i128, ph: i128, per: i128, d: i128) -> Option<i128> {
        let pos = d >= 0;
        let m = d.abs();
        let clamp0 = |v: i128| if pos { v.max(0) } else { (-v).min(0) };
        Some(match mode {
            0 => clamp0(pix_floor(l(m + 32))),
            1 => {
                let v = l(pix_floor(m) + 32);
                if pos {
                    if v < 0 { 32 } else { v }
                } else if -v > 0 {
                    -32
                } else {
                    -v
                }
            }
            2 => clamp0(l(m + 16) & !31),
            3 => clamp0(pix_floor(m)),
            4 => clamp0(pix_floor(l(m + 63))),
            5 => d,
            6 => {
                if pos {
                    let v = l(l(d + (thr - ph)) & -per) + ph;
                    if v < 0 { ph } else { v }
                } else {
                    let v = l(-(l((thr - ph) - d) & -per)) - ph;
                    if v > 0 { -ph } else { v }
                }
            }
            7 => {
                if per == 0 {
                    return None;
                }
                if pos {
                    let v = (l(d + (thr - ph)) / per) * per + ph;
                    if v < 0 { ph } else { v }
                } else {
                    let v = -((l((thr - ph) - d) / per) * per) - ph;
                    if v > 0 { -ph } else { v }
                }
            }
            _ => return None,
        })
    }
}

fn in_i32(v: i128) -> bool {
    v >= i32::MIN as i128 && v <= i32::MAX as i128
}

struct Kernels {
    st: Stats,
    cw: CaseWriter,
}

impl Kernels {
    fn emit(&mut self, op: i64, a: Vec<i64>) {
        let sk = run_sk(op, &a);
        let ft = run_ft(op, &a);
        let st = &mut self.st;
        st.evaluations += 1;
        st.count(&format!("kernel.op{:02}", op));
        let key = format!("kernel:{}:{:?}", op, a);
        if let Some(Err(_)) = &sk {
            st.count(&format!("kernel.op{:02}.skrifa_panics", op));
        }
        // branch counters of RoundState::round: sign of the distance, clamp fired
        if (10..=17).contains(&op) {
            st.count(&format!("kernel.op{:02}.{}", op, if a[3] >= 0 { "d_nonneg" } else { "d_neg" }));
            if let Some(Ok(r)) = &sk {
                if a[3] != 0 && (*r == 0 || ((op == 16 || op == 17) && r.abs() == a[1].abs() && (*r >= 0) != (a[3] >= 0 || a[1] >= 0))) {
                    st.count(&format!("kernel.op{:02}.clamp_or_zero", op));
                }
            }
        }
        if op == 4 {
            st.count(&format!("kernel.op04.signs_{}{}{}", (a[0] < 0) as u8, (a[1] < 0) as u8, (a[2] < 0) as u8));
            if a[2] == 0 {
                st.count("kernel.op04.c_zero");
            }
        }
        // oracle 1: both real implementations agree (mod 2^32: FreeType's `long` is 64 bits wide)
        if let (Some(Ok(s)), Some(f)) = (&sk, &ft) {
            if !in_i32(*f as i128) {
                st.count(&format!("kernel.op{:02}.ft_result_exceeds_i32", op));
            }
            if *s != (*f as i32) as i64 {
                st.oracle_failure(json!({"key": key, "what": "skrifa kernel != FreeType (FFI) kernel mod 2^32",
                                         "op": op, "args": a, "skrifa": s, "freetype": f}));
            }
        }
        if let (Some(Err(e)), Some(f)) = (&sk, &ft) {
            st.oracle_failure(json!({"key": key, "what": "skrifa kernel panics where FreeType returns", "op": op,
                                     "args": a, "panic": e, "freetype": f}));
        }
        // oracle 2: i128 transcription of the unexported FreeType function.  skrifa == FreeType is demanded
        // exactly on the numeric ranges for which coq/C03/Props.v proves it (round_*_eq, muldiv_noround_
        // wrapfree_range + ftmuldiv_noround_eq); outside them (an i32 intermediate may wrap) a difference is
        // the divergence the `_refuted` witnesses describe: counted as an observation, not a failure.
        if let Some(Ok(s)) = &sk {
            let z: Vec<i128> = a.iter().map(|v| *v as i128).collect();
            let r = match op {
                4 => Some(ftref::mul_div_no_round(z[0], z[1], z[2])),
                5 => Some(ftref::mul14(z[0], z[1])),
                10..=17 => ftref::round((op - 10) as usize, z[0], z[1], z[2], z[3]),
                _ => None,
            };
            const MIN: i128 = i32::MIN as i128;
            const SMALL: i128 = 1 << 28;
            let in_domain = match op {
                4 => {
                    z.iter().all(|v| *v != MIN)
                        && (z[2] == 0 || (z[0].abs() * z[1].abs()) / z[2].abs() <= i32::MAX as i128)
                }
                5 | 15 => true,
                10..=14 => z[3].abs() <= 2147483520,
                16 => z.iter().all(|v| v.abs() <= SMALL),
                17 => z.iter().all(|v| v.abs() <= SMALL) && z[2] != 0,
                _ => false,
            };
            if let Some(r) = r {
                st.count(&format!("kernel.op{:02}.{}", op, if in_domain { "in_proved_range" } else { "outside_proved_range" }));
                if *s as i128 != r {
                    if in_domain {
                        st.oracle_failure(json!({"key": key, "what": "skrifa kernel != FreeType semantics (i128 transcription, LP64) inside the range where equality is proved",
                                                 "op": op, "args": a, "skrifa": s, "freetype_ref": r.to_string()}));
                    } else {
                        // differs from FreeType's 64-bit value; "mod32": differs even in the low 32 bits
                        st.count(&format!("kernel.op{:02}.divergence_outside_proved_range", op));
                        if *s != (r as i32) as i64 {
                            st.count(&format!("kernel.op{:02}.divergence_mod32_outside_proved_range", op));
                        }
                    }
                }
            }
        }
        if a.iter().any(|v| v.abs() > 1) {
            st.nontrivial(&key);
        }
        let skv: Vec<i128> = match &sk {
            Some(Ok(v)) => vec![*v as i128],
            _ => vec![],
        };
        let ftv: Vec<i128> = ft.iter().map(|v| *v as i128).collect();
        if st.samples.len() < 3 {
            st.sample(json!({"op": op, "args": a, "skrifa": format!("{:?}", sk), "freetype": format!("{:?}", ft)}));
        }
        self.cw.push(format!(
            "({}, {}, {}, {})",
            op,
            czlist(a.iter().map(|v| *v as i128)),
            czlist(skv),
            czlist(ftv)
        ));
    }
}

fn kernels(k: &mut Kernels, rng: &mut Rng, thorough: bool) {
    let grid = boundary_i32();
    let mult = if thorough { 10 } else { 1 };
    let any = |rng: &mut Rng, grid: &[i32]| -> i64 {
        match rng.below(4) {
            0 => rng.next_u32() as i32 as i64,
            1 => rng.range(-70000, 70000),
            _ => (*rng.pick(grid) as i64 + rng.range(-3, 3)).clamp(i32::MIN as i64, i32::MAX as i64),
        }
    };
    let extra = [i32::MIN, i32::MAX, 0, 1, -1, 64, -64, 65536, -65536, 32768, -32768, i32::MIN + 1, 0x4000, -0x4000];
    let sub: Vec<i32> = grid.iter().cloned().step_by(if thorough { 3 } else { 11 }).chain(extra).collect();
    // binary kernels
    for op in [1i64, 2, 5, 18, 19] {
        for a in &sub {
            for b in &sub {
                if op == 1 || op == 2 || rng.chance(1, 3) {
                    k.emit(op, vec![*a as i64, *b as i64]);
                }
            }
        }
        for _ in 0..800 * mult {
            let (a, b) = (any(rng, &grid), any(rng, &grid));
            k.emit(op, vec![a, b]);
        }
    }
    // realistic scale steps: font-unit coordinates x scale factors of real (ppem, upem) pairs
    for upem in [16i64, 250, 1000, 1024, 2048, 2816, 4096, 16384] {
        for ppem in [1i64, 6, 7, 8, 9, 11, 12, 13, 16, 17, 24, 40, 64, 72, 96, 128, 256, 1000, 4000] {
            k.emit(19, vec![ppem * 64, upem]);
            let scale = (F26Dot6::from_bits((ppem * 64) as i32) / F26Dot6::from_bits(upem as i32)).to_bits() as i64;
            for _ in 0..(4 * mult) {
                let v = rng.range(-upem * 2, upem * 2);
                k.emit(18, vec![v, scale]);
            }
            // exact ties of the product: v * scale = (2k+1) * 0x8000
            k.emit(18, vec![0x8000, scale]);
            k.emit(18, vec![-0x8000, scale]);
        }
    }
    // ternary kernels
    let sub3: Vec<i32> = grid
        .iter()
        .cloned()
        .step_by(if thorough { 12 } else { 45 })
        .chain([i32::MIN, i32::MAX, 0, 1, -1, 64, -64, i32::MIN + 1])
        .collect();
    for op in [3i64, 4] {
        for a in &sub3 {
            for b in &sub3 {
                for c in &sub3 {
                    k.emit(op, vec![*a as i64, *b as i64, *c as i64]);
                }
            }
        }
        for _ in 0..1200 * mult {
            let v = vec![any(rng, &grid), any(rng, &grid), any(rng, &grid)];
            k.emit(op, v);
        }
        // the shapes the interpreter uses: DIV = (a, 64, b), MUL = (a, b, 64)
        for _ in 0..500 * mult {
            let (a, b) = (any(rng, &grid), any(rng, &grid));
            k.emit(op, if op == 4 { vec![a, 64, b] } else { vec![a, b, 64] });
        }
    }
    // unary kernels
    for op in [6i64, 7, 8, 20, 21, 22, 23] {
        for a in &grid {
            k.emit(op, vec![*a as i64]);
        }
        for _ in 0..200 * mult {
            let v = any(rng, &grid);
            k.emit(op, vec![v]);
        }
        // ties
        for q in -4i64..4 {
            for d in [-1i64, 0, 1] {
                k.emit(op, vec![q * 65536 + 32768 + d]);
                k.emit(op, vec![q * 64 + 32 + d]);
            }
        }
    }
    for n in [32i64, 64, 1, 2, 0, -1, 16, 3, i32::MIN as i64, i32::MAX as i64] {
        for a in grid.iter().step_by(3) {
            k.emit(9, vec![*a as i64, n]);
        }
        for q in -3i64..3 {
            for d in [-1i64, 0, 1] {
                k.emit(9, vec![q * 32 + 16 + d, n]);
            }
        }
    }
    // round states: the six fixed modes ignore (threshold, phase, period)
    for op in 10i64..=15 {
        for d in &grid {
            k.emit(op, vec![0, 0, 64, *d as i64]);
        }
        for q in -3i64..3 {
            for d in [-1i64, 0, 1, 15, 16, 17, 31, 32, 33, 63] {
                k.emit(op, vec![0, 0, 64, q * 64 + d]);
            }
        }
        for _ in 0..150 * mult {
            let v = vec![any(rng, &grid), any(rng, &grid), any(rng, &grid), any(rng, &grid)];
            k.emit(op, v);
        }
    }
    // SROUND / S45ROUND: every state the instruction decoder can produce (selector byte 0..255)
    for op in [16i64, 17] {
        for sel in 0..256i64 {
            let grid_period: i64 = if op == 16 { 64 } else { 0x2D41 >> 8 }; // ttinterp.c SetSuperRound(0x4000 / 0x2D41)
            let period = match sel & 0xC0 {
                0 => grid_period / 2,
                0x40 => grid_period,
                0x80 => grid_period * 2,
                _ => grid_period,
            };
            let phase = match sel & 0x30 {
                0 => 0,
                0x10 => period / 4,
                0x20 => period / 2,
                _ => period * 3 / 4,
            };
            let threshold = if sel & 0x0F == 0 { period - 1 } else { ((sel & 0x0F) - 4) * period / 8 };
            let n = if thorough { 24 } else { 5 };
            for _ in 0..n {
                let d = if rng.chance(1, 2) { rng.range(-4096, 4096) } else { any(rng, &grid) };
                k.emit(op, vec![threshold, phase, period, d]);
            }
            k.emit(op, vec![threshold, phase, period, 0]);
            k.emit(op, vec![threshold, phase, period, -1]);
        }
        // arbitrary / degenerate states (period 0, negative, MIN, -1 ...)
        for per in [0i64, 1, -1, 2, 3, 46, 64, -64, 128, i32::MIN as i64, i32::MAX as i64] {
            for d in grid.iter().step_by(9) {
                k.emit(op, vec![rng.range(-70, 70), rng.range(-70, 70), per, *d as i64]);
            }
        }
        for _ in 0..1000 * mult {
            let v = vec![any(rng, &grid), any(rng, &grid), any(rng, &grid), any(rng, &grid)];
            k.emit(op, v);
        }
        // small arbitrary states and distances: the clamp branches (val crossing 0) are dense here
        for _ in 0..1200 * mult {
            let per = *rng.pick(&[3i64, 5, 7, 23, 32, 45, 46, 64, 91, 128, -3, -46]);
            let v = vec![rng.range(-70, 70), rng.range(-70, 70), per, rng.range(-200, 200)];
            k.emit(op, v);
        }
    }
}

/// replay of the `..._refuted` witnesses of coq/C03/Examples.v on the real pair of implementations
fn witnesses(st: &mut Stats) {
    let mut w = serde_json::Map::new();
    // which FT_MulFix is linked? the portable FT_INT64 body would return 2^46-ish here
    let big = run_ft(1, &[0x7FFF_FFFF, 0x7FFF_FFFF]).unwrap();
    w.insert(
        "ft_mulfix_variant".into(),
        json!(if in_i32(big as i128) { "FT_MulFix_x86_64 (truncating to FT_Int32) — as modelled" } else { "portable FT_INT64 body (64-bit result)" }),
    );
    let mut both = |name: &str, op: i64, a: &[i64], exp_sk: i64, exp_ft: i64, st: &mut Stats| {
        let sk = run_sk(op, a).unwrap();
        let ft = run_ft(op, a).unwrap();
        let confirmed = sk == Ok(exp_sk) && ft == exp_ft;
        w.insert(name.into(), json!({"op": op, "args": a, "skrifa": format!("{:?}", sk), "freetype": ft, "confirmed_on_real_code": confirmed}));
        if !confirmed {
            st.count("witness_not_confirmed");
        }
    };
    both("ftdivfix_refuted", 2, &[0x7FFF_FFFF, 1], -65536, 0x7FFF_FFFF_0000, st);
    both("ftmuldiv_refuted", 3, &[0x7FFF_FFFF, 0x7FFF_FFFF, 1], 1, 0x3FFF_FFFF_0000_0001, st);
    // divergence witnesses at the i32 limits (coq/C03/Examples.v `*_refuted`): the real skrifa kernel (which
    // wraps since /repo fb7fa4b) must return the value the Coq model predicts; the FreeType side of these
    // kernels is not exported, so FreeType's value comes from the i128 transcription (= the Coq FreeType model)
    let mut wrapw = |name: &str, op: i64, a: &[i64], exp_sk: i64, exp_ft: i128, st: &mut Stats| {
        let sk = run_sk(op, a).unwrap();
        let z: Vec<i128> = a.iter().map(|v| *v as i128).collect();
        let ft = if op == 4 { Some(ftref::mul_div_no_round(z[0], z[1], z[2])) } else { ftref::round((op - 10) as usize, z[0], z[1], z[2], z[3]) };
        let confirmed = sk == Ok(exp_sk) && ft == Some(exp_ft) && exp_sk as i128 != exp_ft;
        w.insert(name.into(), json!({"op": op, "args": a, "skrifa": format!("{:?}", sk), "freetype_semantics": ft.map(|v| v.to_string()),
                                     "diverges": true, "confirmed_on_real_skrifa": confirmed}));
        if !confirmed {
            st.count("witness_not_confirmed");
        }
    };
    let (mn, mx) = (i32::MIN as i64, i32::MAX as i64);
    wrapw("muldiv_noround_refuted", 4, &[mn, 2, 4], 1 << 30, -(1 << 30), st);
    wrapw("div_instruction_refuted", 4, &[mn, 64, 128], 1 << 30, -(1 << 30), st);
    wrapw("round_grid_refuted", 10, &[0, 0, 64, mx], 0, 1 << 31, st);
    wrapw("round_double_grid_refuted", 12, &[0, 0, 64, mx], 0, 1 << 31, st);
    wrapw("round_up_to_grid_refuted", 14, &[0, 0, 64, mx], 0, 1 << 31, st);
    wrapw("round_half_grid_refuted", 11, &[0, 0, 64, mn], 0, -2147483680, st);
    wrapw("round_super_refuted", 16, &[40, 0, 64, mx], 0, 1 << 31, st);
    wrapw("round_super45_refuted", 17, &[40, 0, 64, mx], 0, 1 << 31, st);
    for (name, v) in w.iter() {
        if v.get("confirmed_on_real_code") == Some(&json!(false)) || v.get("confirmed_on_real_skrifa") == Some(&json!(false)) {
            st.oracle_failure(json!({"key": format!("witness:{name}"), "what": "a `_refuted` witness of coq/C03/Examples.v is not reproduced by the real implementations", "detail": v}));
        }
    }
    st.v.insert("witnesses".into(), serde_json::Value::Object(w));
}

// ------------------------------------------------------------------------------------------
// (b) the differential grid
// ------------------------------------------------------------------------------------------

const TARGETS: [(Option<Hinting>, &str); 6] = [
    (None, "unhinted"),
    (Some(Hinting::Interpreter(HintingTarget::Mono)), "mono"),
    (Some(Hinting::Interpreter(HintingTarget::Normal)), "normal"),
    (Some(Hinting::Interpreter(HintingTarget::Light)), "light"),
    (Some(Hinting::Interpreter(HintingTarget::Lcd)), "lcd"),
    (Some(Hinting::Interpreter(HintingTarget::VerticalLcd)), "vlcd"),
];

#[derive(Default)]
struct GridOut {
    failures: Vec<serde_json::Value>,
    counters: BTreeMap<String, u64>,
    nontrivial: Vec<u64>,
    evaluations: u64,
    sample: Option<serde_json::Value>,
}

fn path_str(p: &[PathElement]) -> String {
    let mut s = p.iter().map(|e| format!("{e:?}")).collect::<Vec<_>>().join("; ");
    if s.len() > 3000 {
        s.truncate(3000);
        s.push_str(" ...");
    }
    s
}

fn font_files() -> Vec<std::path::PathBuf> {
    let mut v = vec![];
    for sub in ["ttf", "ttc"] {
        let d = std::path::Path::new("/repo/font-test-data/test_data").join(sub);
        if let Ok(rd) = std::fs::read_dir(&d) {
            for e in rd.flatten() {
                let p = e.path();
                let ext = p.extension().map(|e| e.to_string_lossy().to_lowercase()).unwrap_or_default();
                if ["ttf", "otf", "ttc"].contains(&ext.as_str()) {
                    v.push(p);
                }
            }
        }
    }
    v.sort();
    // development aid: C03_FONT_FILTER=<substring> restricts the grid to matching file names
    if let Ok(f) = std::env::var("C03_FONT_FILTER") {
        v.retain(|p| p.to_string_lossy().contains(&f));
    }
    v
}

fn run_grid_task(path: &std::path::Path, ppem: u32, out: &mut GridOut) {
    let name = path.file_name().unwrap().to_string_lossy().to_string();
    let Some(mut font) = Font::new(path) else {
        *out.counters.entry(format!("grid.font_unreadable.{name}")).or_default() += 1;
        return;
    };
    for font_ix in 0..font.count() {
        let fname = if font.count() > 1 { format!("{name}#{font_ix}") } else { name.clone() };
        if font.axis_count(font_ix) != 0 {
            // the property is about static fonts
            *out.counters.entry("grid.skipped_variable_font_instances".into()).or_default() += 1;
            continue;
        }
        for (hinting, mode) in TARGETS {
            if ppem == 0 && hinting.is_some() {
                continue;
            }
            let options = InstanceOptions::new(font_ix, ppem, &[], hinting);
            let Some((mut ft, mut sk)) = font.instantiate(&options) else {
                *out.counters.entry(format!("grid.not_instantiable.{fname}")).or_default() += 1;
                continue;
            };
            if !ft.is_scalable() {
                *out.counters.entry(format!("grid.not_scalable.{fname}")).or_default() += 1;
                continue;
            }
            *out.counters.entry(format!("grid.instances.{mode}")).or_default() += 1;
            let is_scaled = ppem != 0;
            let mut ft_outline: Vec<PathElement> = vec![];
            let mut sk_outline: Vec<PathElement> = vec![];
            for gid in 0..sk.glyph_count() {
                let g = GlyphId::from(gid);
                let key = format!("{fname}:{gid}:{ppem}:{mode}");
                ft_outline.clear();
                sk_outline.clear();
                let ft_adv = ft.outline(g, &mut RegularizingPen::new(&mut ft_outline, is_scaled));
                let sk_res = std::panic::catch_unwind(AssertUnwindSafe(|| {
                    sk.outline(g, &mut RegularizingPen::new(&mut sk_outline, is_scaled))
                }));
                out.evaluations += 1;
                let Some(ft_adv) = ft_adv else {
                    // FreeType refuses the glyph: nothing to compare against
                    *out.counters.entry("grid.ft_refused_glyph".into()).or_default() += 1;
                    continue;
                };
                match sk_res {
                    Err(_) => {
                        out.failures.push(json!({"key": key, "what": "skrifa panics, FreeType draws", "freetype": path_str(&ft_outline)}));
                        continue;
                    }
                    Ok(Err(e)) => {
                        *out.counters.entry("grid.skrifa_error_ft_ok".into()).or_default() += 1;
                        out.failures.push(json!({"key": key, "what": format!("skrifa returns error {e:?}, FreeType draws"),
                                                 "freetype": path_str(&ft_outline)}));
                        continue;
                    }
                    Ok(Ok(sk_adv)) => {
                        *out.counters.entry("grid.glyphs_compared".into()).or_default() += 1;
                        *out.counters.entry(format!("grid.compared.{fname}")).or_default() += 1;
                        if !ft_outline.is_empty() {
                            out.nontrivial.push(fnv(key.as_bytes()));
                        }
                        if out.sample.is_none() && ft_outline.len() > 3 && gid > 2 && ppem != 0 && hinting.is_some() {
                            out.sample = Some(json!({"key": key, "advance_ft": ft_adv, "advance_skrifa": sk_adv, "path": path_str(&ft_outline)}));
                        }
                        if ft_outline != sk_outline {
                            out.failures.push(json!({"key": key, "what": "outline differs", "freetype": path_str(&ft_outline),
                                                     "skrifa": path_str(&sk_outline)}));
                        } else if let Some(sk_adv) = sk_adv {
                            *out.counters.entry("grid.advances_compared".into()).or_default() += 1;
                            if sk_adv != ft_adv {
                                out.failures.push(json!({"key": key, "what": "advance width differs", "freetype": ft_adv, "skrifa": sk_adv}));
                            }
                        } else {
                            *out.counters.entry("grid.advance_not_reported_by_skrifa".into()).or_default() += 1;
                        }
                    }
                }
            }
        }
    }
}

fn grid(st: &mut Stats, thorough: bool) {
    let mut ppems: Vec<u32> = vec![0];
    // the whole grid costs about a second, so the quick tier already runs the dense grid
    if thorough {
        ppems.extend(4..=256);
        ppems.extend([300, 400, 512, 768, 1000, 2000, 4000]);
    } else {
        ppems.extend(6..=64);
        ppems.extend([72, 96, 128, 256, 1000]);
    }
    let files = font_files();
    let mut tasks: Vec<(std::path::PathBuf, u32)> = vec![];
    for f in &files {
        for p in &ppems {
            tasks.push((f.clone(), *p));
        }
    }
    let next = AtomicUsize::new(0);
    let results: Mutex<Vec<(usize, GridOut)>> = Mutex::new(vec![]);
    let nthreads = std::thread::available_parallelism().map(|n| n.get()).unwrap_or(8).min(16);
    std::thread::scope(|s| {
        for _ in 0..nthreads {
            s.spawn(|| loop {
                let i = next.fetch_add(1, Ordering::Relaxed);
                if i >= tasks.len() {
                    break;
                }
                let mut out = GridOut::default();
                run_grid_task(&tasks[i].0, tasks[i].1, &mut out);
                results.lock().unwrap().push((i, out));
            });
        }
    });
    let mut results = results.into_inner().unwrap();
    results.sort_by_key(|r| r.0);
    let mut failures = vec![];
    for (_, out) in results {
        st.evaluations += out.evaluations;
        for (k, v) in out.counters {
            st.add(&k, v);
        }
        for h in out.nontrivial {
            st.distinct.insert(h);
        }
        if let Some(s) = out.sample {
            if st.samples.len() < 5 {
                st.samples.push(s);
            }
        }
        failures.extend(out.failures);
    }
    st.v.insert("grid_fonts".into(), files.len().into());
    st.v.insert("grid_ppem_sizes".into(), ppems.len().into());
    st.v.insert("grid_mismatches".into(), failures.len().into());
    // every failing instance key (the per-instance key is "<font>:<glyph>:<ppem>:<mode>")
    let keys: Vec<String> = failures.iter().map(|f| format!("{} | {}", f["key"].as_str().unwrap_or(""), f["what"].as_str().unwrap_or(""))).collect();
    st.v.insert("grid_mismatch_keys".into(), json!(keys.iter().take(3000).collect::<Vec<_>>()));
    // One oracle failure per (font, glyph, mode): key "<font>:<glyph>:*:<mode>", carrying the list of
    // failing ppem sizes and both paths of the first failing instance.
    let mut groups: BTreeMap<String, (serde_json::Value, Vec<String>)> = BTreeMap::new();
    for f in failures {
        let key = f["key"].as_str().unwrap_or("").to_string();
        let parts: Vec<&str> = key.rsplitn(4, ':').collect(); // mode, ppem, glyph, font
        let gkey = format!("{}:{}:*:{}", parts[3], parts[2], parts[0]);
        let e = groups.entry(gkey).or_insert_with(|| (f.clone(), vec![]));
        e.1.push(parts[1].to_string());
    }
    st.v.insert("grid_mismatch_groups".into(), json!(groups.keys().collect::<Vec<_>>()));
    for (gkey, (first, ppems)) in groups {
        let mut f = first;
        f["first_instance"] = f["key"].clone();
        f["key"] = json!(gkey);
        f["failing_ppems"] = json!(ppems);
        st.oracle_failure(f);
    }
}

/// development aid (`c03 probe <font> <gid> <ppem>`): pedantic-mode outcome of both interpreters
fn probe(args: &[String]) {
    use freetype::face::LoadFlag;
    use skrifa::outline::{DrawSettings, HintingInstance, HintingOptions};
    use skrifa::prelude::Size;
    use skrifa::MetadataProvider;
    let data = std::fs::read(&args[2]).unwrap();
    let gid: u32 = args[3].parse().unwrap();
    let ppem: u32 = args[4].parse().unwrap();
    let lib = freetype::Library::init().unwrap();
    let face = lib.new_memory_face(data.clone(), 0).unwrap();
    face.set_pixel_sizes(ppem, ppem).unwrap();
    for (name, flags) in [("mono", LoadFlag::TARGET_MONO), ("normal", LoadFlag::TARGET_NORMAL)] {
        let r = face.load_glyph(gid, LoadFlag::NO_BITMAP | LoadFlag::NO_AUTOHINT | LoadFlag::PEDANTIC | flags);
        println!("freetype pedantic {name}: {:?}", r);
    }
    let font = skrifa::FontRef::new(&data).unwrap();
    let outlines = font.outline_glyphs();
    for (name, target) in [("mono", skrifa::outline::Target::Mono), ("normal", skrifa::outline::SmoothMode::Normal.into())] {
        let h = HintingInstance::new(&outlines, Size::new(ppem as f32), skrifa::instance::LocationRef::default(),
            HintingOptions { engine: skrifa::outline::Engine::Interpreter, target });
        match h {
            Err(e) => println!("skrifa hinting instance {name}: error {e:?}"),
            Ok(h) => {
                let g = outlines.get(GlyphId::new(gid)).unwrap();
                let mut v: Vec<PathElement> = vec![];
                let r = g.draw(DrawSettings::hinted(&h, true), &mut v);
                println!("skrifa pedantic {name}: {:?}", r.map(|m| m.advance_width));
            }
        }
    }
}

fn main() {
    let args: Vec<String> = std::env::args().collect();
    if args.get(1).map(|s| s == "probe").unwrap_or(false) {
        return probe(&args);
    }
    let thorough = tier_is_thorough(&args);
    let seed = seed_from_env();
    let dir = out_dir(&args, "C03");
    let mut rng = Rng::new(seed);
    let mut st = Stats::new();
    // (b) first (skrifa panics inside the grid are caught; keep the default hook silent)
    silence_panics();
    let t0 = std::time::Instant::now();
    grid(&mut st, thorough);
    let t_grid = t0.elapsed().as_secs_f64();
    // (a)
    let cw = CaseWriter::new(
        &dir,
        "From Coq Require Import ZArith List. Import ListNotations. Open Scope Z_scope.\nFrom FV Require Import Lib.Cases C03.Model.",
        "Z * list Z * list Z * list Z",
        "check_case",
        2800,
    );
    let mut k = Kernels { st, cw };
    kernels(&mut k, &mut rng, thorough);
    let Kernels { mut st, cw } = k;
    witnesses(&mut st);
    let shards = cw.finish();
    st.v.insert("shards".into(), shards.into());
    st.v.insert("model_cases".into(), cw.len().into());
    st.v.insert("grid_seconds".into(), json!(t_grid));
    st.write(
        &dir,
        "(a) kernels: boundary-dense grid (0, +-2^k, +-(2^k+-1..3), MIN, MAX) crossed pairwise/triple-wise + random + rounding ties + every SROUND/S45ROUND selector; non-trivial = some operand of magnitude > 1 (distinct by (op,args)). (b) differential grid: every static font of font-test-data x every glyph x ppem grid x {unhinted, mono, normal, light, lcd, vlcd}; non-trivial = FreeType path non-empty (distinct by font:glyph:ppem:mode)",
    );
    println!(
        "kernel_cases={} shards={} grid_glyph_comparisons={} grid_seconds={:.1} oracle_failures={}",
        cw.len(),
        shards,
        st.counters.get("grid.glyphs_compared").cloned().unwrap_or(0),
        t_grid,
        st.counters.get("oracle_failures").cloned().unwrap_or(0)
    );
}
