fn main() { println!("placeholder"); }
