#!/usr/bin/env python3
"""Confirm every seeded change independently in ONE scratch worktree of /repo (outside /repo and /verif):
  demo fails with the patch, demo passes without it, the touched crates' existing tests pass with the patch.
Writes seeded/<id>/<m>/confirm.json.  Usage: tools_confirm_seeded.py [id ...]"""
import json, os, re, subprocess, sys, shutil, time
ROOT = os.path.dirname(os.path.abspath(__file__))
BASE = os.environ.get("SEEDCHECK_DIR", "/tmp/seedcheck")
WT = BASE + "/repo"
TGT = BASE + "/target"
ENV = dict(os.environ, CARGO_TARGET_DIR=TGT, CARGO_NET_OFFLINE="true")

def sh(cmd, cwd=WT, timeout=3000):
    p = subprocess.run(cmd, shell=True, cwd=cwd, env=ENV, stdout=subprocess.PIPE, stderr=subprocess.STDOUT, text=True, timeout=timeout, errors="replace")
    return p.returncode, p.stdout

def crates_touched(patch):
    cs = set()
    for l in open(patch):
        m = re.match(r"\+\+\+ b/([^/]+)/", l)
        if m:
            cs.add(m.group(1))
    return sorted(cs)

def install_demo(d, meta, ident):
    crate = meta.get("crate_for_demo")
    how = (meta.get("how_to_install_demo") or "").lower()
    src = open(os.path.join(d, "demo.rs")).read()
    m = re.search(r"([\w\-]+/src/[\w\-/]+\.rs)", how)
    if ("append" in how or ">>" in how) and m:
        target = os.path.join(WT, m.group(1))
        open(target, "a").write("\n" + src)
        name = re.search(r"mod (\w+)", src).group(1)
        return ("cargo test --offline -p %s --lib %s" % (crate, name), target, "append")
    tdir = os.path.join(WT, crate, "tests")
    os.makedirs(tdir, exist_ok=True)
    name = "seed_%s" % ident
    target = os.path.join(tdir, name + ".rs")
    open(target, "w").write(src)
    return ("cargo test --offline -p %s --test %s" % (crate, name), target, "file")

def main():
    ids = sys.argv[1:] or sorted(os.listdir(os.path.join(ROOT, "seeded")))
    os.makedirs(BASE, exist_ok=True)
    if not os.path.isdir(WT):
        subprocess.run(["git", "-C", "/repo", "worktree", "add", "--detach", WT, "HEAD"], check=True)
    sh("git checkout -q --detach $(git -C /repo rev-parse HEAD) && git checkout -- . && git clean -fdq")
    for pid in ids:
        base = os.path.join(ROOT, "seeded", pid)
        if not os.path.isdir(base):
            continue
        for m in sorted(os.listdir(base)):
            d = os.path.join(base, m)
            patch = os.path.join(d, "patch.diff")
            if not os.path.isfile(patch):
                continue
            if os.environ.get("ONLY_NEW") and os.path.isfile(os.path.join(d, "confirm.json")):
                continue
            meta = json.load(open(os.path.join(d, "meta.json")))
            res = {"property": pid, "mutant": m, "repo_head": sh("git rev-parse --short HEAD")[1].strip(), "ran": []}
            sh("git checkout -- . && git clean -fdq")
            rc, out = sh("git apply --check " + patch)
            res["patch_applies"] = rc == 0
            if rc != 0:
                res["note"] = out[-400:]
                json.dump(res, open(os.path.join(d, "confirm.json"), "w"), indent=1)
                print(pid, m, "PATCH DOES NOT APPLY")
                continue
            # 1. without patch: demo passes
            cmd, target, mode = install_demo(d, meta, "%s_%s" % (pid.lower(), m))
            rc0, out0 = sh(cmd)
            res["ran"].append({"cmd": cmd, "patched": False, "rc": rc0})
            res["demo_passes_without_patch"] = rc0 == 0
            # 2. with patch: demo fails
            sh("git checkout -- . ")
            sh("git apply " + patch)
            if mode == "append":
                open(target, "a").write("\n" + open(os.path.join(d, "demo.rs")).read())
            rc1, out1 = sh(cmd)
            res["ran"].append({"cmd": cmd, "patched": True, "rc": rc1, "tail": out1[-600:]})
            res["demo_fails_with_patch"] = rc1 != 0 and "could not compile" not in out1
            # 3. with patch, demo removed: existing tests of touched crates (+ close dependents) pass
            sh("git checkout -- . && git clean -fdq")
            sh("git apply " + patch)
            crates = set(crates_touched(patch))
            dep = {"font-types": ["read-fonts", "skrifa", "write-fonts"], "read-fonts": ["skrifa", "write-fonts", "klippa", "incremental-font-transfer"],
                   "write-fonts": ["klippa", "incremental-font-transfer"], "skrifa": [], "klippa": ["incremental-font-transfer"]}
            allc = set(crates)
            for c in crates:
                allc |= set(dep.get(c, []))
            tcmd = "cargo test --offline " + " ".join("-p " + c for c in sorted(allc))
            rc2, out2 = sh(tcmd, timeout=6000)
            fails = re.findall(r"test result: FAILED.*", out2)
            res["ran"].append({"cmd": tcmd, "patched": True, "rc": rc2, "failed": fails[:3]})
            res["existing_tests_pass_with_patch"] = rc2 == 0
            res["confirmed"] = bool(res["demo_passes_without_patch"] and res["demo_fails_with_patch"] and res["existing_tests_pass_with_patch"])
            res["when"] = time.strftime("%Y-%m-%d %H:%M")
            json.dump(res, open(os.path.join(d, "confirm.json"), "w"), indent=1)
            print(pid, m, "confirmed" if res["confirmed"] else "NOT CONFIRMED", res["demo_passes_without_patch"], res["demo_fails_with_patch"], res["existing_tests_pass_with_patch"], flush=True)
    sh("git checkout -- . && git clean -fdq")

if __name__ == "__main__":
    main()
