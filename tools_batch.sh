#!/bin/bash
# run ./fv check for the given ids sequentially; summary in .cache/batch_results.txt
cd "$(dirname "$0")"
for id in "$@"; do
  out=$(./fv check $id 2>&1 | grep -E "VIOLATION|KNOWN-FINDING|quick:|thorough:" | cut -c1-220 | tr '\n' '|')
  echo "$(date +%H:%M) $id rc=$? $out" >> .cache/batch_results.txt
done
