//! C01L harness: validates the extraction of translators/layout_extract.py on a sample of generated
//! table readers.  For each sampled table type and many small byte strings (random structured bytes,
//! cut around the validation boundary: min_len-1, min_len, min_len+1, full) it records what the REAL
//! `T::read(FontData)` did and, on success, every pub `shape().<field>_byte_range()`.  coqc then evaluates
//! `run_read` / `ranges_of` / `eval_getter` of the extracted layout term (coq/C01/LayoutGen.v) in the
//! environment determined by the same bytes (coq/C01/LayoutCheck.v `check_case`) and any difference is a
//! broken correspondence.
//!
//! Implementation-only oracle (the property's wording): after a successful read, every accessor of the
//! table is called through `SomeTable::get_field` (which calls every generated getter) under `catch`; a panic
//! is an oracle failure with key "gen:<Table>::<what>".  Also every marker range must lie inside the data.
use read_fonts::tables;
use read_fonts::traversal::SomeTable;
use read_fonts::{FontData, FontRead};
use serde_json::json;
use std::ops::Range;
use vh::*;

type Ranges = Vec<(String, Option<(usize, usize)>)>;

trait R {
    fn r(self) -> Option<(usize, usize)>;
}
impl R for Range<usize> {
    fn r(self) -> Option<(usize, usize)> {
        Some((self.start, self.end))
    }
}
impl R for Option<Range<usize>> {
    fn r(self) -> Option<(usize, usize)> {
        self.map(|x| (x.start, x.end))
    }
}

struct Tbl {
    name: &'static str,
    vkind: i64,
    nargs: usize,
    /// Ok(None): read returned Err; Ok(Some(ranges)); Err(msg): a panic (read, range fn or getter)
    run: Box<dyn Fn(&[u8], &[u16]) -> Result<Option<Ranges>, String>>,
}

macro_rules! tbl {
    ($v:ident, $name:literal, $vk:expr, $nargs:expr, |$d:ident, $a:ident| $read:expr, [$($f:ident),* $(,)?]) => {
        $v.push(Tbl { name: $name, vkind: $vk, nargs: $nargs, run: Box::new(|bytes: &[u8], args: &[u16]| {
            let b = bytes.to_vec();
            let av = args.to_vec();
            catch(move || {
                let $d = FontData::new(&b);
                let $a = &av[..];
                let _ = &$a;
                match $read {
                    Err(_) => None,
                    Ok(t) => {
                        let s = t.shape();
                        let v: Ranges = vec![$( (stringify!($f).trim_end_matches("_byte_range").to_string(), s.$f().r()) ),*];
                        // call every getter (and offset resolver) of the table
                        let st: &dyn SomeTable = &t;
                        for i in 0..(v.len() + 8) {
                            let _ = st.get_field(i);
                        }
                        Some(v)
                    }
                }
            })
        })});
    };
}

fn tables_list() -> Vec<Tbl> {
    use tables::gpos::ValueFormat;
    let mut v: Vec<Tbl> = vec![];
    tbl!(v, "Gasp", 0, 0, |d, a| tables::gasp::Gasp::read(d), [version_byte_range, num_ranges_byte_range, gasp_ranges_byte_range]);
    tbl!(v, "Maxp", 1, 0, |d, a| tables::maxp::Maxp::read(d), [version_byte_range, num_glyphs_byte_range, max_points_byte_range, max_contours_byte_range, max_composite_points_byte_range, max_composite_contours_byte_range, max_zones_byte_range, max_twilight_points_byte_range, max_storage_byte_range, max_function_defs_byte_range, max_instruction_defs_byte_range, max_stack_elements_byte_range, max_size_of_instructions_byte_range, max_component_elements_byte_range, max_component_depth_byte_range]);
    tbl!(v, "Post", 1, 0, |d, a| tables::post::Post::read(d), [version_byte_range, italic_angle_byte_range, underline_position_byte_range, underline_thickness_byte_range, is_fixed_pitch_byte_range, min_mem_type42_byte_range, max_mem_type42_byte_range, min_mem_type1_byte_range, max_mem_type1_byte_range, num_glyphs_byte_range, glyph_name_index_byte_range, string_data_byte_range]);
    tbl!(v, "Name", 0, 0, |d, a| tables::name::Name::read(d), [version_byte_range, count_byte_range, storage_offset_byte_range, name_record_byte_range, lang_tag_count_byte_range, lang_tag_record_byte_range]);
    tbl!(v, "Gdef", 0, 0, |d, a| tables::gdef::Gdef::read(d), [version_byte_range, glyph_class_def_offset_byte_range, attach_list_offset_byte_range, lig_caret_list_offset_byte_range, mark_attach_class_def_offset_byte_range, mark_glyph_sets_def_offset_byte_range, item_var_store_offset_byte_range]);
    tbl!(v, "Cpal", 0, 0, |d, a| tables::cpal::Cpal::read(d), [version_byte_range, num_palette_entries_byte_range, num_palettes_byte_range, num_color_records_byte_range, color_records_array_offset_byte_range, color_record_indices_byte_range, palette_types_array_offset_byte_range, palette_labels_array_offset_byte_range, palette_entry_labels_array_offset_byte_range]);
    tbl!(v, "Colr", 0, 0, |d, a| tables::colr::Colr::read(d), [version_byte_range, num_base_glyph_records_byte_range, base_glyph_records_offset_byte_range, layer_records_offset_byte_range, num_layer_records_byte_range, base_glyph_list_offset_byte_range, layer_list_offset_byte_range, clip_list_offset_byte_range, var_index_map_offset_byte_range, item_variation_store_offset_byte_range]);
    tbl!(v, "Os2", 0, 0, |d, a| tables::os2::Os2::read(d), [version_byte_range, x_avg_char_width_byte_range, us_weight_class_byte_range, us_width_class_byte_range, fs_type_byte_range, y_subscript_x_size_byte_range, y_subscript_y_size_byte_range, y_subscript_x_offset_byte_range, y_subscript_y_offset_byte_range, y_superscript_x_size_byte_range, y_superscript_y_size_byte_range, y_superscript_x_offset_byte_range, y_superscript_y_offset_byte_range, y_strikeout_size_byte_range, y_strikeout_position_byte_range, s_family_class_byte_range, panose_10_byte_range, ul_unicode_range_1_byte_range, ul_unicode_range_2_byte_range, ul_unicode_range_3_byte_range, ul_unicode_range_4_byte_range, ach_vend_id_byte_range, fs_selection_byte_range, us_first_char_index_byte_range, us_last_char_index_byte_range, s_typo_ascender_byte_range, s_typo_descender_byte_range, s_typo_line_gap_byte_range, us_win_ascent_byte_range, us_win_descent_byte_range, ul_code_page_range_1_byte_range, ul_code_page_range_2_byte_range, sx_height_byte_range, s_cap_height_byte_range, us_default_char_byte_range, us_break_char_byte_range, us_max_context_byte_range, us_lower_optical_point_size_byte_range, us_upper_optical_point_size_byte_range]);
    tbl!(v, "Stat", 0, 0, |d, a| tables::stat::Stat::read(d), [version_byte_range, design_axis_size_byte_range, design_axis_count_byte_range, design_axes_offset_byte_range, axis_value_count_byte_range, offset_to_axis_value_offsets_byte_range, elided_fallback_name_id_byte_range]);
    tbl!(v, "Base", 0, 0, |d, a| tables::base::Base::read(d), [version_byte_range, horiz_axis_offset_byte_range, vert_axis_offset_byte_range, item_var_store_offset_byte_range]);
    tbl!(v, "Fvar", 0, 0, |d, a| tables::fvar::Fvar::read(d), [version_byte_range, axis_instance_arrays_offset_byte_range, _reserved_byte_range, axis_count_byte_range, axis_size_byte_range, instance_count_byte_range, instance_size_byte_range]);
    tbl!(v, "Cmap4", 0, 0, |d, a| tables::cmap::Cmap4::read(d), [format_byte_range, length_byte_range, language_byte_range, seg_count_x2_byte_range, search_range_byte_range, entry_selector_byte_range, range_shift_byte_range, end_code_byte_range, reserved_pad_byte_range, start_code_byte_range, id_delta_byte_range, id_range_offsets_byte_range, glyph_id_array_byte_range]);
    tbl!(v, "Cmap6", 0, 0, |d, a| tables::cmap::Cmap6::read(d), [format_byte_range, length_byte_range, language_byte_range, first_code_byte_range, entry_count_byte_range, glyph_id_array_byte_range]);
    tbl!(v, "Cmap12", 0, 0, |d, a| tables::cmap::Cmap12::read(d), [format_byte_range, reserved_byte_range, length_byte_range, language_byte_range, num_groups_byte_range, groups_byte_range]);
    tbl!(v, "Cmap14", 0, 0, |d, a| tables::cmap::Cmap14::read(d), [format_byte_range, length_byte_range, num_var_selector_records_byte_range, var_selector_byte_range]);
    tbl!(v, "CoverageFormat1", 0, 0, |d, a| tables::layout::CoverageFormat1::read(d), [coverage_format_byte_range, glyph_count_byte_range, glyph_array_byte_range]);
    tbl!(v, "CoverageFormat2", 0, 0, |d, a| tables::layout::CoverageFormat2::read(d), [coverage_format_byte_range, range_count_byte_range, range_records_byte_range]);
    tbl!(v, "ClassDefFormat1", 0, 0, |d, a| tables::layout::ClassDefFormat1::read(d), [class_format_byte_range, start_glyph_id_byte_range, glyph_count_byte_range, class_value_array_byte_range]);
    tbl!(v, "SequenceContextFormat3", 0, 0, |d, a| tables::layout::SequenceContextFormat3::read(d), [format_byte_range, glyph_count_byte_range, seq_lookup_count_byte_range, coverage_offsets_byte_range, seq_lookup_records_byte_range]);
    tbl!(v, "ChainedSequenceContextFormat3", 0, 0, |d, a| tables::layout::ChainedSequenceContextFormat3::read(d), [format_byte_range, backtrack_glyph_count_byte_range, backtrack_coverage_offsets_byte_range, input_glyph_count_byte_range, input_coverage_offsets_byte_range, lookahead_glyph_count_byte_range, lookahead_coverage_offsets_byte_range, seq_lookup_count_byte_range, seq_lookup_records_byte_range]);
    tbl!(v, "Hmtx", 0, 2, |d, a| tables::hmtx::Hmtx::read(d, a[0], a[1]), [h_metrics_byte_range, left_side_bearings_byte_range]);
    tbl!(v, "PairSet", 0, 2, |d, a| tables::gpos::PairSet::read(d, ValueFormat::from_bits_truncate(a[0]), ValueFormat::from_bits_truncate(a[1])), [pair_value_count_byte_range, pair_value_records_byte_range]);
    tbl!(v, "SinglePosFormat1", 0, 0, |d, a| tables::gpos::SinglePosFormat1::read(d), [pos_format_byte_range, coverage_offset_byte_range, value_format_byte_range, value_record_byte_range]);
    tbl!(v, "SinglePosFormat2", 0, 0, |d, a| tables::gpos::SinglePosFormat2::read(d), [pos_format_byte_range, coverage_offset_byte_range, value_format_byte_range, value_count_byte_range, value_records_byte_range]);
    tbl!(v, "Gvar", 0, 0, |d, a| tables::gvar::Gvar::read(d), [version_byte_range, axis_count_byte_range, shared_tuple_count_byte_range, shared_tuples_offset_byte_range, glyph_count_byte_range, flags_byte_range, glyph_variation_data_array_offset_byte_range, glyph_variation_data_offsets_byte_range]);
    tbl!(v, "Hhea", 0, 0, |d, a| tables::hhea::Hhea::read(d), [version_byte_range, ascender_byte_range, descender_byte_range, line_gap_byte_range, advance_width_max_byte_range, min_left_side_bearing_byte_range, min_right_side_bearing_byte_range, x_max_extent_byte_range, caret_slope_rise_byte_range, caret_slope_run_byte_range, caret_offset_byte_range, reserved1_byte_range, reserved2_byte_range, reserved3_byte_range, reserved4_byte_range, metric_data_format_byte_range, number_of_h_metrics_byte_range]);
    tbl!(v, "Hdmx", 0, 1, |d, a| tables::hdmx::Hdmx::read(d, a[0]), [version_byte_range, num_records_byte_range, size_device_record_byte_range, records_byte_range]);
    tbl!(v, "Ltag", 0, 0, |d, a| tables::ltag::Ltag::read(d), [version_byte_range, flags_byte_range, num_tags_byte_range, tag_ranges_byte_range]);
    tbl!(v, "Meta", 0, 0, |d, a| tables::meta::Meta::read(d), [version_byte_range, flags_byte_range, reserved_byte_range, data_maps_count_byte_range, data_maps_byte_range]);
    tbl!(v, "Vorg", 0, 0, |d, a| tables::vorg::Vorg::read(d), [version_byte_range, default_vert_origin_y_byte_range, num_vert_origin_y_metrics_byte_range, vert_origin_y_metrics_byte_range]);
    v
}

fn gen_bytes(rng: &mut Rng, len: usize) -> Vec<u8> {
    let mut b: Vec<u8> = (0..len)
        .map(|_| match rng.below(20) {
            0..=11 => 0u8,
            12..=16 => rng.below(4) as u8 + 1,
            17 => 0xff,
            _ => rng.below(256) as u8,
        })
        .collect();
    // version / format patterns in the first four bytes
    if rng.chance(3, 4) {
        let hi = *rng.pick(&[[0u8, 0], [0, 1], [0, 1], [0, 2], [0, 3], [0, 4], [0, 5]]);
        let lo = *rng.pick(&[[0u8, 0], [0, 0], [0, 1], [0, 2], [0, 3], [0x50, 0], [0x10, 0]]);
        for (i, x) in hi.iter().chain(lo.iter()).enumerate() {
            if i < b.len() {
                b[i] = *x;
            }
        }
    }
    b
}

fn coq_case(t: &Tbl, args: &[u16], bytes: &[u8], res: &Option<Ranges>) -> String {
    let exp = match res {
        None => "None".to_string(),
        Some(rs) => format!(
            "(Some {})",
            clist(rs.iter(), |(n, r)| format!(
                "(\"{}\", {})",
                n,
                match r {
                    None => "None".to_string(),
                    Some((a, b)) => format!("Some ({}, {})", a, b),
                }
            ))
        ),
    };
    format!(
        "(\"{}\", {}, {}, {}, {})",
        t.name,
        t.vkind,
        czlist(args.iter().map(|x| *x as i128)),
        cbytes(bytes),
        exp
    )
}

fn main() {
    let argv: Vec<String> = std::env::args().collect();
    let thorough = tier_is_thorough(&argv);
    let dir = out_dir(&argv, "C01L");
    silence_panics();
    let mut rng = Rng::new(seed_from_env());
    let header = "From Coq Require Import ZArith List String.\nFrom FV Require Import Lib.Cases C01.Layout C01.LayoutGen C01.LayoutCheck.\nImport ListNotations.\nOpen Scope string_scope.\nOpen Scope Z_scope.";
    let mut cw = CaseWriter::new(&dir, header, "lcase", "check_case", 500);
    let mut stats = Stats::new();
    let tl = tables_list();
    let per_table = if thorough { 600 } else { 110 };
    for t in &tl {
        for _ in 0..per_table {
            let len = match rng.below(10) {
                0 => rng.below(8) as usize,
                1..=6 => rng.below(64) as usize,
                _ => rng.below(140) as usize,
            };
            let bytes = gen_bytes(&mut rng, len);
            let args: Vec<u16> = (0..t.nargs)
                .map(|_| match rng.below(4) {
                    0 => 0u16,
                    1 => rng.below(6) as u16,
                    2 => rng.below(256) as u16,
                    _ => rng.below(40) as u16,
                })
                .collect();
            // find the validation boundary: smallest prefix on which read succeeds
            let mut min_len: Option<usize> = None;
            for l in 0..=bytes.len() {
                if let Ok(Some(_)) = (t.run)(&bytes[..l], &args) {
                    min_len = Some(l);
                    break;
                }
            }
            let mut lens: Vec<usize> = vec![bytes.len()];
            if let Some(m) = min_len {
                lens.push(m);
                if m > 0 {
                    lens.push(m - 1);
                }
                if m < bytes.len() {
                    lens.push(m + 1);
                }
                stats.count(&format!("{}.has_valid_prefix", t.name));
            } else {
                stats.count(&format!("{}.never_valid", t.name));
            }
            lens.sort();
            lens.dedup();
            for l in lens {
                let b = &bytes[..l];
                stats.evaluations += 1;
                match (t.run)(b, &args) {
                    Err(msg) => {
                        stats.oracle_failure(json!({"key": format!("gen:{}::panic", t.name), "table": t.name,
                            "args": args, "bytes": b, "panic": msg}));
                    }
                    Ok(res) => {
                        if let Some(rs) = &res {
                            stats.count(&format!("{}.read_ok", t.name));
                            let mut interesting = false;
                            for (n, r) in rs {
                                match r {
                                    Some((s, e)) => {
                                        if s > e || *e > b.len() {
                                            stats.oracle_failure(json!({"key": format!("gen:{}::{}_byte_range", t.name, n),
                                                "table": t.name, "args": args, "bytes": b, "range": [s, e], "len": b.len()}));
                                        }
                                        if e - s > 8 {
                                            interesting = true;
                                        }
                                    }
                                    None => {
                                        stats.count("optional_range_absent");
                                    }
                                }
                            }
                            if interesting {
                                stats.nontrivial(&format!("{}:{:?}:{:?}", t.name, args, b));
                            }
                        } else {
                            stats.count(&format!("{}.read_err", t.name));
                        }
                        let term = coq_case(t, &args, b, &res);
                        if cw.len() < 3 {
                            stats.sample(json!({"table": t.name, "len": b.len(), "read_ok": res.is_some()}));
                        }
                        cw.push(term);
                    }
                }
            }
        }
    }
    let shards = cw.finish();
    stats.v.insert("model_cases".into(), (cw.len() as u64).into());
    stats.v.insert("shards".into(), (shards as u64).into());
    stats.v.insert("sampled_tables".into(), (tl.len() as u64).into());
    if let Ok(s) = std::fs::read_to_string("/verif/coq/C01/LayoutGen.stats.json") {
        if let Ok(v) = serde_json::from_str::<serde_json::Value>(&s) {
            let mut v = v;
            if let Some(o) = v.as_object_mut() {
                o.remove("layout_names");
                o.remove("scalar_sizes_used");
            }
            stats.v.insert("translator_summary".into(), v);
        }
    }
    stats.write(&dir, "structured random bytes (60% zero / small counts / version patterns) for 30 sampled generated table types, cut at min_len-1, min_len, min_len+1 and full length; read result and every marker range compared with the extracted layout term");
    println!("c01l: {} cases in {} shards, {} tables", cw.len(), shards, tl.len());
}
