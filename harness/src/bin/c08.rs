//! C08 harness: character maps built from a mapping answer exactly that mapping.
//!
//! Real code exercised: write-fonts `Cmap::from_mappings` -> `dump_table` -> read-fonts `Cmap::read`
//! -> `Cmap::map_codepoint` / `Cmap4::{map_codepoint,iter}` / `Cmap12::{map_codepoint,iter}` and
//! skrifa `Charmap::{map,mappings,map_variant,variant_mappings}` on a font assembled with
//! `FontBuilder`.  The implementation-only oracle sweeps every BMP code point and a boundary set
//! beyond against the input mapping.  Small cases are also written as Coq terms for the model
//! (coq/C08/Model.v `check_case`): segment arrays / groups compared structurally, lookups and
//! iterations pointwise.
use std::collections::{BTreeMap, BTreeSet};

use font_types::{GlyphId, Uint24};
use read_fonts::tables::cmap as rcmap;
use read_fonts::{FontData, FontRead, FontRef, TableProvider};
use serde_json::json;
use skrifa::MetadataProvider;
use vh::*;
use write_fonts::tables::cmap as wcmap;
use write_fonts::tables::maxp::Maxp;
use write_fonts::{dump_table, FontBuilder};

type Pairs = Vec<(u32, u32)>;

thread_local! { static LAST_PANIC_LOC: std::cell::RefCell<String> = Default::default(); }
/// silent panic hook that remembers where the panic happened (path made independent of the checkout)
fn install_panic_hook() {
    std::panic::set_hook(Box::new(|info| {
        let loc = info.location().map(|l| format!("{}:{}", l.file(), l.line())).unwrap_or_default();
        let loc = loc.rsplit("/repo/").next().unwrap_or(&loc).to_string();
        LAST_PANIC_LOC.with(|l| *l.borrow_mut() = loc);
    }));
}
/// stable key of a panic in the code under test: `panic:<file:line>:<message with numbers masked>`
fn panic_key(msg: &str) -> String {
    let loc = LAST_PANIC_LOC.with(|l| l.borrow().clone());
    let mut m = String::new();
    let mut in_num = false;
    for ch in msg.chars().take(90) {
        if ch.is_ascii_digit() {
            if !in_num {
                m.push('#');
            }
            in_num = true;
        } else {
            in_num = false;
            m.push(ch);
        }
    }
    format!("panic:{}:{}", loc, m)
}
/// run code under test; a panic becomes an oracle failure carrying `input` (and None is returned)
fn guard<T>(st: &mut Stats, what: &str, input: &dyn Fn() -> serde_json::Value, f: impl FnOnce() -> T) -> Option<T> {
    match catch(std::panic::AssertUnwindSafe(f)) {
        Ok(v) => Some(v),
        Err(msg) => {
            report(st, json!({"key": panic_key(&msg), "what": format!("panic in {}", what), "panic": msg, "input": input()}));
            None
        }
    }
}

thread_local! { static SEEN_KEYS: std::cell::RefCell<BTreeMap<String, u32>> = Default::default(); }
/// report an oracle failure; a systematic key (same defect, many inputs) is recorded at most 3 times
/// so that the 50-entry cap of Stats keeps room for other kinds (the counter still counts all)
fn report(st: &mut Stats, v: serde_json::Value) {
    let k = v.get("key").and_then(|k| k.as_str()).unwrap_or("?").to_string();
    let n = SEEN_KEYS.with(|m| {
        let mut m = m.borrow_mut();
        let e = m.entry(k.clone()).or_insert(0);
        *e += 1;
        *e
    });
    st.count(&format!("oracle.{}", k.split(":m").next().unwrap_or(&k)));
    if n <= 3 {
        st.oracle_failure(v);
    }
}

const CP_ANCHORS: &[u32] = &[
    0, 1, 0x20, 0x41, 0x61, 0x7E, 0xFF, 0x100, 0x7FFD, 0x7FFE, 0x7FFF, 0x8000, 0x8001, 0xD7F0, 0xD7FF, 0xE000,
    0xEFFF, 0xF000, 0xF0FF, 0xFFEF, 0xFFF0, 0xFFF8, 0xFFFB, 0xFFFC, 0xFFFD, 0xFFFE, 0xFFFF, 0x10000, 0x10001,
    0x1F600, 0x2FFFE, 0xE0100, 0x10FFF0, 0x10FFFD, 0x10FFFE, 0x10FFFF,
];

fn is_char(c: u32) -> bool {
    char::from_u32(c).is_some()
}

/// gid − cp in [32768, 65535] for a BMP char: the i16 conversion of create_format_4 cannot represent it (F-2)
fn f2_risky(m: &Pairs) -> bool {
    m.iter().any(|(c, g)| *c <= 0xFFFF && (*g as i64 - *c as i64) >= 32768)
}

#[derive(Clone, Copy, PartialEq)]
enum Stream {
    Main,
    F2,
}

/// One structured mapping of at most `max_pairs` pairs (conflict-free, gids in 1..=65534).
fn gen_mapping(rng: &mut Rng, max_pairs: usize, stream: Stream, st: &mut Stats) -> Pairs {
    for _attempt in 0..200 {
        let mut m: BTreeMap<u32, u32> = BTreeMap::new();
        let pieces = 1 + rng.below(6) as usize;
        // 0: BMP only, 1: supplementary only, 2: mixed
        let mode = match rng.below(20) { 0..=8 => 0, 9..=10 => 1, _ => 2 };
        for _ in 0..pieces {
            if m.len() >= max_pairs {
                break;
            }
            let room = max_pairs - m.len();
            let start = if rng.chance(3, 5) {
                let a = *rng.pick(CP_ANCHORS) as i64 + rng.range(-6, 6);
                a.clamp(0, 0x10FFFF) as u32
            } else if rng.chance(1, 2) {
                rng.below(0x10000) as u32
            } else {
                rng.below(0x110000) as u32
            };
            let start = match mode {
                0 if start > 0xFFFF => start & 0xFFFF,
                1 if start <= 0xFFFF => 0x10000 + start % 0x30000,
                _ => start,
            };
            let kind = rng.below(8);
            let len = match kind {
                0 => 1,
                _ => 1 + rng.below((room.min(if max_pairs > 100 { 400 } else { 14 })) as u64) as usize,
            };
            // first gid: small, or chosen so that gid - cp sits next to the i16 limits
            let g0: i64 = match rng.below(6) {
                0 => start as i64 + *rng.pick(&[-32770i64, -32769, -32768, -32767, -1, 0, 1, 32765, 32766, 32767]),
                1 if stream == Stream::F2 => start as i64 + *rng.pick(&[32768i64, 32769, 40000, 65534, 65535]),
                2 => rng.range(1, 65534),
                3 => rng.range(65000, 65534),
                _ => rng.range(1, 600),
            };
            let mut gids: Vec<i64> = match kind {
                0 | 1 | 2 => (0..len as i64).map(|k| g0 + k).collect(),          // ordered run
                3 => (0..len as i64).map(|k| g0 + (len as i64 - 1 - k)).collect(), // reversed
                4 => {
                    let mut v: Vec<i64> = (0..len as i64).map(|k| g0 + k).collect(); // shuffled
                    rng.shuffle(&mut v);
                    v
                }
                5 => {
                    // ordered with breaks: sub-runs
                    let mut v = vec![];
                    let mut g = g0;
                    for _ in 0..len {
                        if rng.chance(1, 4) {
                            g += rng.range(-5, 9);
                        }
                        v.push(g);
                        g += 1;
                    }
                    v
                }
                6 => (0..len).map(|_| g0 + rng.range(0, 3)).collect(), // near-constant / repeats
                _ => {
                    // unordered head, ordered middle, unordered tail (the "sandwich")
                    let a = rng.below(len as u64 / 3 + 1) as usize;
                    let b = rng.below(len as u64 / 3 + 1) as usize;
                    let mut v: Vec<i64> = (0..len as i64).map(|k| g0 + k).collect();
                    v[..a].reverse();
                    let n = v.len();
                    v[n - b..].reverse();
                    v
                }
            };
            let sparse = kind == 2 && rng.chance(1, 2);
            let mut cp = start;
            for g in gids.drain(..) {
                if cp > 0x10FFFF || (mode == 0 && cp > 0xFFFF) {
                    break;
                }
                if !is_char(cp) {
                    cp = 0xE000;
                }
                let g = g.rem_euclid(65534) as u32 + 1; // 1..=65534
                m.entry(cp).or_insert(g);
                cp += if sparse { 2 + rng.below(5) as u32 } else { 1 };
                if m.len() >= max_pairs {
                    break;
                }
            }
        }
        let v: Pairs = m.into_iter().collect();
        if v.is_empty() {
            continue;
        }
        let risky = f2_risky(&v);
        match stream {
            Stream::Main if risky => {
                // valid since the fix of F-2; counted to show the region is exercised
                st.count("gen.main_with_delta_ge_32768");
                return v;
            }
            Stream::F2 if !risky => continue,
            _ => return v,
        }
    }
    vec![(0x41, 1)]
}

#[derive(Clone, Debug, Default, PartialEq)]
struct T4 {
    segx2: i64,
    endc: Vec<i64>,
    startc: Vec<i64>,
    deltas: Vec<i64>,
    roffs: Vec<i64>,
    gida: Vec<i64>,
}

fn t4_of(c4: &rcmap::Cmap4, truncate_to_length: bool) -> T4 {
    let n = c4.end_code().len();
    let mut gida: Vec<i64> = c4.glyph_id_array().iter().map(|g| g.get() as i64).collect();
    if truncate_to_length {
        // a subtable embedded in a cmap is read up to the end of the cmap; its own ids are the
        // first (length - 16 - 8*segcount)/2
        let own = (c4.length() as usize).saturating_sub(16 + 8 * n) / 2;
        gida.truncate(own);
    }
    T4 {
        segx2: c4.seg_count_x2() as i64,
        endc: c4.end_code().iter().map(|v| v.get() as i64).collect(),
        startc: c4.start_code().iter().map(|v| v.get() as i64).collect(),
        deltas: c4.id_delta().iter().map(|v| v.get() as i64).collect(),
        roffs: c4.id_range_offsets().iter().map(|v| v.get() as i64).collect(),
        gida,
    }
}

fn coq_t4(t: &T4) -> String {
    let l = |v: &Vec<i64>| czlist(v.iter().map(|x| *x as i128));
    format!("(mkT4 {} {} {} {} {} {})", t.segx2, l(&t.endc), l(&t.startc), l(&t.deltas), l(&t.roffs), l(&t.gida))
}
fn coq_pairs(v: &[(u32, u32)]) -> String {
    clist(v.iter(), |(c, g)| format!("({}, {})", c, g))
}
fn coq_groups(v: &[(u32, u32, u32)]) -> String {
    clist(v.iter(), |(a, b, c)| format!("({}, {}, {})", a, b, c))
}
fn coq_lookups(v: &[(u32, Option<u32>)]) -> String {
    clist(v.iter(), |(c, r)| format!("({}, {})", c, copt(r.map(|g| g.to_string()))))
}

#[derive(Debug, Default)]
struct Built {
    records: Vec<(u16, u16, u16)>, // platform, encoding, format
    f4: Option<T4>,
    f12: Option<Vec<(u32, u32, u32)>>,
    cmap_bytes: Vec<u8>,
    font: Vec<u8>,
    num_glyphs: u16,
}

enum Outcome {
    Panic(String),
    Conflict(String),
    DumpPanic(String),
    Built(Built),
}

fn to_char_pairs(input: &Pairs) -> Vec<(char, GlyphId)> {
    input.iter().map(|(c, g)| (char::from_u32(*c).unwrap(), GlyphId::new(*g))).collect()
}

/// Cmap::from_mappings -> dump_table -> font with maxp
fn build(input: &Pairs, num_glyphs: u16, st: &mut Stats) -> Outcome {
    let pairs = to_char_pairs(input);
    let w = match catch(move || wcmap::Cmap::from_mappings(pairs)) {
        Err(p) => return Outcome::Panic(p),
        Ok(Err(e)) => return Outcome::Conflict(format!("{}", e)),
        Ok(Ok(w)) => w,
    };
    let w2 = w.clone();
    let bytes = match catch(move || dump_table(&w2)) {
        Err(p) => return Outcome::DumpPanic(p),
        Ok(Err(e)) => return Outcome::DumpPanic(format!("dump_table error: {:?}", e)),
        Ok(Ok(b)) => b,
    };
    let mut b = Built { cmap_bytes: bytes.clone(), num_glyphs, ..Default::default() };
    let assembled = catch(std::panic::AssertUnwindSafe(|| {
        let data = FontData::new(&bytes);
        let cmap = rcmap::Cmap::read(data).expect("compiled cmap reads back");
        for rec in cmap.encoding_records() {
            let sub = rec.subtable(data).expect("subtable resolves");
            let fmt = match &sub {
                rcmap::CmapSubtable::Format4(c4) => {
                    if b.f4.is_none() {
                        b.f4 = Some(t4_of(c4, true));
                    }
                    4
                }
                rcmap::CmapSubtable::Format12(c12) => {
                    if b.f12.is_none() {
                        b.f12 = Some(
                            c12.groups()
                                .iter()
                                .map(|g| (g.start_char_code(), g.end_char_code(), g.start_glyph_id()))
                                .collect(),
                        );
                    }
                    12
                }
                _ => 0,
            };
            b.records.push((rec.platform_id() as u16, rec.encoding_id(), fmt));
        }
        let maxp = Maxp::new(num_glyphs);
        let mut fb = FontBuilder::new();
        fb.add_table(&w).unwrap();
        fb.add_table(&maxp).unwrap();
        b.font = fb.build();
    }));
    if let Err(p) = assembled {
        // reading the compiled table back / assembling the font panicked: a failure of its own
        report(st, json!({"key": panic_key(&p), "what": "panic while reading the compiled cmap back", "panic": p, "input": if input.len() <= 80 { json!(input) } else { json!(input.len()) }}));
        return Outcome::DumpPanic(format!("read-back panic: {}", p));
    }
    Outcome::Built(b)
}

fn first_cmap4<'a>(cmap: &rcmap::Cmap<'a>) -> Option<rcmap::Cmap4<'a>> {
    cmap.encoding_records().iter().find_map(|r| match r.subtable(cmap.offset_data()) {
        Ok(rcmap::CmapSubtable::Format4(t)) => Some(t),
        _ => None,
    })
}
fn first_cmap12<'a>(cmap: &rcmap::Cmap<'a>) -> Option<rcmap::Cmap12<'a>> {
    cmap.encoding_records().iter().find_map(|r| match r.subtable(cmap.offset_data()) {
        Ok(rcmap::CmapSubtable::Format12(t)) => Some(t),
        _ => None,
    })
}

/// boundary set beyond the BMP (and a few inside) relative to a mapping
fn boundary_cps(input: &Pairs) -> Vec<u32> {
    let mut s: BTreeSet<u32> = BTreeSet::new();
    for a in CP_ANCHORS {
        s.insert(*a);
    }
    for (c, _) in input {
        if *c >= 0xFFF0 {
            for d in -2i64..=2 {
                let x = *c as i64 + d;
                if (0..=0x110000).contains(&x) {
                    s.insert(x as u32);
                }
            }
        }
    }
    s.insert(0x110000); // not a char; u32 API accepts it
    s.insert(0xFFFF_FFFF);
    s.into_iter().collect()
}

fn key_of(input: &Pairs) -> String {
    let mut v = input.clone();
    v.sort();
    format!("m{:016x}", fnv(format!("{:?}", v).as_bytes()))
}

/// The property's wording evaluated on the implementation (no model involved).
/// `valid`: conflict-free, all gids in 1..num_glyphs.
fn oracle_built(input: &Pairs, b: &Built, st: &mut Stats, full_sweep: bool) {
    let want: BTreeMap<u32, u32> = input.iter().cloned().collect();
    let key = key_of(input);
    let fail = |st: &mut Stats, what: &str, detail: serde_json::Value| {
        report(st, json!({"key": format!("{}:{}", what, key), "what": what, "detail": detail,
                                 "input": if input.len() <= 80 { json!(input) } else { json!(format!("{} pairs, first {:?}", input.len(), &input[..8])) }}));
    };
    let has_bmp = want.keys().any(|c| *c <= 0xFFFF);
    let has_supp = want.keys().any(|c| *c > 0xFFFF);
    // subtable choice
    let mut exp_records = vec![];
    if has_bmp {
        exp_records.push((0u16, 3u16, 4u16));
    }
    if has_supp {
        exp_records.push((0, 4, 12));
    }
    if has_bmp {
        exp_records.push((3, 1, 4));
    }
    if has_supp {
        exp_records.push((3, 10, 12));
    }
    if b.records != exp_records {
        fail(st, "subtable-choice", json!({"records": format!("{:?}", b.records), "expected": format!("{:?}", exp_records)}));
    }
    let data = FontData::new(&b.cmap_bytes);
    let cmap = rcmap::Cmap::read(data).unwrap();
    let c4 = first_cmap4(&cmap);
    let c12 = first_cmap12(&cmap);
    let font = FontRef::new(&b.font).unwrap();
    let charmap = font.charmap();
    // the cacheable constructor must give the same character map
    let charmap_ix = skrifa::charmap::MappingIndex::new(&font).charmap(&font);
    if (charmap.has_map(), charmap.is_symbol(), charmap.has_variant_map()) != (charmap_ix.has_map(), charmap_ix.is_symbol(), charmap_ix.has_variant_map()) {
        fail(st, "charmap-constructors-disagree", json!({"what": "has_map/is_symbol/has_variant_map"}));
    }
    let fcmap = font.cmap().unwrap();
    let mut cps: Vec<u32> = if full_sweep { (0..=0xFFFFu32).collect() } else { vec![] };
    cps.extend(boundary_cps(input));
    cps.extend(want.keys().flat_map(|c| [c.saturating_sub(1), *c, c + 1]));
    let mut nfail = 0;
    for c in cps {
        st.evaluations += 1;
        let exp = want.get(&c).cloned();
        // table level: mapped -> that glyph; unmapped -> None or .notdef
        let table_ok = |got: Option<GlyphId>| match (exp, got) {
            (Some(g), Some(r)) => r.to_u32() == g,
            (None, None) => true,
            (None, Some(r)) => r.to_u32() == 0,
            _ => false,
        };
        if c == 0xFFFF {
            continue; // the format's sentinel, excepted by the property
        }
        let r1 = catch(|| cmap.map_codepoint(c));
        let r1b = catch(|| fcmap.map_codepoint(c));
        if !matches!(&r1, Ok(g) if table_ok(*g)) || r1 != r1b {
            nfail += 1;
            if nfail < 4 {
                fail(st, "cmap-map_codepoint", json!({"c": c, "expected": exp, "got": format!("{:?}", r1)}));
            }
        }
        if let Some(t) = &c4 {
            let r = catch(|| t.map_codepoint(c));
            let e4 = if c <= 0xFFFF { exp } else { None };
            let ok = match (e4, &r) {
                (Some(g), Ok(Some(x))) => x.to_u32() == g,
                (None, Ok(None)) => true,
                (None, Ok(Some(x))) => c <= 0xFFFF && x.to_u32() == 0,
                _ => false,
            };
            if !ok {
                nfail += 1;
                if nfail < 4 {
                    fail(st, "cmap4-map_codepoint", json!({"c": c, "expected": e4, "got": format!("{:?}", r)}));
                }
            }
        }
        if let Some(t) = &c12 {
            let r = catch(|| t.map_codepoint(c));
            if !matches!(&r, Ok(g) if table_ok(*g)) {
                nfail += 1;
                if nfail < 4 {
                    fail(st, "cmap12-map_codepoint", json!({"c": c, "expected": exp, "got": format!("{:?}", r)}));
                }
            }
        }
        // high level: exactly the mapping
        let r_ix = catch(|| charmap_ix.map(c));
        let r = catch(|| charmap.map(c));
        if r != r_ix {
            nfail += 1;
            if nfail < 4 {
                fail(st, "charmap-constructors-disagree", json!({"c": c, "Charmap::new": format!("{:?}", r), "MappingIndex::charmap": format!("{:?}", r_ix)}));
            }
        }
        if r != Ok(exp.map(GlyphId::new)) {
            nfail += 1;
            if nfail < 4 {
                fail(st, "charmap-map", json!({"c": c, "expected": exp, "got": format!("{:?}", r)}));
            }
        }
    }
    // enumeration
    let all: Vec<(u32, u32)> = want.iter().map(|(c, g)| (*c, *g)).collect();
    if let Some(t) = &c4 {
        let got: Result<Vec<(u32, u32)>, _> = catch(|| t.iter().map(|(c, g)| (c, g.to_u32())).collect());
        let mut exp: Vec<(u32, u32)> = all.iter().cloned().filter(|(c, _)| *c <= 0xFFFF).collect();
        if !want.contains_key(&0xFFFF) {
            exp.push((0xFFFF, 0)); // the sentinel segment enumerates as .notdef (filtered by Charmap::mappings)
        }
        if got.as_ref() != Ok(&exp) {
            fail(st, "cmap4-iter", json!({"expected_len": exp.len(), "got": format!("{:?}", got.map(|v| v.into_iter().take(12).collect::<Vec<_>>()))}));
        }
    }
    if let Some(t) = &c12 {
        let got: Result<Vec<(u32, u32)>, _> = catch(|| t.iter().map(|(c, g)| (c, g.to_u32())).collect());
        if got.as_ref() != Ok(&all) {
            fail(st, "cmap12-iter", json!({"expected_len": all.len(), "got": format!("{:?}", got.map(|v| v.into_iter().take(12).collect::<Vec<_>>()))}));
        }
        // groups maximal, ascending, disjoint
        if let Some(gs) = &b.f12 {
            for w in gs.windows(2) {
                let (s0, e0, g0) = w[0];
                let (s1, _e1, g1) = w[1];
                let mergeable = s1 == e0 + 1 && g1 == g0 + (e0 - s0) + 1;
                if !(e0 < s1) || s0 > e0 || mergeable {
                    fail(st, "cmap12-groups", json!({"groups": format!("{:?}", w)}));
                }
            }
        }
    }
    let got_ix: Result<Vec<(u32, u32)>, _> = catch(|| charmap_ix.mappings().map(|(c, g)| (c, g.to_u32())).collect());
    let got: Result<Vec<(u32, u32)>, _> = catch(|| charmap.mappings().map(|(c, g)| (c, g.to_u32())).collect());
    if got != got_ix {
        fail(st, "charmap-constructors-disagree", json!({"what": "mappings()", "new_len": got.as_ref().map(|v| v.len()).unwrap_or(0), "index_len": got_ix.as_ref().map(|v| v.len()).unwrap_or(0)}));
    }
    // U+FFFF excepted at the format-4 level
    let strip = |v: &Vec<(u32, u32)>| -> Vec<(u32, u32)> { v.iter().cloned().filter(|(c, _)| *c != 0xFFFF || has_supp).collect() };
    if got.as_ref().map(strip) != Ok(strip(&all)) {
        let g = got.unwrap_or_default();
        let missing: Vec<_> = all.iter().filter(|p| !g.contains(p)).take(6).collect();
        let extra: Vec<_> = g.iter().filter(|p| !all.contains(p)).take(6).collect();
        // stable key for the one systematic cause we know: the exclusive upper limit char::MAX
        if missing == vec![&(0x10FFFFu32, *want.get(&0x10FFFF).unwrap_or(&0))] && extra.is_empty() {
            report(st, json!({"key": "charmap-mappings-drops-U+10FFFF", "what": "Charmap::mappings omits the pair for U+10FFFF (Cmap12IterLimits.max_char used as exclusive bound)",
                                     "input_key": key, "missing": format!("{:?}", missing)}));
        } else {
            fail(st, "charmap-mappings", json!({"missing": format!("{:?}", missing), "extra": format!("{:?}", extra)}));
        }
    }
}

fn impl_outcome_term(input: &Pairs, out: &Outcome, rng: &mut Rng) -> String {
    match out {
        Outcome::Panic(_) => "IPanic".into(),
        Outcome::DumpPanic(_) => "IDumpPanic".into(),
        Outcome::Conflict(s) => {
            // Display: "Cannot map 'x' (U+0041) to two different glyph ids: GID_1 and GID_2"
            let _ = input;
            let hex = s.split("(U+").nth(1).and_then(|t| t.split(')').next()).unwrap_or("110000");
            let ch = u32::from_str_radix(hex, 16).unwrap_or(0x11_0000);
            let gids: Vec<u32> = s.split("GID_").skip(1).map(|t| t.chars().take_while(|c| c.is_ascii_digit()).collect::<String>().parse().unwrap_or(0)).collect();
            format!("(IConflict {} {} {})", ch, gids.first().cloned().unwrap_or(0), gids.get(1).cloned().unwrap_or(0))
        }
        Outcome::Built(b) => {
            let data = FontData::new(&b.cmap_bytes);
            let cmap = rcmap::Cmap::read(data).unwrap();
            let font = FontRef::new(&b.font).unwrap();
            // observations for the model come from the cacheable constructor (oracle_built requires it to equal Charmap::new)
            let charmap = skrifa::charmap::MappingIndex::new(&font).charmap(&font);
            let mut cps: BTreeSet<u32> = BTreeSet::new();
            for (c, _) in input {
                cps.insert(c.saturating_sub(1));
                cps.insert(*c);
                cps.insert(c + 1);
            }
            for c in [0u32, 0x7FFF, 0x8000, 0xEFFF, 0xF041, 0xFFFE, 0xFFFF, 0x10000, 0x10FFFF, 0x110000] {
                cps.insert(c);
            }
            for _ in 0..8 {
                cps.insert(rng.below(0x10000) as u32);
                cps.insert(rng.below(0x110000) as u32);
            }
            let tl: Vec<(u32, Option<u32>)> = cps.iter().map(|c| (*c, cmap.map_codepoint(*c).map(|g| g.to_u32()))).collect();
            let cl: Vec<(u32, Option<u32>)> = cps.iter().map(|c| (*c, charmap.map(*c).map(|g| g.to_u32()))).collect();
            let i4: Vec<(u32, u32)> = first_cmap4(&cmap).map(|t| t.iter().map(|(c, g)| (c, g.to_u32())).collect()).unwrap_or_default();
            let i12: Vec<(u32, u32)> = first_cmap12(&cmap).map(|t| t.iter().map(|(c, g)| (c, g.to_u32())).collect()).unwrap_or_default();
            let ci: Vec<(u32, u32)> = charmap.mappings().map(|(c, g)| (c, g.to_u32())).collect();
            format!(
                "(IBuilt {} {} {} {} {} {} {} {})",
                copt(b.f4.as_ref().map(coq_t4)),
                copt(b.f12.as_ref().map(|g| coq_groups(g))),
                coq_lookups(&tl),
                coq_pairs(&i4),
                coq_pairs(&i12),
                b.num_glyphs,
                coq_lookups(&cl),
                coq_pairs(&ci)
            )
        }
    }
}

fn segment_stats(b: &Built, st: &mut Stats) {
    if let Some(t) = &b.f4 {
        for i in 0..t.endc.len() {
            if t.roffs[i] != 0 {
                st.count("seg.range_offset");
            } else if i + 1 < t.endc.len() {
                st.count("seg.delta");
                if t.startc[i] == t.endc[i] {
                    st.count("seg.delta.single");
                }
                let d = t.deltas[i];
                // true gid - cp of the segment start
                let g = (t.startc[i] + d).rem_euclid(65536);
                let true_delta = g - t.startc[i];
                if true_delta < -32768 {
                    st.count("seg.delta.wrapped_negative");
                }
                if d < 0 {
                    st.count("seg.delta.negative");
                }
                if true_delta == 32767 || true_delta == -32768 {
                    st.count("seg.delta.at_i16_limit");
                }
            }
            if t.endc[i] == 0xFFFF && i + 1 < t.endc.len() {
                st.count("seg.ends_at_FFFF_before_sentinel");
            }
        }
        if !t.gida.is_empty() {
            st.count("f4.with_glyph_id_array");
        }
    }
    if b.f12.is_some() {
        st.count("f12.present");
    }
    if b.f4.is_none() {
        st.count("f4.absent");
    }
}

// ---------------- reader-only cases over arbitrary (also malformed) decoded arrays ----------------

fn gen_read4(rng: &mut Rng, st: &mut Stats, cw: &mut CaseWriter) {
    let n = 1 + rng.below(6) as usize;
    let wellformed = rng.chance(1, 2);
    let mut startc: Vec<u16> = vec![];
    let mut endc: Vec<u16> = vec![];
    let mut deltas: Vec<i16> = vec![];
    let mut roffs: Vec<u16> = vec![];
    let mut cur: u32 = rng.below(200) as u32;
    for i in 0..n {
        let (s, e) = if wellformed {
            let s = cur + rng.below(30) as u32;
            let e = s + rng.below(12) as u32;
            cur = e + 1 + rng.below(3) as u32;
            (s.min(0xFFFF) as u16, e.min(0xFFFF) as u16)
        } else {
            // overlapping / unordered / end < start
            let s = if rng.chance(1, 5) { 0xFFF0 + rng.below(16) as u32 } else { rng.below(300) as u32 };
            let e = (s as i64 + rng.range(-4, 20)).clamp(0, 0xFFFF) as u32;
            (s as u16, e as u16)
        };
        startc.push(s);
        endc.push(e);
        if rng.chance(1, 2) {
            deltas.push(*rng.pick(&[0i16, 1, -1, 100, -100, 32767, -32768, -200]));
            roffs.push(0);
        } else {
            deltas.push(if rng.chance(3, 4) { 0 } else { *rng.pick(&[1i16, -1, 7, -32768]) });
            // offsets around the exact value, some pointing before/after the array, odd values
            let exact = ((n - i) * 2) as i64 + rng.range(0, 6) * 2;
            let ro = match rng.below(8) {
                0 => rng.range(1, 60),
                1 => *rng.pick(&[2i64, 3, 100, 4000, 65534, 65535]), // far outside / before the glyph array, odd
                _ => exact,
            };
            roffs.push(ro.clamp(1, 65535) as u16);
        }
    }
    if rng.chance(2, 3) {
        startc.push(0xFFFF);
        endc.push(0xFFFF);
        deltas.push(1);
        roffs.push(0);
    }
    let ng = if rng.chance(1, 8) { 0 } else { rng.below(40) as usize };
    let gida: Vec<u16> = (0..ng).map(|_| if rng.chance(1, 6) { 0 } else { rng.below(500) as u16 + if rng.chance(1, 10) { 65000 } else { 0 } }).collect();
    let w = wcmap::Cmap4::new(0, endc, startc, deltas, roffs, gida);
    let Ok(Ok(bytes)) = catch(move || dump_table(&w)) else {
        st.count("read4.dump_failed");
        return;
    };
    let Ok(c4) = rcmap::Cmap4::read(FontData::new(&bytes)) else {
        st.count("read4.read_failed");
        return;
    };
    let t = t4_of(&c4, false);
    let mut cps: BTreeSet<u32> = BTreeSet::new();
    for i in 0..t.startc.len() {
        for d in -1i64..=1 {
            cps.insert((t.startc[i] + d).clamp(0, 0x10000) as u32);
            cps.insert((t.endc[i] + d).clamp(0, 0x10000) as u32);
        }
        cps.insert(((t.startc[i] + t.endc[i]) / 2) as u32);
    }
    for _ in 0..10 {
        cps.insert(rng.below(400) as u32);
    }
    cps.insert(0xFFFF);
    cps.insert(0x10000);
    let lookups: Vec<(u32, Option<u32>)> = cps
        .iter()
        .map(|c| (*c, catch(|| c4.map_codepoint(*c)).ok().flatten().map(|g| g.to_u32())))
        .collect();
    // a panic of the reader on any decoded table is a failure of its own (reader must be total)
    for c in &cps {
        if catch(|| c4.map_codepoint(*c)).is_err() {
            report(st, json!({"key": format!("cmap4-reader-panic:{:016x}", fnv(&bytes)), "c": c}));
        }
    }
    let iter_r: Result<Vec<(u32, u32)>, String> = catch(|| c4.iter().map(|(c, g)| (c, g.to_u32())).collect());
    if iter_r.is_err() {
        report(st, json!({"key": format!("cmap4-iter-panic:{:016x}", fnv(&bytes)), "panic": format!("{:?}", iter_r)}));
    }
    let iter = iter_r.unwrap_or_default();
    // every table, malformed or not: strictly ascending code points (no repeats, no timeout)
    if iter.windows(2).any(|w| w[0].0 >= w[1].0) {
        report(st, json!({"key": format!("cmap4-iter-not-ascending:{:016x}", fnv(&bytes))}));
    }
    st.evaluations += cps.len() as u64 + 1;
    st.count(if wellformed { "read4.wellformed" } else { "read4.malformed" });
    st.nontrivial(&format!("r4 {:?}", t));
    cw.push(format!("CRead4 {} {} {}", coq_t4(&t), coq_lookups(&lookups), coq_pairs(&iter)));
}

fn gen_read12(rng: &mut Rng, st: &mut Stats, cw: &mut CaseWriter) {
    let n = 1 + rng.below(6) as usize;
    let wellformed = rng.chance(1, 2);
    let mut groups: Vec<(u32, u32, u32)> = vec![];
    let mut cur: u32 = if rng.chance(1, 2) { rng.below(300) as u32 } else { 0xFFF0 + rng.below(0x40) as u32 };
    for _ in 0..n {
        if wellformed {
            let s = cur + rng.below(20) as u32;
            let e = s + rng.below(15) as u32;
            cur = e + 1 + rng.below(3) as u32;
            groups.push((s, e, rng.below(900) as u32));
        } else {
            let s = if rng.chance(1, 6) { 0x10FFF0 + rng.below(32) as u32 } else { rng.below(400) as u32 };
            let e = (s as i64 + rng.range(-5, 25)).max(0) as u32;
            let g = if rng.chance(1, 8) { 0xFFFF_FFF0 + rng.below(16) as u32 } else { rng.below(900) as u32 };
            groups.push((s, e, g));
        }
    }
    let w = wcmap::Cmap12::new(0, groups.iter().map(|(s, e, g)| wcmap::SequentialMapGroup::new(*s, *e, *g)).collect());
    let Ok(Ok(bytes)) = catch(move || dump_table(&w)) else {
        st.count("read12.dump_failed");
        return;
    };
    let Ok(c12) = rcmap::Cmap12::read(FontData::new(&bytes)) else {
        st.count("read12.read_failed");
        return;
    };
    let gs: Vec<(u32, u32, u32)> = c12.groups().iter().map(|g| (g.start_char_code(), g.end_char_code(), g.start_glyph_id())).collect();
    let mut cps: BTreeSet<u32> = BTreeSet::new();
    for (s, e, _) in &gs {
        for d in -1i64..=1 {
            cps.insert((*s as i64 + d).clamp(0, 0xFFFF_FFFF) as u32);
            cps.insert((*e as i64 + d).clamp(0, 0xFFFF_FFFF) as u32);
        }
    }
    for _ in 0..8 {
        cps.insert(rng.below(500) as u32);
    }
    let lookups: Vec<(u32, Option<u32>)> = cps.iter().map(|c| (*c, c12.map_codepoint(*c).map(|g| g.to_u32()))).collect();
    let limits = if rng.chance(1, 2) {
        Some((if rng.chance(1, 2) { 0x10FFFF } else { rng.below(600) as u32 }, rng.below(1000) as u32))
    } else {
        None
    };
    let iter: Vec<(u32, u32)> = match limits {
        Some((mc, gc)) => c12
            .iter_with_limits(rcmap::Cmap12IterLimits { max_char: mc, glyph_count: gc })
            .map(|(c, g)| (c, g.to_u32()))
            .collect(),
        None => c12.iter().map(|(c, g)| (c, g.to_u32())).collect(),
    };
    st.evaluations += cps.len() as u64 + 1;
    st.count(if wellformed { "read12.wellformed" } else { "read12.malformed" });
    st.nontrivial(&format!("r12 {:?} {:?}", gs, limits));
    cw.push(format!(
        "CRead12 {} {} {} {}",
        coq_groups(&gs),
        coq_lookups(&lookups),
        copt(limits.map(|(a, b)| format!("({}, {})", a, b))),
        coq_pairs(&iter)
    ));
}

/// Variation-selector tables: build with the generated write types, read back, compare every
/// encoded answer (default / non-default / absent) through Cmap14 and through skrifa Charmap.
fn gen_var14(rng: &mut Rng, st: &mut Stats, cw: &mut CaseWriter) {
    let nsel = 1 + rng.below(4) as usize;
    let mut sels: BTreeSet<u32> = BTreeSet::new();
    while sels.len() < nsel {
        sels.insert(*rng.pick(&[0xFE00u32, 0xFE01, 0xFE0E, 0xFE0F, 0xE0100, 0xE0101, 0xE01EF, 0x180B]));
    }
    // (selector, default ranges, non-default mappings)
    let mut table: Vec<(u32, Option<Vec<(u32, u8)>>, Option<Vec<(u32, u16)>>)> = vec![];
    for s in &sels {
        let mut used: BTreeSet<u32> = BTreeSet::new();
        let dflt = if rng.chance(2, 3) {
            let mut v = vec![];
            let mut cur = if rng.chance(1, 2) { rng.below(0x3000) as u32 } else { 0xFFF0 + rng.below(0x30) as u32 };
            for _ in 0..rng.below(5) {
                let start = cur + 1 + rng.below(40) as u32;
                let add = *rng.pick(&[0u8, 0, 1, 1, 3, 254, 255]);
                for c in start..=start + add as u32 {
                    used.insert(c);
                }
                v.push((start, add));
                cur = start + add as u32 + 1;
            }
            // a last range ending exactly at U+10FFFF (start + additionalCount + 1 = 0x110000 in the iterators)
            if rng.chance(1, 4) {
                let add = *rng.pick(&[0u8, 1, 254, 255]);
                let start = 0x10FFFF - add as u32;
                if start > cur {
                    for c in start..=0x10FFFF {
                        used.insert(c);
                    }
                    v.push((start, add));
                }
            }
            Some(v)
        } else {
            None
        };
        let nond = if rng.chance(2, 3) {
            let mut m: BTreeMap<u32, u16> = BTreeMap::new();
            for _ in 0..rng.below(8) {
                let c = match rng.below(8) { 0 => 0x10FFFF - rng.below(300) as u32, 1..=4 => rng.below(0x3100) as u32, _ => 0xFFF0 + rng.below(0x140) as u32 };
                if !used.contains(&c) {
                    m.insert(c, 1 + rng.below(2000) as u16);
                }
            }
            Some(m.into_iter().collect::<Vec<_>>())
        } else {
            None
        };
        table.push((*s, dflt, nond));
    }
    let var_selector: Vec<wcmap::VariationSelector> = table
        .iter()
        .map(|(s, d, n)| {
            wcmap::VariationSelector::new(
                Uint24::new(*s),
                d.as_ref().map(|v| wcmap::DefaultUvs::new(v.len() as u32, v.iter().map(|(a, b)| wcmap::UnicodeRange::new(Uint24::new(*a), *b)).collect())),
                n.as_ref().map(|v| wcmap::NonDefaultUvs::new(v.len() as u32, v.iter().map(|(a, b)| wcmap::UvsMapping::new(Uint24::new(*a), *b)).collect())),
            )
        })
        .collect();
    // length is not consulted by the reader; give the true header+records size
    let c14 = wcmap::Cmap14::new(10 + 11 * var_selector.len() as u32, var_selector.len() as u32, var_selector);
    let mut records = vec![wcmap::EncodingRecord::new(wcmap::PlatformId::Unicode, 5, wcmap::CmapSubtable::Format14(c14))];
    // a format-4 companion so that the font has an ordinary map too
    if let Ok(Ok(base)) = catch(|| wcmap::Cmap::from_mappings([('A', GlyphId::new(1))])) {
        records.splice(0..0, base.encoding_records.into_iter().take(1));
    }
    let wc = wcmap::Cmap::new(records);
    let Ok(Ok(bytes)) = catch({
        let wc = wc.clone();
        move || dump_table(&wc)
    }) else {
        st.count("var14.dump_failed");
        return;
    };
    let data = FontData::new(&bytes);
    let cmap = rcmap::Cmap::read(data).unwrap();
    let Some(r14) = cmap.encoding_records().iter().find_map(|r| match r.subtable(data) {
        Ok(rcmap::CmapSubtable::Format14(t)) => Some(t),
        _ => None,
    }) else {
        report(st, json!({"key": "cmap14-missing-after-roundtrip"}));
        return;
    };
    let mut fb = FontBuilder::new();
    fb.add_table(&wc).unwrap();
    fb.add_table(&Maxp::new(3000)).unwrap();
    let fbytes = fb.build();
    let font = FontRef::new(&fbytes).unwrap();
    let charmap = font.charmap();
    // queries: every encoded point, neighbours, absent selectors
    let mut qs: BTreeSet<(u32, u32)> = BTreeSet::new();
    for (s, d, n) in &table {
        for (a, add) in d.iter().flatten() {
            for c in [a.saturating_sub(1), *a, a + *add as u32, a + *add as u32 + 1, a + (*add as u32) / 2] {
                qs.insert((c, *s));
                qs.insert((c, s + 1));
            }
        }
        for (c, _) in n.iter().flatten() {
            for x in [c.saturating_sub(1), *c, c + 1] {
                qs.insert((x, *s));
            }
            qs.insert((*c, 0xFE05));
        }
        qs.insert((0x41, *s));
    }
    let expect = |c: u32, s: u32| -> Option<Option<u32>> {
        let (_, d, n) = table.iter().find(|t| t.0 == s)?;
        if d.iter().flatten().any(|(a, add)| *a <= c && c <= a + *add as u32) {
            return Some(None);
        }
        n.iter().flatten().find(|(x, _)| *x == c).map(|(_, g)| Some(*g as u32))
    };
    let conv = |r: Option<rcmap::MapVariant>| -> Option<Option<u32>> {
        r.map(|v| match v {
            rcmap::MapVariant::UseDefault => None,
            rcmap::MapVariant::Variant(g) => Some(g.to_u32()),
        })
    };
    let mut lookups = vec![];
    for (c, s) in &qs {
        st.evaluations += 1;
        let got = catch(|| r14.map_variant(*c, *s)).map(conv);
        let got2 = catch(|| charmap.map_variant(*c, *s)).map(conv);
        let got3 = catch(|| skrifa::charmap::MappingIndex::new(&font).charmap(&font).map_variant(*c, *s)).map(conv);
        if got3 != got2 {
            report(st, json!({"key": "charmap-constructors-disagree:map_variant", "c": c, "selector": s, "new": format!("{:?}", got2), "index": format!("{:?}", got3)}));
        }
        let exp = expect(*c, *s);
        if got != Ok(exp) || got2 != Ok(exp) {
            report(st, json!({"key": format!("cmap14-map_variant:{:016x}", fnv(&bytes)), "c": c, "selector": s,
                                     "expected": format!("{:?}", exp), "cmap14": format!("{:?}", got), "charmap": format!("{:?}", got2)}));
        }
        lookups.push((*c, *s, got.unwrap_or(None)));
    }
    // enumeration: exactly the encoded triples, selectors ascending, defaults before non-defaults
    let mut exp_iter: Vec<(u32, u32, Option<u32>)> = vec![];
    for (s, d, n) in &table {
        for (a, add) in d.iter().flatten() {
            for c in *a..=*a + *add as u32 {
                exp_iter.push((c, *s, None));
            }
        }
        for (c, g) in n.iter().flatten() {
            exp_iter.push((*c, *s, Some(*g as u32)));
        }
    }
    let tbl = || json!(format!("{:?}", table));
    let it1 = guard(st, "Cmap14::iter", &tbl, || r14.iter().map(|(c, s, v)| (c, s, conv(Some(v)).unwrap())).collect::<Vec<(u32, u32, Option<u32>)>>());
    let it2 = guard(st, "Charmap::variant_mappings", &tbl, || charmap.variant_mappings().map(|(c, s, v)| (c, s, conv(Some(v)).unwrap())).collect::<Vec<(u32, u32, Option<u32>)>>());
    let it3 = guard(st, "MappingIndex::charmap().variant_mappings", &tbl, || skrifa::charmap::MappingIndex::new(&font).charmap(&font).variant_mappings().map(|(c, s, v)| (c, s, conv(Some(v)).unwrap())).collect::<Vec<(u32, u32, Option<u32>)>>());
    if it3 != it2 {
        report(st, json!({"key": "charmap-constructors-disagree:variant_mappings", "table": tbl()}));
    }
    for (api, got) in [("Cmap14::iter", &it1), ("Charmap::variant_mappings", &it2)] {
        if let Some(got) = got {
            if *got != exp_iter {
                let first = got.iter().zip(exp_iter.iter()).position(|(a, b)| a != b);
                report(st, json!({"key": format!("cmap14-iter:{:016x}", fnv(&bytes)), "api": api, "expected_len": exp_iter.len(), "got_len": got.len(),
                                  "first_difference_at": first, "table": format!("{:?}", table)}));
            }
        }
    }
    st.add("var14.enumerated_triples", exp_iter.len() as u64);
    for (_, d, _) in &table {
        for (a, add) in d.iter().flatten() {
            st.count(&format!("var14.additional_count.{}", match add { 0 => "0", 1 => "1", 254 => "254", 255 => "255", _ => "other" }));
            if a + *add as u32 == 0x10FFFF {
                st.count("var14.range_ends_at_10FFFF");
            }
        }
    }
    let got_iter = it1.unwrap_or_default();
    st.count("var14.tables");
    st.nontrivial(&format!("v14 {:?}", table));
    let sels_term = clist(table.iter(), |(s, d, n)| {
        format!(
            "({}, {}, {})",
            s,
            copt(d.as_ref().map(|v| clist(v.iter(), |(a, b)| format!("({}, {})", a, b)))),
            copt(n.as_ref().map(|v| clist(v.iter(), |(a, b)| format!("({}, {})", a, b))))
        )
    });
    let lk = clist(lookups.iter(), |(c, s, r)| {
        format!("({}, {}, {})", c, s, copt(r.map(|v| copt(v.map(|g| g.to_string())))))
    });
    let it = clist(got_iter.iter(), |(c, s, v)| format!("({}, {}, {})", c, s, copt(v.map(|g| g.to_string()))));
    cw.push(format!("CVar14wf {} {} {}", sels_term, lk, it));
}

/// the format-14 subtable of a real font: decoded to the model's table, every encoded point and its neighbours queried
fn real_var14(font_bytes: &[u8], name: &str, st: &mut Stats, cw: &mut CaseWriter) {
    let font = FontRef::new(font_bytes).unwrap();
    let cmap = font.cmap().unwrap();
    let data = cmap.offset_data();
    let Some(r14) = cmap.encoding_records().iter().find_map(|r| match r.subtable(data) {
        Ok(rcmap::CmapSubtable::Format14(t)) => Some(t),
        _ => None,
    }) else {
        report(st, json!({"key": format!("real-var14-missing:{}", name)}));
        return;
    };
    let charmap = font.charmap();
    let mut table: Vec<(u32, Option<Vec<(u32, u8)>>, Option<Vec<(u32, u16)>>)> = vec![];
    for rec in r14.var_selector() {
        let d = rec.default_uvs(r14.offset_data()).and_then(|r| r.ok()).map(|d| {
            d.ranges().iter().map(|r| (r.start_unicode_value().to_u32(), r.additional_count())).collect::<Vec<_>>()
        });
        let n = rec.non_default_uvs(r14.offset_data()).and_then(|r| r.ok()).map(|n| {
            n.uvs_mapping().iter().map(|m| (m.unicode_value().to_u32(), m.glyph_id())).collect::<Vec<_>>()
        });
        table.push((rec.var_selector().to_u32(), d, n));
    }
    let mut qs: BTreeSet<(u32, u32)> = BTreeSet::new();
    for (s, d, n) in &table {
        for sel in [s.saturating_sub(1), *s, s + 1] {
            for (a, add) in d.iter().flatten() {
                for c in [a.saturating_sub(1), *a, a + *add as u32, a + *add as u32 + 1, a + *add as u32 + 2] {
                    qs.insert((c, sel));
                }
            }
            for (c, _) in n.iter().flatten() {
                for x in [c.saturating_sub(1), *c, c + 1] {
                    qs.insert((x, sel));
                }
            }
        }
    }
    let expect = |c: u32, s: u32| -> Option<Option<u32>> {
        let (_, d, n) = table.iter().find(|t| t.0 == s)?;
        if d.iter().flatten().any(|(a, add)| *a <= c && c <= a + *add as u32) {
            return Some(None);
        }
        n.iter().flatten().find(|(x, _)| *x == c).map(|(_, g)| Some(*g as u32))
    };
    let conv = |r: Option<rcmap::MapVariant>| -> Option<Option<u32>> {
        r.map(|v| match v {
            rcmap::MapVariant::UseDefault => None,
            rcmap::MapVariant::Variant(g) => Some(g.to_u32()),
        })
    };
    let mut lookups = vec![];
    for (c, s) in &qs {
        st.evaluations += 1;
        let got = catch(|| r14.map_variant(*c, *s)).map(conv);
        let got2 = catch(|| charmap.map_variant(*c, *s)).map(conv);
        let got3 = catch(|| skrifa::charmap::MappingIndex::new(&font).charmap(&font).map_variant(*c, *s)).map(conv);
        if got3 != got2 {
            report(st, json!({"key": "charmap-constructors-disagree:map_variant", "c": c, "selector": s, "new": format!("{:?}", got2), "index": format!("{:?}", got3)}));
        }
        let exp = expect(*c, *s);
        if got != Ok(exp) || got2 != Ok(exp) {
            report(st, json!({"key": format!("cmap14-map_variant:{}", name), "c": c, "selector": s,
                              "expected": format!("{:?}", exp), "cmap14": format!("{:?}", got), "charmap": format!("{:?}", got2)}));
        }
        lookups.push((*c, *s, got.unwrap_or(None)));
    }
    let mut exp_iter: Vec<(u32, u32, Option<u32>)> = vec![];
    for (s, d, n) in &table {
        for (a, add) in d.iter().flatten() {
            for c in *a..=*a + *add as u32 {
                exp_iter.push((c, *s, None));
            }
        }
        for (c, g) in n.iter().flatten() {
            exp_iter.push((*c, *s, Some(*g as u32)));
        }
    }
    let tbl = || json!(name);
    let it1 = guard(st, "Cmap14::iter", &tbl, || r14.iter().map(|(c, s, v)| (c, s, conv(Some(v)).unwrap())).collect::<Vec<(u32, u32, Option<u32>)>>());
    let it2 = guard(st, "Charmap::variant_mappings", &tbl, || charmap.variant_mappings().map(|(c, s, v)| (c, s, conv(Some(v)).unwrap())).collect::<Vec<(u32, u32, Option<u32>)>>());
    let it3 = guard(st, "MappingIndex::charmap().variant_mappings", &tbl, || skrifa::charmap::MappingIndex::new(&font).charmap(&font).variant_mappings().map(|(c, s, v)| (c, s, conv(Some(v)).unwrap())).collect::<Vec<(u32, u32, Option<u32>)>>());
    if it3 != it2 {
        report(st, json!({"key": "charmap-constructors-disagree:variant_mappings", "table": tbl()}));
    }
    if it1.as_ref() != Some(&exp_iter) || it2.as_ref() != Some(&exp_iter) {
        report(st, json!({"key": format!("cmap14-iter:{}", name), "expected_len": exp_iter.len()}));
    }
    let got_iter = it1.unwrap_or_default();
    st.count("var14.real_font_tables");
    st.add("var14.real_font_queries", qs.len() as u64);
    let sels_term = clist(table.iter(), |(s, d, n)| {
        format!(
            "({}, {}, {})",
            s,
            copt(d.as_ref().map(|v| clist(v.iter(), |(a, b)| format!("({}, {})", a, b)))),
            copt(n.as_ref().map(|v| clist(v.iter(), |(a, b)| format!("({}, {})", a, b))))
        )
    });
    let lk = clist(lookups.iter(), |(c, s, r)| format!("({}, {}, {})", c, s, copt(r.map(|v| copt(v.map(|g| g.to_string()))))));
    let it = clist(got_iter.iter(), |(c, s, v)| format!("({}, {}, {})", c, s, copt(v.map(|g| g.to_string()))));
    cw.push(format!("CVar14wf {} {} {}", sels_term, lk, it));
}

/// Hand-built lists of encoding records — (0,3)/(0,4)/(3,1)/(3,10)/(0,5)/(3,0)/(1,0)/(2,x) in arbitrary order, duplicates pointing at
/// different subtables, unsupported formats — and every Charmap observation through both constructors.
fn gen_select(rng: &mut Rng, st: &mut Stats, cw: &mut CaseWriter) {
    #[derive(Clone)]
    enum Sub {
        F4(Vec<(u16, u16, i16)>),          // delta segments (start, end, delta)
        F12(Vec<(u32, u32, u32)>),
        F14(Vec<(u32, Option<Vec<(u32, u8)>>, Option<Vec<(u32, u16)>>)>),
        Other,
    }
    let n = 1 + rng.below(6) as usize;
    let kinds: &[(u16, u16)] = &[(0, 3), (0, 4), (3, 1), (3, 10), (0, 5), (3, 0), (1, 0), (2, 1), (0, 0), (0, 6), (4, 0)];
    let mut recs: Vec<(u16, u16, Sub)> = vec![];
    for k in 0..n {
        let (p, e) = if rng.chance(3, 4) { kinds[rng.below(5) as usize] } else { *rng.pick(kinds) };
        // every subtable distinguishable: glyph ids depend on the record position
        let base = 10 + 100 * k as u32;
        let symbol = (p, e) == (3, 0);
        let sub = match rng.below(10) {
            0 => Sub::Other,
            1 | 2 if (p, e) == (0, 5) || rng.chance(1, 3) => {
                let s0 = *rng.pick(&[0xFE00u32, 0xFE0F, 0xE0100]);
                Sub::F14(vec![(s0, Some(vec![(0x30 + k as u32, 1)]), Some(vec![(0x41, base as u16), (0x1F600, (base + 1) as u16)])),
                              (s0 + 1, None, Some(vec![(0x42, (base + 2) as u16)]))])
            }
            3..=6 => {
                let s = if symbol { 0xF020u16 + rng.below(8) as u16 } else { 0x20 + rng.below(40) as u16 };
                let mut segs = vec![(s, s + 5 + rng.below(10) as u16, (base as i32 - s as i32) as i16)];
                if rng.chance(1, 2) {
                    segs.push((0x2000 + 16 * k as u16, 0x2003 + 16 * k as u16, (base as i32 + 50 - 0x2000 - 16 * k as i32) as i16));
                }
                if rng.chance(1, 4) {
                    segs.push((0x40, 0x40, -0x40)); // maps U+0040 to .notdef explicitly
                }
                segs.sort();
                Sub::F4(segs)
            }
            _ => {
                let mut g = vec![(0x30 + rng.below(20) as u32, 0x60, base)];
                if rng.chance(2, 3) {
                    g.push((0x1F600 + 16 * k as u32, 0x1F604 + 16 * k as u32, base + 60));
                }
                if rng.chance(1, 4) {
                    g.push((0x10FFFE, 0x10FFFF, base + 70));
                }
                Sub::F12(g)
            }
        };
        recs.push((p, e, sub));
    }
    if rng.chance(1, 3) && recs.len() >= 2 {
        // a duplicate (platform, encoding) pointing at a different subtable
        let i = rng.below(recs.len() as u64) as usize;
        let j = rng.below(recs.len() as u64) as usize;
        let (p, e, _) = recs[i].clone();
        recs[j].0 = p;
        recs[j].1 = e;
    }
    let plat = |p: u16| match p {
        0 => wcmap::PlatformId::Unicode,
        1 => wcmap::PlatformId::Macintosh,
        2 => wcmap::PlatformId::ISO,
        3 => wcmap::PlatformId::Windows,
        _ => wcmap::PlatformId::Custom,
    };
    let wrecs: Vec<wcmap::EncodingRecord> = recs
        .iter()
        .map(|(p, e, sub)| {
            let st = match sub {
                Sub::F4(segs) => {
                    let mut ends: Vec<u16> = segs.iter().map(|s| s.1).collect();
                    let mut starts: Vec<u16> = segs.iter().map(|s| s.0).collect();
                    let mut deltas: Vec<i16> = segs.iter().map(|s| s.2).collect();
                    ends.push(0xFFFF);
                    starts.push(0xFFFF);
                    deltas.push(1);
                    let n = ends.len();
                    wcmap::CmapSubtable::format_4(0, ends, starts, deltas, vec![0; n], vec![])
                }
                Sub::F12(g) => wcmap::CmapSubtable::format_12(0, g.iter().map(|(a, b, c)| wcmap::SequentialMapGroup::new(*a, *b, *c)).collect()),
                Sub::F14(t) => {
                    let vs: Vec<wcmap::VariationSelector> = t
                        .iter()
                        .map(|(s, d, n)| {
                            wcmap::VariationSelector::new(
                                Uint24::new(*s),
                                d.as_ref().map(|v| wcmap::DefaultUvs::new(v.len() as u32, v.iter().map(|(a, b)| wcmap::UnicodeRange::new(Uint24::new(*a), *b)).collect())),
                                n.as_ref().map(|v| wcmap::NonDefaultUvs::new(v.len() as u32, v.iter().map(|(a, b)| wcmap::UvsMapping::new(Uint24::new(*a), *b)).collect())),
                            )
                        })
                        .collect();
                    wcmap::CmapSubtable::format_14(10 + 11 * vs.len() as u32, vs.len() as u32, vs)
                }
                Sub::Other => wcmap::CmapSubtable::format_0(0, (0..=255u8).collect()),
            };
            wcmap::EncodingRecord::new(plat(*p), *e, st)
        })
        .collect();
    let wc = wcmap::Cmap::new(wrecs);
    let ng: u16 = *rng.pick(&[65535u16, 700, 300, 75]);
    let desc = format!("{:?}", recs.iter().map(|(p, e, s)| (p, e, match s { Sub::F4(_) => 4, Sub::F12(_) => 12, Sub::F14(_) => 14, Sub::Other => 0 })).collect::<Vec<_>>());
    let input = || json!(desc.clone());
    let Some(fbytes) = guard(st, "FontBuilder", &input, || {
        let mut fb = FontBuilder::new();
        fb.add_table(&wc).unwrap();
        fb.add_table(&Maxp::new(ng)).unwrap();
        fb.build()
    }) else {
        return;
    };
    let font = FontRef::new(&fbytes).unwrap();
    // decoded records, as read back
    let cmap = font.cmap().unwrap();
    let mut terms: Vec<String> = vec![];
    for rec in cmap.encoding_records() {
        let stt = match rec.subtable(cmap.offset_data()) {
            Ok(rcmap::CmapSubtable::Format4(c4)) => format!("(F4 {})", coq_t4(&t4_of(&c4, true))),
            Ok(rcmap::CmapSubtable::Format12(c12)) => format!(
                "(F12 {})",
                coq_groups(&c12.groups().iter().map(|g| (g.start_char_code(), g.end_char_code(), g.start_glyph_id())).collect::<Vec<_>>())
            ),
            Ok(rcmap::CmapSubtable::Format14(r14)) => {
                let mut t = vec![];
                for r in r14.var_selector() {
                    let d = r.default_uvs(r14.offset_data()).and_then(|x| x.ok()).map(|d| d.ranges().iter().map(|r| (r.start_unicode_value().to_u32(), r.additional_count())).collect::<Vec<_>>());
                    let n = r.non_default_uvs(r14.offset_data()).and_then(|x| x.ok()).map(|n| n.uvs_mapping().iter().map(|m| (m.unicode_value().to_u32(), m.glyph_id())).collect::<Vec<_>>());
                    t.push((r.var_selector().to_u32(), d, n));
                }
                format!(
                    "(F14 {})",
                    clist(t.iter(), |(s, d, n)| format!(
                        "({}, {}, {})",
                        s,
                        copt(d.as_ref().map(|v| clist(v.iter(), |(a, b)| format!("({}, {})", a, b)))),
                        copt(n.as_ref().map(|v| clist(v.iter(), |(a, b)| format!("({}, {})", a, b))))
                    ))
                )
            }
            _ => "FOther".to_string(),
        };
        terms.push(format!("({}, {}, {})", rec.platform_id() as u16, rec.encoding_id(), stt));
    }
    let cps: Vec<u32> = {
        let mut v: BTreeSet<u32> = [0u32, 0x20, 0x25, 0x30, 0x3F, 0x40, 0x41, 0x42, 0x50, 0x60, 0x61, 0xFF, 0x2000, 0x2001, 0x2010, 0x2021, 0x2033, 0xF020, 0xF025, 0xF041,
                                    0xFFFF, 0x1F600, 0x1F604, 0x1F611, 0x1F623, 0x1F640, 0x10FFFE, 0x10FFFF].into_iter().collect();
        for _ in 0..6 {
            v.insert(rng.below(0x80) as u32);
        }
        v.into_iter().collect()
    };
    let vqs: Vec<(u32, u32)> = vec![(0x41, 0xFE00), (0x41, 0xFE0F), (0x41, 0xE0100), (0x42, 0xFE01), (0x42, 0xFE10), (0x42, 0xE0101), (0x30, 0xFE00), (0x31, 0xFE0F), (0x32, 0xE0100),
                                    (0x33, 0xFE00), (0x35, 0xFE0F), (0x1F600, 0xFE00), (0x1F600, 0xE0100), (0x43, 0xFE00)];
    let conv = |r: Option<rcmap::MapVariant>| -> Option<Option<u32>> {
        r.map(|v| match v {
            rcmap::MapVariant::UseDefault => None,
            rcmap::MapVariant::Variant(g) => Some(g.to_u32()),
        })
    };
    type Obs = (Vec<(u32, Option<u32>)>, Vec<(u32, u32)>, (bool, bool, bool), Vec<(u32, u32, Option<Option<u32>>)>);
    let observe = |cm: &skrifa::charmap::Charmap| -> Obs {
        (
            cps.iter().map(|c| (*c, cm.map(*c).map(|g| g.to_u32()))).collect(),
            cm.mappings().map(|(c, g)| (c, g.to_u32())).collect(),
            (cm.has_map(), cm.is_symbol(), cm.has_variant_map()),
            vqs.iter().map(|(c, s)| (*c, *s, conv(cm.map_variant(*c, *s)))).collect(),
        )
    };
    let Some(o1) = guard(st, "Charmap::new", &input, || observe(&font.charmap())) else { return };
    let Some(o2) = guard(st, "MappingIndex::new().charmap()", &input, || observe(&skrifa::charmap::MappingIndex::new(&font).charmap(&font))) else { return };
    st.evaluations += 2 * (cps.len() + vqs.len() + 2) as u64;
    if o1 != o2 {
        report(st, json!({"key": "charmap-constructors-disagree:records", "records": desc,
                          "Charmap::new": format!("{:?}", (&o1.2, o1.1.len(), o1.0.iter().filter(|x| x.1.is_some()).count())),
                          "MappingIndex::charmap": format!("{:?}", (&o2.2, o2.1.len(), o2.0.iter().filter(|x| x.1.is_some()).count()))}));
    }
    st.count(&format!("select.records.{}", recs.len()));
    if o1.2 .1 {
        st.count("select.symbol_chosen");
    }
    if o1.2 .2 {
        st.count("select.variant_chosen");
    }
    if !o1.2 .0 {
        st.count("select.no_map");
    }
    st.nontrivial(&format!("sel {}", desc));
    // the model is fed from the cacheable constructor
    let (lk, maps, (hm, sy, hv), vl) = o2;
    cw.push(format!(
        "CSelect {} {} {} {} {} {} {} {}",
        clist(terms.iter(), |t| t.clone()),
        ng,
        coq_lookups(&lk),
        coq_pairs(&maps),
        cbool(hm),
        cbool(sy),
        cbool(hv),
        clist(vl.iter(), |(c, s, r)| format!("({}, {}, {})", c, s, copt(r.map(|v| copt(v.map(|g| g.to_string()))))))
    ));
}

fn main() {
    install_panic_hook();
    let args: Vec<String> = std::env::args().collect();
    let thorough = tier_is_thorough(&args);
    let seed = seed_from_env();
    let dir = out_dir(&args, "C08");
    let mut rng = Rng::new(seed);
    let mut st = Stats::new();
    let mut cw = CaseWriter::new(
        &dir,
        "From Coq Require Import ZArith List. Import ListNotations. Open Scope Z_scope.\nFrom FV Require Import Lib.Cases C08.Model.",
        "Case",
        "check_case",
        if thorough { 120 } else { 110 },
    );

    // ---------- A. small mappings: model correspondence + full oracle ----------
    let n_small = if thorough { 9000 } else { 1300 };
    for k in 0..n_small {
        let stream = if k % 25 == 7 { Stream::F2 } else { Stream::Main };
        let max_pairs = *rng.pick(&[1usize, 2, 3, 6, 12, 25, 40, 60]);
        let mut input = gen_mapping(&mut rng, max_pairs, stream, &mut st);
        let mut valid = true;
        // occasionally: exact duplicates (still valid), conflicts, gid 0, 32-bit gid (outside the property's domain)
        match rng.below(40) {
            0 | 1 => {
                let p = *rng.pick(&input);
                input.push(p);
                st.count("gen.duplicate_pair");
            }
            2 | 3 => {
                let p = *rng.pick(&input);
                input.push((p.0, p.1 % 65534 + 1));
                valid = false;
                st.count("gen.conflict");
            }
            4 => {
                let i = rng.below(input.len() as u64) as usize;
                input[i].1 = 0;
                valid = false;
                st.count("gen.gid_zero");
            }
            5 => {
                let i = rng.below(input.len() as u64) as usize;
                input[i].1 = *rng.pick(&[0x10000u32, 0xFFFF_FFFF, 70000]);
                valid = false;
                st.count("gen.gid_32bit");
            }
            _ => {}
        }
        rng.shuffle(&mut input);
        let max_gid = input.iter().map(|p| p.1).max().unwrap_or(1);
        let num_glyphs = if valid { (max_gid + 1 + rng.below(3) as u32).min(65535) as u16 } else { 65535 };
        let out = build(&input, num_glyphs, &mut st);
        st.evaluations += 1;
        st.count(match stream {
            Stream::Main => "build.small.main",
            Stream::F2 => "build.small.f2_stream",
        });
        match &out {
            Outcome::Built(b) => {
                st.count("build.ok");
                segment_stats(b, &mut st);
                if valid {
                    { let keep = key_of(&input); if let Err(p) = catch(std::panic::AssertUnwindSafe(|| oracle_built(&input, b, &mut st, k % 4 == 0 || thorough))) { report(&mut st, json!({"key": panic_key(&p), "what": "panic while checking a built table", "panic": p, "input_key": keep})); } }
                }
            }
            Outcome::Conflict(_) => {
                st.count("build.conflict");
                if valid {
                    report(&mut st, json!({"key": format!("spurious-conflict:{}", key_of(&input)), "input": input}));
                }
            }
            Outcome::Panic(p) | Outcome::DumpPanic(p) => {
                st.count("build.panic");
                if valid {
                    if f2_risky(&input) {
                        report(&mut st, json!({"key": "F-2:cmap4-delta-i16-panic",
                            "what": "Cmap::from_mappings panics for a valid mapping with gid - cp in [32768, 65535] (write-fonts/src/tables/cmap.rs:50-51)",
                            "input": input, "panic": p}));
                    } else {
                        report(&mut st, json!({"key": format!("build-panic:{}", key_of(&input)), "input": input, "panic": p}));
                    }
                }
            }
        }
        if !valid {
            if let Outcome::Built(_) = &out {
                if input.iter().any(|p| input.iter().any(|q| q.0 == p.0 && q.1 != p.1)) {
                    report(&mut st, json!({"key": format!("conflict-accepted:{}", key_of(&input)), "input": input}));
                }
            }
        }
        st.nontrivial(&format!("b {:?}", input));
        st.sample(json!({"input": input.iter().take(10).collect::<Vec<_>>(), "outcome": match &out {
            Outcome::Built(b) => format!("built records={:?} segs={}", b.records, b.f4.as_ref().map(|t| t.endc.len()).unwrap_or(0)),
            Outcome::Panic(p) => format!("panic {}", p), Outcome::DumpPanic(p) => format!("dump panic {}", p), Outcome::Conflict(c) => c.clone() }}));
        if let Some(term) = guard(&mut st, "reading back for the model case", &|| json!(input), || impl_outcome_term(&input, &out, &mut rng)) {
            cw.push(format!("CBuild {} {}", coq_pairs(&input), term));
        }
    }

    // ---------- B. large mappings: oracle only (full BMP sweep) ----------
    let n_large = if thorough { 1500 } else { 220 };
    for k in 0..n_large {
        let max_pairs = *rng.pick(&[100usize, 300, 1000, 3000]);
        let mut input = gen_mapping(&mut rng, max_pairs, Stream::Main, &mut st);
        // add a dense block / many isolated points now and then
        if k % 5 == 0 {
            let mut m: BTreeMap<u32, u32> = input.iter().cloned().collect();
            let base = rng.below(0x8000) as u32;
            let n = 200 + rng.below(1500) as u32;
            for i in 0..n {
                let c = base + i * 3;
                if is_char(c) && c <= 0xFFFF {
                    m.entry(c).or_insert(1 + (i * 7) % 30000);
                }
            }
            input = m.into_iter().collect();
        }
        rng.shuffle(&mut input);
        let max_gid = input.iter().map(|p| p.1).max().unwrap_or(1);
        let out = build(&input, (max_gid + 1).min(65535) as u16, &mut st);
        st.evaluations += 1;
        st.count("build.large");
        match &out {
            Outcome::Built(b) => {
                segment_stats(b, &mut st);
                { let keep = key_of(&input); if let Err(p) = catch(std::panic::AssertUnwindSafe(|| oracle_built(&input, b, &mut st, true))) { report(&mut st, json!({"key": panic_key(&p), "what": "panic while checking a built table", "panic": p, "input_key": keep})); } }
            }
            Outcome::Conflict(_) => report(&mut st, json!({"key": format!("spurious-conflict:{}", key_of(&input))})),
            Outcome::Panic(p) | Outcome::DumpPanic(p) => {
                let key = if f2_risky(&input) && !p.contains("cmap4 overflow") { "F-2:cmap4-delta-i16-panic".to_string() } else { format!("build-panic:{}", key_of(&input)) };
                report(&mut st, json!({"key": key, "pairs": input.len(), "panic": p}))
            }
        }
        st.nontrivial(&format!("B {:?}", input));
    }

    // ---------- C. fixed probes for the two catalogued defects ----------
    {
        // F-2 witness of DESIGN.md
        let input: Pairs = vec![(0x41, 40000)];
        st.evaluations += 1;
        match build(&input, 40001, &mut st) {
            Outcome::Built(b) => {
                st.count("probe.F-2.not_reproduced");
                { let keep = key_of(&input); if let Err(p) = catch(std::panic::AssertUnwindSafe(|| oracle_built(&input, &b, &mut st, true))) { report(&mut st, json!({"key": panic_key(&p), "what": "panic while checking a built table", "panic": p, "input_key": keep})); } }
            }
            Outcome::Panic(p) | Outcome::DumpPanic(p) => {
                st.count("probe.F-2.reproduced");
                report(&mut st, json!({"key": "F-2:cmap4-delta-i16-panic",
                    "what": "Cmap::from_mappings([('A', GlyphId 40000)]) panics (write-fonts/src/tables/cmap.rs:50-51)", "input": input, "panic": p}));
            }
            Outcome::Conflict(c) => report(&mut st, json!({"key": "probe-F-2-conflict", "c": c})),
        }
        { let out_t = build(&input, 40001, &mut st); if let Some(term) = guard(&mut st, "reading back for the model case", &|| json!(input.iter().take(80).collect::<Vec<_>>()), || impl_outcome_term(&input, &out_t, &mut rng)) { cw.push(format!("CBuild {} {}", coq_pairs(&input), term)); } }
        // former finding charmap-mappings-drops-U+10FFFF: must now enumerate the pair (oracle_built reports under that key)
        for input in [vec![(0x10FFFFu32, 5u32)], vec![(0x41, 1), (0x10FFFE, 7), (0x10FFFF, 8)]] {
            st.evaluations += 1;
            match build(&input, 9, &mut st) {
                Outcome::Built(b) => {
                    st.count("probe.U+10FFFF.built");
                    { let keep = key_of(&input); if let Err(p) = catch(std::panic::AssertUnwindSafe(|| oracle_built(&input, &b, &mut st, true))) { report(&mut st, json!({"key": panic_key(&p), "what": "panic while checking a built table", "panic": p, "input_key": keep})); } }
                }
                _ => report(&mut st, json!({"key": "probe-U+10FFFF-not-built", "input": input})),
            }
            { let out_t = build(&input, 9, &mut st); if let Some(term) = guard(&mut st, "reading back for the model case", &|| json!(input.iter().take(80).collect::<Vec<_>>()), || impl_outcome_term(&input, &out_t, &mut rng)) { cw.push(format!("CBuild {} {}", coq_pairs(&input), term)); } }
        }
        // more fixed inputs for the former F-2: delta exactly 32768, 65535, a run, and next to a range-offset segment
        for input in [vec![(0u32, 32768u32)], vec![(0, 65535)], vec![(1, 65535), (2, 1)], vec![(10, 40010), (11, 40011), (12, 40012)],
                      vec![(10, 40012), (11, 40011), (12, 40010), (13, 50000)]] {
            st.evaluations += 1;
            let ng = (input.iter().map(|p| p.1).max().unwrap() + 1).min(65535) as u16;
            match build(&input, ng, &mut st) {
                Outcome::Built(b) => {
                    st.count("probe.F-2.corpus_built");
                    { let keep = key_of(&input); if let Err(p) = catch(std::panic::AssertUnwindSafe(|| oracle_built(&input, &b, &mut st, true))) { report(&mut st, json!({"key": panic_key(&p), "what": "panic while checking a built table", "panic": p, "input_key": keep})); } }
                }
                Outcome::Panic(p) | Outcome::DumpPanic(p) => report(&mut st, json!({"key": "F-2:cmap4-delta-i16-panic", "input": input, "panic": p})),
                Outcome::Conflict(c) => report(&mut st, json!({"key": "probe-F-2-conflict", "c": c})),
            }
            { let out_t = build(&input, ng, &mut st); if let Some(term) = guard(&mut st, "reading back for the model case", &|| json!(input.iter().take(80).collect::<Vec<_>>()), || impl_outcome_term(&input, &out_t, &mut rng)) { cw.push(format!("CBuild {} {}", coq_pairs(&input), term)); } }
        }
        // F-9: 9000 isolated BMP code points (format 4 would need 9001 segments = 72 024 bytes)
        let input: Pairs = (0..9000u32).map(|i| (0x100 + 3 * i, 1 + i)).collect();
        st.evaluations += 1;
        match build(&input, 9002, &mut st) {
            Outcome::Built(b) => {
                st.count("probe.F-9.not_reproduced");
                { let keep = key_of(&input); if let Err(p) = catch(std::panic::AssertUnwindSafe(|| oracle_built(&input, &b, &mut st, true))) { report(&mut st, json!({"key": panic_key(&p), "what": "panic while checking a built table", "panic": p, "input_key": keep})); } }
            }
            Outcome::Panic(p) | Outcome::DumpPanic(p) => {
                st.count("probe.F-9.reproduced");
                report(&mut st, json!({"key": "F-9:cmap4-length-overflow-panic",
                    "what": "a valid BMP mapping of 9000 isolated code points panics (cmap4 overflow) instead of returning an error or a format-12-only cmap",
                    "pairs": input.len(), "panic": p}));
            }
            Outcome::Conflict(c) => report(&mut st, json!({"key": "probe-F-9-conflict", "c": c})),
        }
        // the sharp limit (Coq: Fits4.fits4_8188 / fits4_8189) and an id_range_offset overflow inside from_mappings;
        // the panicking ones also go to the model (fits4 <-> real panic sites)
        let ro_overflow: Pairs = (0..32800u32).map(|i| (i, 40000 - i)).chain((0..3u32).map(|i| (40000 + i, 9 - i))).collect();
        for (name, pieces, input) in [("isolated_8189", "[(8189%nat, 256, 3, 1, 1)]", (0..8189u32).map(|i| (0x100 + 3 * i, 1 + i)).collect::<Pairs>()),
                                      ("range_offset_overflow", "[(32800%nat, 0, 1, 40000, (-1)); (3%nat, 40000, 1, 9, (-1))]", ro_overflow)] {
            st.evaluations += 1;
            let out = build(&input, 40001, &mut st);
            match &out {
                Outcome::Built(_) => report(&mut st, json!({"key": format!("probe-{}-built", name)})),
                Outcome::Panic(p) | Outcome::DumpPanic(p) => {
                    st.count(&format!("probe.{}.{}", name, if matches!(out, Outcome::Panic(_)) { "panic_in_from_mappings" } else { "panic_in_dump_table" }));
                    report(&mut st, json!({"key": "F-9:cmap4-length-overflow-panic", "what": format!("{}: valid BMP mapping beyond the format-4 limits panics instead of returning an error", name),
                                           "pairs": input.len(), "panic": p}));
                }
                Outcome::Conflict(c) => report(&mut st, json!({"key": format!("probe-{}-conflict", name), "c": c})),
            }
            if !matches!(out, Outcome::Built(_) | Outcome::Conflict(_)) {
                cw.push(format!("CBuildGen {} {}", pieces, cbool(matches!(out, Outcome::Panic(_)))));
            }
        }
        // the largest isolated-point mapping that fits: 8188 segments + sentinel = 16 + 8*8189 = 65528 bytes
        let input: Pairs = (0..8188u32).map(|i| (0x100 + 3 * i, 1 + i)).collect();
        st.evaluations += 1;
        match build(&input, 9002, &mut st) {
            Outcome::Built(b) => {
                st.count("probe.max_segments.built");
                { let keep = key_of(&input); if let Err(p) = catch(std::panic::AssertUnwindSafe(|| oracle_built(&input, &b, &mut st, true))) { report(&mut st, json!({"key": panic_key(&p), "what": "panic while checking a built table", "panic": p, "input_key": keep})); } }
            }
            Outcome::Panic(p) | Outcome::DumpPanic(p) => {
                report(&mut st, json!({"key": "probe-max-segments-panic", "panic": p}));
            }
            Outcome::Conflict(c) => report(&mut st, json!({"key": "probe-max-segments-conflict", "c": c})),
        }
    }

    // ---------- D. reader-only cases on arbitrary decoded arrays; variation selectors ----------
    let n_read = if thorough { 3000 } else { 450 };
    for _ in 0..n_read {
        if let Err(p) = catch(std::panic::AssertUnwindSafe(|| gen_read4(&mut rng, &mut st, &mut cw))) {
            report(&mut st, json!({"key": panic_key(&p), "what": "panic in stream gen_read4 (input reproducible from the seed)", "panic": p}));
        }
    }
    for _ in 0..n_read * 2 / 3 {
        if let Err(p) = catch(std::panic::AssertUnwindSafe(|| gen_read12(&mut rng, &mut st, &mut cw))) {
            report(&mut st, json!({"key": panic_key(&p), "what": "panic in stream gen_read12 (input reproducible from the seed)", "panic": p}));
        }
    }
    for _ in 0..n_read / 2 {
        if let Err(p) = catch(std::panic::AssertUnwindSafe(|| gen_var14(&mut rng, &mut st, &mut cw))) {
            report(&mut st, json!({"key": panic_key(&p), "what": "panic in stream gen_var14 (input reproducible from the seed)", "panic": p}));
        }
    }
    for _ in 0..n_read {
        if let Err(p) = catch(std::panic::AssertUnwindSafe(|| gen_select(&mut rng, &mut st, &mut cw))) {
            report(&mut st, json!({"key": panic_key(&p), "what": "panic in stream gen_select (input reproducible from the seed)", "panic": p}));
        }
    }
    if let Err(p) = catch(std::panic::AssertUnwindSafe(|| real_var14(font_test_data::CMAP14_FONT1, "cmap14_font1", &mut st, &mut cw))) {
        report(&mut st, json!({"key": panic_key(&p), "what": "panic on cmap14_font1.ttf", "panic": p}));
    }

    let shards = cw.finish();
    st.v.insert("shards".into(), shards.into());
    st.v.insert("model_cases".into(), cw.len().into());
    st.write(&dir, "structured mappings (1-6 pieces: ordered / reversed / shuffled / broken / sandwich gid runs, dense or sparse, anchored at 0, 0x7FFF/0x8000, surrogate edges, 0xFFF0..0x10001, supplementary planes, U+10FFFF; first gid small, random, or placing gid-cp next to +-32768), shuffled input order, duplicates/conflicts/gid 0/32-bit gids as out-of-domain probes; every built table swept over all 65 536 BMP code points (every 4th small case, every large case) plus a boundary set; reader-only cases over arbitrary decoded format-4/12 arrays incl. malformed; format-14 tables. non-trivial = distinct input");
    println!("cases={} shards={} oracle_failures={}", cw.len(), shards, st.oracle_failures.len());
}
