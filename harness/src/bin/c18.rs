//! C18 harness: IFT patch application (table-keyed, glyph-keyed, PatchGroup bookkeeping).
//!
//! Base fonts (glyf+loca short/long, raw tables, IFT/IFTX format-2 mapping tables) and patches are
//! authored byte by byte; the REAL code is driven through the only public route
//! `PatchGroup::select_next_patches` + `apply_next_patches_with_decoder` with a fault-injecting
//! `SharedBrotliDecoder` (identity framing: output = dictionary ++ input; fails on its k-th call
//! with a chosen `DecodeError`; `MaxSizeExceeded` when the output is longer than allowed).
//! Every call is one correspondence case for coq/C18/Model.v (`check_case`); an implementation-only
//! oracle checks the property text directly (per-glyph data, other tables identical, ascending
//! offsets, applied bits, bookkeeping untouched on error, permutation / grouping independence).
use incremental_font_transfer::font_patch::PatchingError;
use incremental_font_transfer::patch_group::{PatchGroup, UriStatus};
use incremental_font_transfer::patchmap::SubsetDefinition;
use read_fonts::types::Tag;
use read_fonts::{FontRef, ReadError};
use serde_json::json;
use shared_brotli_patch_decoder::decode_error::DecodeError;
use shared_brotli_patch_decoder::SharedBrotliDecoder;
use std::cell::Cell;
use std::collections::{BTreeMap, HashMap};
use vh::*;
use write_fonts::FontBuilder;

// ---------------------------------------------------------------- byte helpers
fn be16(v: &mut Vec<u8>, x: u32) {
    v.extend_from_slice(&(x as u16).to_be_bytes());
}
fn be24(v: &mut Vec<u8>, x: u32) {
    v.extend_from_slice(&x.to_be_bytes()[1..]);
}
fn be32(v: &mut Vec<u8>, x: u32) {
    v.extend_from_slice(&x.to_be_bytes());
}
fn tag(s: &[u8; 4]) -> Tag {
    Tag::new(s)
}
fn tagz(t: Tag) -> i128 {
    u32::from_be_bytes(t.to_be_bytes()) as i128
}
const IFT: Tag = Tag::new(b"IFT ");
const IFTX: Tag = Tag::new(b"IFTX");
const GLYF: Tag = Tag::new(b"glyf");
const LOCA: Tag = Tag::new(b"loca");
const HEAD: Tag = Tag::new(b"head");
const MAXP: Tag = Tag::new(b"maxp");
const GVAR: Tag = Tag::new(b"gvar");
const CFF: Tag = Tag::new(b"CFF ");
const CFF2: Tag = Tag::new(b"CFF2");

// ---------------------------------------------------------------- fault-injecting decoder
struct FaultDecoder {
    calls: Cell<usize>,
    fail_at: Option<usize>,
    kind: u8,
}
fn decode_error(kind: u8) -> DecodeError {
    match kind {
        1 => DecodeError::InitFailure,
        2 => DecodeError::InvalidStream,
        3 => DecodeError::InvalidDictionary,
        4 => DecodeError::MaxSizeExceeded,
        5 => DecodeError::ExcessInputData,
        _ => DecodeError::IoError(std::io::ErrorKind::Other),
    }
}
impl SharedBrotliDecoder for FaultDecoder {
    fn decode(&self, encoded: &[u8], dict: Option<&[u8]>, max: usize) -> Result<Vec<u8>, DecodeError> {
        let k = self.calls.get();
        self.calls.set(k + 1);
        if Some(k) == self.fail_at {
            return Err(decode_error(self.kind));
        }
        let mut out = dict.map(|d| d.to_vec()).unwrap_or_default();
        out.extend_from_slice(encoded);
        if out.len() > max {
            return Err(DecodeError::MaxSizeExceeded);
        }
        Ok(out)
    }
}

// ---------------------------------------------------------------- error classification
fn read_err(e: &ReadError) -> i64 {
    match e {
        ReadError::OutOfBounds => 1,
        ReadError::MalformedData(_) => 2,
        ReadError::NullOffset => 3,
        ReadError::TableIsMissing(_) => 4,
        ReadError::InvalidArrayLen => 5,
        ReadError::InvalidFormat(_) => 6,
        _ => 9,
    }
}
fn invalid_msg(m: &str) -> i64 {
    match m {
        "Patch file tag is not 'iftk'" => 1,
        "Patch file tag is not 'ifgk'" => 2,
        "Missing patch offset." => 3,
        "Patch offsets are not in sorted order." => 4,
        "Brotli stream is larger then the maxUncompressedLength field." => 5,
        "Trying to patch a base table that doesn't exist." => 6,
        "Duplicate or unsorted table tag." => 7,
        "Trying to patch glyf/loca but base font doesn't have them." => 8,
        "Patch would add a glyph beyond this fonts maximum." => 9,
        "Start loca entry is missing." => 10,
        "Failure to init brotli encoder." => 11,
        "Malformed brotli stream." => 12,
        "Malformed dictionary." => 13,
        "Max size exceeded." => 14,
        "Input brotli stream has excess bytes." => 15,
        "IO error decoding input brotli stream." => 16,
        "Trying to patch gvar but base font doesn't have them." => 17,
        "Required CFF charstrings offset is missing from IFT table." => 18,
        "Required CFF2 charstrings offset is missing from IFT table." => 19,
        _ => 0,
    }
}
fn classify(e: &PatchingError) -> (i64, i64) {
    use klippa::serialize::SerializeErrorFlags as F;
    match e {
        PatchingError::PatchParsingFailed(r) => (1, read_err(r)),
        PatchingError::FontParsingFailed(r) => (2, read_err(r)),
        PatchingError::SerializationError(f) => (
            3,
            if *f == F::SERIALIZE_ERROR_OFFSET_OVERFLOW {
                2
            } else if *f == F::SERIALIZE_ERROR_OUT_OF_ROOM {
                4
            } else if *f == F::SERIALIZE_ERROR_OTHER {
                1
            } else if *f == F::SERIALIZE_ERROR_NONE {
                0
            } else {
                99
            },
        ),
        PatchingError::IncompatiblePatch => (4, 0),
        PatchingError::NonIncrementalFont => (5, 0),
        PatchingError::InvalidPatch(m) => (6, invalid_msg(m)),
        PatchingError::EmptyPatchList => (7, 0),
        PatchingError::InternalError => (8, 0),
        PatchingError::MissingPatches => (9, 0),
    }
}

// ---------------------------------------------------------------- authoring: mapping tables
#[derive(Clone, Debug)]
struct Entry {
    uri: String,
    tbl: u8,  // 0 = IFT, 1 = IFTX
    enc: u8,  // 1 full, 2 partial, 3 glyph keyed
    bit: usize,
    compat: [u8; 16],
}
fn base32hex(id: u32) -> String {
    const A: &[u8] = b"0123456789ABCDEFGHIJKLMNOPQRSTUV";
    let b = id.to_be_bytes();
    let skip = b.iter().take(3).take_while(|x| **x == 0).count();
    let bytes = &b[skip..];
    let mut bits: u64 = 0;
    let mut n = 0;
    let mut out = String::new();
    for x in bytes {
        bits = (bits << 8) | *x as u64;
        n += 8;
        while n >= 5 {
            out.push(A[((bits >> (n - 5)) & 31) as usize] as char);
            n -= 5;
        }
    }
    if n > 0 {
        out.push(A[((bits << (5 - n)) & 31) as usize] as char);
    }
    out
}
/// format-2 patch map with `encs.len()` entries, every entry intersecting codepoint 5.
/// `encs[i]` = Some(e): per-entry patch format override.
fn ift_table(tbl: u8, compat: [u8; 16], default_enc: u8, prefix: &str, encs: &[Option<u8>]) -> (Vec<u8>, Vec<Entry>) {
    ift_table_cs(tbl, compat, default_enc, prefix, encs, None, None)
}
/// same with the optional CFF / CFF2 charstrings offset fields
fn ift_table_cs(tbl: u8, compat: [u8; 16], default_enc: u8, prefix: &str, encs: &[Option<u8>], cff: Option<u32>, cff2: Option<u32>) -> (Vec<u8>, Vec<Entry>) {
    let mut v = vec![2u8];
    be32(&mut v, 0);
    v.extend_from_slice(&compat);
    v.push(default_enc);
    be24(&mut v, encs.len() as u32);
    let eo = v.len();
    be32(&mut v, 0); // entries offset
    be32(&mut v, 0); // id string data offset
    let template = format!("{}/{{id}}", prefix);
    be16(&mut v, template.len() as u32);
    v.extend_from_slice(template.as_bytes());
    v[4] = cff.is_some() as u8 | (cff2.is_some() as u8) << 1;
    if let Some(o) = cff {
        be32(&mut v, o);
    }
    if let Some(o) = cff2 {
        be32(&mut v, o);
    }
    let start = v.len() as u32;
    v[eo..eo + 4].copy_from_slice(&start.to_be_bytes());
    let mut out = vec![];
    for (i, e) in encs.iter().enumerate() {
        let entry_start = v.len();
        match e {
            Some(enc) => {
                v.push(0b0001_1000);
                v.push(*enc);
            }
            None => v.push(0b0001_0000),
        }
        v.extend_from_slice(&[0b0000_1101, 0b0000_0011, 0b0011_0001]); // codepoints 0..17
        out.push(Entry {
            uri: format!("{}/{}", prefix, base32hex(i as u32 + 1)),
            tbl,
            enc: e.unwrap_or(default_enc),
            bit: entry_start * 8 + 6,
            compat,
        });
    }
    (v, out)
}

/// format-1 (glyph map) patch map: glyph g (1..=idx.len()) belongs to entry idx[g-1]; the application bit of entry i is
/// bit i of the applied-entries bitmap (36 bytes into the table), so entries 8k..8k+7 SHARE a byte
fn ift_table_format1(tbl: u8, compat: [u8; 16], prefix: &str, idx: &[u16], ng: usize, max_entry: u16) -> (Vec<u8>, Vec<Entry>) {
    let mut v = vec![1u8];
    be32(&mut v, 0);
    v.extend_from_slice(&compat);
    be16(&mut v, max_entry as u32);
    be16(&mut v, max_entry as u32);
    be24(&mut v, ng as u32);
    let gmo = v.len();
    be32(&mut v, 0);
    be32(&mut v, 0); // feature map offset
    let bitmap_start = v.len();
    v.extend(std::iter::repeat(0u8).take((max_entry as usize + 1).div_ceil(8)));
    let template = format!("{}/{{id}}", prefix);
    be16(&mut v, template.len() as u32);
    v.extend_from_slice(template.as_bytes());
    v.push(3); // glyph keyed
    let gm = v.len() as u32;
    v[gmo..gmo + 4].copy_from_slice(&gm.to_be_bytes());
    be16(&mut v, 1); // first mapped glyph
    for g in 1..ng {
        v.push(idx.get(g - 1).copied().unwrap_or(0) as u8);
    }
    let entries = idx
        .iter()
        .map(|i| Entry { uri: format!("{}/{}", prefix, base32hex(*i as u32)), tbl, enc: 3, bit: bitmap_start * 8 + *i as usize, compat })
        .collect();
    (v, entries)
}
fn cmap_table(n: usize) -> Vec<u8> {
    use write_fonts::tables::cmap::Cmap;
    let m = (1..=n).map(|g| (char::from_u32(0x40 + g as u32).unwrap(), read_fonts::types::GlyphId::new(g as u32)));
    write_fonts::dump_table(&Cmap::from_mappings(m).unwrap()).unwrap()
}
/// glyph keyed scenario whose "IFT " table is a format-1 map with the given entry indices (bits of one or two bitmap bytes)
fn gk_scenario_format1(rng: &mut Rng, idx: &[u16], long: bool, ng: usize, iftx: bool) -> GkScenario {
    let (mut font, _) = glyph_font(rng, long, ng, 6);
    font.tables.insert(tag(b"cmap"), cmap_table(idx.len()));
    let (t, mut entries) = ift_table_format1(0, compat(1), "foo", idx, ng, 15);
    font.tables.insert(IFT, t);
    if iftx {
        let (t2, e2) = ift_table(1, compat(7), 3, "fpp", &[None]);
        font.tables.insert(IFTX, t2);
        entries.extend(e2);
    }
    GkScenario { font, entries }
}

// ---------------------------------------------------------------- authoring: fonts
#[derive(Clone)]
struct FontSpec {
    tables: BTreeMap<Tag, Vec<u8>>,
}
fn head_table(long: bool) -> Vec<u8> {
    let mut h = vec![0u8; 54];
    h[0..4].copy_from_slice(&[0, 1, 0, 0]);
    h[12..16].copy_from_slice(&0x5F0F3CF5u32.to_be_bytes());
    h[18..20].copy_from_slice(&1000u16.to_be_bytes());
    h[51] = long as u8;
    h
}
fn maxp_table(n: u16) -> Vec<u8> {
    let mut m = vec![0, 0, 0x50, 0];
    m.extend_from_slice(&n.to_be_bytes());
    m
}
fn loca_bytes(offs: &[u32], long: bool) -> Vec<u8> {
    let mut v = vec![];
    for o in offs {
        if long {
            be32(&mut v, *o)
        } else {
            be16(&mut v, *o / 2)
        }
    }
    v
}
/// gvar table: header, offsets, then shared tuples and glyph variation data (in either order)
fn gvar_table(long: bool, axis: u16, stc: u16, glyphs: &[Vec<u8>], data_first: bool, extra_flags: u16) -> Vec<u8> {
    let mut v = vec![0, 1, 0, 0];
    be16(&mut v, axis as u32);
    be16(&mut v, stc as u32);
    be32(&mut v, 0); // shared tuples offset
    be16(&mut v, glyphs.len() as u32);
    be16(&mut v, (long as u32) | extra_flags as u32);
    be32(&mut v, 0); // data array offset
    let mut o = 0u32;
    for g in glyphs.iter() {
        if long { be32(&mut v, o) } else { be16(&mut v, o / 2) }
        o += g.len() as u32;
    }
    if long { be32(&mut v, o) } else { be16(&mut v, o / 2) }
    let shared: Vec<u8> = (0..(stc as usize * axis as usize * 2)).map(|i| 0xC0 | (i as u8 & 0x1f)).collect();
    let data: Vec<u8> = glyphs.concat();
    let (sto, dao);
    if data_first {
        dao = v.len();
        v.extend_from_slice(&data);
        sto = v.len();
        v.extend_from_slice(&shared);
    } else {
        sto = v.len();
        v.extend_from_slice(&shared);
        dao = v.len();
        v.extend_from_slice(&data);
    }
    v[8..12].copy_from_slice(&(sto as u32).to_be_bytes());
    v[16..20].copy_from_slice(&(dao as u32).to_be_bytes());
    v
}
fn random_gvar(rng: &mut Rng, ng: usize) -> Vec<u8> {
    let long = rng.chance(1, 2);
    let glyphs: Vec<Vec<u8>> = (0..ng).map(|g| {
        let mut l = if rng.chance(1, 3) { 0 } else { rng.below(7) as usize };
        if !long { l &= !1; }
        (0..l).map(|i| 0xA0u8.wrapping_add((g * 8 + i) as u8)).collect()
    }).collect();
    let stc = *rng.pick(&[0u16, 0, 1, 2]);
    let data_first = rng.chance(1, 4);
    gvar_table(long, 2, stc, &glyphs, data_first, if rng.chance(1, 4) { 0x0100 } else { 0 })
}
/// minimal CFF (cff2 = false) or CFF2 table whose last part is the charstrings INDEX; returns (table, charstrings offset)
fn cff_table(cff2: bool, off_size: u8, glyphs: &[Vec<u8>]) -> (Vec<u8>, u32) {
    let mut v: Vec<u8> = if cff2 {
        // header (major 2, minor 0, headerSize 5, topDictLength 3), top dict, empty global subrs INDEX (u32 count)
        vec![2, 0, 5, 0, 3, 0x8b, 0x8b, 0x11, 0, 0, 0, 0]
    } else {
        // header, name INDEX ["A"], top dict INDEX [2 bytes], empty string INDEX, empty global subrs INDEX
        vec![1, 0, 4, 1, 0, 1, 1, 1, 2, b'A', 0, 1, 1, 1, 3, 0x8b, 0x11, 0, 0, 0, 0]
    };
    let cs = v.len() as u32;
    if cff2 {
        be32(&mut v, glyphs.len() as u32)
    } else {
        be16(&mut v, glyphs.len() as u32)
    }
    v.push(off_size);
    let mut o = 1u32;
    let put = |v: &mut Vec<u8>, o: u32| v.extend_from_slice(&o.to_be_bytes()[4 - off_size.clamp(1, 4) as usize..]);
    for g in glyphs {
        put(&mut v, o);
        o += g.len() as u32;
    }
    put(&mut v, o);
    for g in glyphs {
        v.extend_from_slice(g);
    }
    (v, cs)
}
fn build_font(spec: &FontSpec) -> Vec<u8> {
    let mut fb = FontBuilder::new();
    for (t, d) in &spec.tables {
        fb.add_raw(*t, d.clone());
    }
    fb.build()
}
fn font_tables(bytes: &[u8]) -> Option<Vec<(Tag, Vec<u8>)>> {
    let f = FontRef::new(bytes).ok()?;
    let mut v = vec![];
    for r in f.table_directory.table_records() {
        let t = r.tag();
        let mut d = f.table_data(t)?.as_bytes().to_vec();
        if t == HEAD && d.len() >= 12 {
            d[8..12].copy_from_slice(&[0, 0, 0, 0]);
        }
        v.push((t, d));
    }
    Some(v)
}
fn glyph_font(rng: &mut Rng, long: bool, ng: usize, maxlen: usize) -> (FontSpec, Vec<Vec<u8>>) {
    let mut glyf = vec![];
    let mut offs = vec![];
    let lead = if rng.chance(1, 5) { 2 } else { 0 };
    glyf.extend(std::iter::repeat(0xEEu8).take(lead));
    let mut glyphs = vec![];
    for _ in 0..ng {
        offs.push(glyf.len() as u32);
        let mut l = rng.below(maxlen as u64 + 1) as usize;
        if rng.chance(1, 3) {
            l = 0;
        }
        if !long {
            l &= !1;
        }
        let d: Vec<u8> = (0..l).map(|_| 0x80 | (rng.next_u64() as u8 & 0x3f)).collect();
        glyf.extend_from_slice(&d);
        glyphs.push(d);
    }
    offs.push(glyf.len() as u32);
    if rng.chance(1, 5) {
        glyf.extend_from_slice(&[0xDD, 0xDD]);
    }
    let mut tables = BTreeMap::new();
    tables.insert(GLYF, glyf);
    tables.insert(LOCA, loca_bytes(&offs, long));
    tables.insert(HEAD, head_table(long));
    tables.insert(MAXP, maxp_table(ng as u16));
    tables.insert(tag(b"tab1"), b"abcdef\n".to_vec());
    if rng.chance(1, 2) {
        tables.insert(tag(b"zzzz"), rng.bytes(5));
    }
    (FontSpec { tables }, glyphs)
}

// ---------------------------------------------------------------- authoring: patches
#[derive(Clone, Debug)]
struct GkContent {
    tables: Vec<Tag>,
    gids: Vec<u32>,
    /// data[table][i] for gids[i]
    data: Vec<Vec<Vec<u8>>>,
    wide: bool,
}
fn gk_stream(c: &GkContent) -> Vec<u8> {
    let mut v = vec![];
    be32(&mut v, c.gids.len() as u32);
    v.push(c.tables.len() as u8);
    for g in &c.gids {
        if c.wide {
            be24(&mut v, *g)
        } else {
            be16(&mut v, *g)
        }
    }
    for t in &c.tables {
        v.extend_from_slice(&t.to_be_bytes());
    }
    let n_off = c.gids.len() * c.tables.len() + 1;
    let mut pos = v.len() + n_off * 4;
    let mut blob = vec![];
    for t in 0..c.tables.len() {
        for i in 0..c.gids.len() {
            be32(&mut v, pos as u32);
            pos += c.data[t][i].len();
            blob.extend_from_slice(&c.data[t][i]);
        }
    }
    be32(&mut v, pos as u32);
    v.extend_from_slice(&blob);
    v
}
fn gk_patch(format: &[u8; 4], compat: &[u8; 16], wide: bool, max_len: u32, stream: &[u8]) -> Vec<u8> {
    let mut v = format.to_vec();
    be32(&mut v, 0);
    v.push(wide as u8);
    v.extend_from_slice(compat);
    be32(&mut v, max_len);
    v.extend_from_slice(stream);
    v
}
#[derive(Clone, Debug)]
struct TkEntry {
    tag: Tag,
    flags: u8,
    max_len: u32,
    stream: Vec<u8>,
}
fn tk_patch(format: &[u8; 4], compat: &[u8; 16], entries: &[TkEntry]) -> Vec<u8> {
    let mut v = format.to_vec();
    be32(&mut v, 0);
    v.extend_from_slice(compat);
    be16(&mut v, entries.len() as u32);
    let mut pos = v.len() + (entries.len() + 1) * 4;
    for e in entries {
        be32(&mut v, pos as u32);
        pos += 9 + e.stream.len();
    }
    be32(&mut v, pos as u32);
    for e in entries {
        v.extend_from_slice(&e.tag.to_be_bytes());
        v.push(e.flags);
        be32(&mut v, e.max_len);
        v.extend_from_slice(&e.stream);
    }
    v
}

// ---------------------------------------------------------------- one call of the real code
type St = BTreeMap<String, Option<Vec<u8>>>; // None = Applied, Some = Pending(data)

struct CallOut {
    res: Result<Vec<u8>, (i64, i64)>,
    inv: Option<Entry>,
    noninv: Vec<Entry>,
    after: St,
    ncalls: usize,
}
fn run_call(font: &[u8], entries: &[Entry], st: &St, fail_at: Option<usize>, kind: u8) -> Option<CallOut> {
    let fr = FontRef::new(font).ok()?;
    // 5 selects every format-2 entry; 0x41.. are the codepoints of the format-1 (glyph map) scenarios
    let def = SubsetDefinition::codepoints([5u32].into_iter().chain(0x41u32..0x60).collect());
    let g = PatchGroup::select_next_patches(fr, &def).ok()?;
    let uris: Vec<String> = g.uris().map(|s| s.to_string()).collect();
    let mut inv = None;
    let mut noninv = vec![];
    for u in &uris {
        let e = entries.iter().find(|e| &e.uri == u).unwrap_or_else(|| panic!("harness: unknown uri {u}"));
        if e.enc == 3 {
            noninv.push(e.clone());
        } else if inv.is_none() {
            inv = Some(e.clone());
        }
    }
    let mut map: HashMap<String, UriStatus> = st
        .iter()
        .map(|(k, v)| (k.clone(), match v { None => UriStatus::Applied, Some(d) => UriStatus::Pending(d.clone()) }))
        .collect();
    let dec = FaultDecoder { calls: Cell::new(0), fail_at, kind };
    let r = catch(std::panic::AssertUnwindSafe(|| g.apply_next_patches_with_decoder(&mut map, &dec)));
    let res = match r {
        Ok(Ok(f)) => Ok(f),
        Ok(Err(e)) => Err(classify(&e)),
        Err(_) => Err((99, 0)),
    };
    let after: St = map
        .into_iter()
        .map(|(k, v)| (k, match v { UriStatus::Applied => None, UriStatus::Pending(d) => Some(d) }))
        .collect();
    Some(CallOut { res, inv, noninv, after, ncalls: dec.calls.get() })
}

// ---------------------------------------------------------------- Coq printing
fn c_tables(t: &[(Tag, Vec<u8>)]) -> String {
    clist(t.iter(), |(t, d)| format!("({}, {})", tagz(*t), cbytes(d)))
}
fn c_entry(e: &Entry, uri_ids: &BTreeMap<String, i64>) -> String {
    format!("({}, {}, {}, {})", uri_ids[&e.uri], e.tbl, cbytes(&e.compat), e.bit)
}
struct Ctx<'a> {
    cw: &'a mut CaseWriter,
    st: &'a mut Stats,
    budget: usize,
    /// oracle failures already reported per class key (the shared Stats keeps only the first 50 failures in total,
    /// so many instances of one known finding must not crowd out a different failure)
    reported: BTreeMap<String, u32>,
}
fn emit_case(cx: &mut Ctx, font: &[u8], st_before: &St, fail_at: Option<usize>, kind: u8, out: &CallOut, label: &str) -> String {
    let base = font_tables(font).unwrap();
    let mut uri_ids: BTreeMap<String, i64> = BTreeMap::new();
    for (i, k) in st_before.keys().enumerate() {
        uri_ids.insert(k.clone(), i as i64);
    }
    let mut next = 1000;
    for e in out.inv.iter().chain(out.noninv.iter()) {
        if !uri_ids.contains_key(&e.uri) {
            uri_ids.insert(e.uri.clone(), next);
            next += 1;
        }
    }
    let (cls, det, tabs) = match &out.res {
        Ok(f) => match font_tables(f) {
            Some(t) => (0, 0, t),
            None => (97, 0, vec![]),
        },
        Err((c, d)) => (*c, *d, vec![]),
    };
    let term = format!(
        "({}, {}, {}, {}, ({}, {}), ({}, {}), {}, {})",
        c_tables(&base),
        copt(out.inv.as_ref().map(|e| c_entry(e, &uri_ids))),
        clist(out.noninv.iter(), |e| c_entry(e, &uri_ids)),
        clist(st_before.iter(), |(k, v)| format!("({}, {})", uri_ids[k], copt(v.as_ref().map(|d| cbytes(d))))),
        fail_at.map(|k| k as i64).unwrap_or(-1),
        kind,
        cls,
        det,
        c_tables(&tabs),
        clist(out.after.iter(), |(k, v)| format!("({}, {})", uri_ids.get(k).copied().unwrap_or(-1), cbool(v.is_none()))),
    );
    cx.st.evaluations += 1;
    cx.st.count(&format!("result.{}.{}", cls, det));
    cx.st.count(&format!("kind.{}", label));
    if cls == 99 {
        cx.st.count("panics");
    }
    cx.st.nontrivial(&term);
    if cx.cw.len() < cx.budget {
        cx.cw.push(term.clone());
    } else {
        cx.st.count("model_budget_skipped");
    }
    term
}

// ---------------------------------------------------------------- oracle pieces (implementation only)
fn fail(cx: &mut Ctx, what: &str, label: &str, term: &str, extra: serde_json::Value) {
    // keys are CLASS keys (seed / tier independent); the concrete input goes into `instance` and `case`
    let key = if what == "F-C18-4" {
        // see notes/C18.md F-C18-4
        "F-C18-4-offset-width-not-narrowed-after-shrinking-patch".to_string()
    } else if what == "F-C18-1" {
        // known defect of /repo (see notes/C18.md F-C18-1)
        "F-C18-1-gvar-without-variation-data-rejected".to_string()
    } else if label == "threshold.gvar" && what == "valid-patches-rejected" && extra["err"] == "(3, 4)" {
        "F-C18-2-gvar-widening-out-of-room".to_string()
    } else if label.starts_with("cff.malformed") && what == "offsets-not-ascending" {
        // see notes/C18.md F-C18-3: CFFAndCharStrings::all_offsets_are_ascending never looks at the last offset
        "F-C18-3-cff-charstrings-last-offset-unchecked".to_string()
    } else {
        format!("{}:{}", label, what)
    };
    let n = cx.reported.entry(key.clone()).or_insert(0);
    *n += 1;
    if *n > 3 {
        cx.st.count(&format!("oracle_failure_instances.{}", key));
        return;
    }
    cx.st.oracle_failure(json!({"key": key, "what": what, "label": label, "extra": extra,
        "instance": format!("{:016x}", fnv(term.as_bytes())), "case": &term[..term.len().min(1500)]}));
}
/// (ii) of finding F-C18-4: some patch replaces a glyph of table `tt` by data SHORTER than what the base holds
fn has_shrinking_patch(b: &BTreeMap<Tag, Vec<u8>>, contents: &[GkContent], tt: Tag) -> bool {
    let Some(a) = offset_array(b, tt) else { return false };
    contents.iter().any(|c| {
        let Some(ti) = c.tables.iter().position(|t| *t == tt) else { return false };
        c.gids.iter().enumerate().any(|(gi, g)| a.slice(*g as usize).map(|s| c.data[ti][gi].len() < s.len()).unwrap_or(false))
    })
}
/// the tables in which two results differ only by the offset width (same logical offsets, data, prefix, shared tuples)
fn width_only_difference(t: &BTreeMap<Tag, Vec<u8>>, t0: &BTreeMap<Tag, Vec<u8>>) -> Option<Vec<Tag>> {
    if t.len() != t0.len() {
        return None;
    }
    let mut tags = vec![];
    for (tag, d) in t {
        if t0.get(tag) == Some(d) {
            continue;
        }
        if ![CFF, CFF2, GVAR].contains(tag) {
            return None;
        }
        match (offset_array(t, *tag), offset_array(t0, *tag)) {
            (Some(a), Some(b)) if a.offs == b.offs && a.data == b.data && a.shared == b.shared && a.prefix == b.prefix && (a.width != b.width || a.short != b.short) => tags.push(*tag),
            _ => return None,
        }
    }
    Some(tags)
}
/// F-C18-1: the patched gvar would contain no glyph variation data at all
fn gvar_result_empty(b: &BTreeMap<Tag, Vec<u8>>, applied: &[(Entry, GkContent)]) -> bool {
    if !applied.iter().any(|(_, c)| c.tables.contains(&GVAR)) {
        return false;
    }
    let Some(a) = offset_array(b, GVAR) else { return false };
    let ng = a.offs.len().saturating_sub(1);
    (0..ng).all(|g| {
        let first = applied.iter().find_map(|(_, c)| {
            let ti = c.tables.iter().position(|t| *t == GVAR)?;
            let gi = c.gids.iter().position(|x| *x as usize == g)?;
            Some(c.data[ti][gi].len())
        });
        match first {
            Some(l) => l == 0,
            None => a.slice(g).map(|s| s.is_empty()).unwrap_or(false),
        }
    })
}
fn loca_offsets(tabs: &BTreeMap<Tag, Vec<u8>>) -> Option<Vec<u32>> {
    let long = *tabs.get(&HEAD)?.get(51)? == 1;
    let l = tabs.get(&LOCA)?;
    Some(if long {
        l.chunks_exact(4).map(|c| u32::from_be_bytes([c[0], c[1], c[2], c[3]])).collect()
    } else {
        l.chunks_exact(2).map(|c| u16::from_be_bytes([c[0], c[1]]) as u32 * 2).collect()
    })
}
fn glyph_slice<'a>(tabs: &'a BTreeMap<Tag, Vec<u8>>, offs: &[u32], g: usize) -> Option<&'a [u8]> {
    tabs.get(&GLYF)?.get(*offs.get(g)? as usize..*offs.get(g + 1)? as usize)
}
fn tabmap(t: Vec<(Tag, Vec<u8>)>) -> BTreeMap<Tag, Vec<u8>> {
    t.into_iter().collect()
}
/// statuses untouched on error; on success exactly the expected URIs flipped
fn oracle_bookkeeping(cx: &mut Ctx, before: &St, out: &CallOut, label: &str, term: &str) {
    match &out.res {
        Err(_) => {
            if &out.after != before {
                fail(cx, "error-changed-bookkeeping", label, term, json!({}));
            }
        }
        Ok(_) => {
            let mut exp = before.clone();
            let inv_pending = out.inv.as_ref().map(|e| matches!(before.get(&e.uri), Some(Some(_)))).unwrap_or(false);
            if inv_pending {
                exp.insert(out.inv.as_ref().unwrap().uri.clone(), None);
            } else {
                for e in &out.noninv {
                    if exp.contains_key(&e.uri) {
                        exp.insert(e.uri.clone(), None);
                    }
                }
            }
            if out.after != exp {
                fail(cx, "success-wrong-bookkeeping", label, term, json!({}));
            }
        }
    }
}
/// glyph keyed: `applied` = contents of the Pending patches in application order (glyf data only)
fn oracle_glyph_keyed(cx: &mut Ctx, base: &[u8], out: &CallOut, applied: &[(Entry, GkContent)], expect_ok: Option<bool>, label: &str, term: &str) {
    let b = tabmap(font_tables(base).unwrap());
    match &out.res {
        Err(e) => {
            if expect_ok == Some(true) {
                if *e == (3, 0) && gvar_result_empty(&b, applied) {
                    fail(cx, "F-C18-1", label, term, json!({"err": format!("{:?}", e)}));
                } else {
                    fail(cx, "valid-patches-rejected", label, term, json!({"err": format!("{:?}", e)}));
                }
            }
        }
        Ok(f) => {
            if expect_ok == Some(false) {
                fail(cx, "invalid-input-accepted", label, term, json!({}));
            }
            let Some(n) = font_tables(f) else {
                fail(cx, "output-unparsable", label, term, json!({}));
                return;
            };
            let n = tabmap(n);
            let touches_glyf = applied.iter().any(|(_, c)| c.tables.contains(&GLYF));
            let touches_gvar = applied.iter().any(|(_, c)| c.tables.contains(&GVAR));
            let touches = |tt: Tag| applied.iter().any(|(_, c)| c.tables.contains(&tt));
            for (t, d) in &b {
                let special = *t == IFT || *t == IFTX || (touches_glyf && (*t == GLYF || *t == LOCA)) || (touches_gvar && *t == GVAR)
                    || (touches(CFF) && *t == CFF) || (touches(CFF2) && *t == CFF2);
                if !special && n.get(t) != Some(d) {
                    fail(cx, "other-table-changed", label, term, json!({"tag": t.to_string()}));
                }
            }
            for t in n.keys() {
                if !b.contains_key(t) && !(touches_glyf && (*t == GLYF || *t == LOCA)) {
                    fail(cx, "table-appeared", label, term, json!({"tag": t.to_string()}));
                }
            }
            // applied bits
            for (t, code) in [(IFT, 0u8), (IFTX, 1u8)] {
                if let Some(old) = b.get(&t) {
                    let mut exp = old.clone();
                    for (e, _) in applied.iter().filter(|(e, _)| e.tbl == code) {
                        exp[e.bit / 8] |= 1 << (e.bit % 8);
                    }
                    if n.get(&t) != Some(&exp) {
                        fail(cx, "applied-bits-wrong", label, term, json!({"tag": t.to_string()}));
                    }
                }
            }
            let ng = u16::from_be_bytes([b[&MAXP][4], b[&MAXP][5]]) as usize;
            for tt in [GLYF, GVAR, CFF, CFF2] {
                if !applied.iter().any(|(_, c)| c.tables.contains(&tt)) {
                    continue;
                }
                let (Some(ba), Some(na)) = (offset_array(&b, tt), offset_array(&n, tt)) else {
                    fail(cx, "offset-array-unreadable", label, term, json!({"tag": tt.to_string()}));
                    return;
                };
                if na.offs.len() != ng + 1 || na.offs.windows(2).any(|w| w[0] > w[1]) {
                    fail(cx, "offsets-not-ascending-or-wrong-count", label, term, json!({"tag": tt.to_string(), "offsets": na.offs.len()}));
                }
                if na.offs.last().copied().unwrap_or(0) as usize != na.data.len() || na.offs.first().copied() != Some(0) {
                    fail(cx, "offsets-do-not-cover-data", label, term, json!({"tag": tt.to_string()}));
                }
                let mut total = 0usize;
                for g in 0..ng {
                    let first = applied.iter().find_map(|(_, c)| {
                        let ti = c.tables.iter().position(|t| *t == tt)?;
                        let gi = c.gids.iter().position(|x| *x as usize == g)?;
                        Some(c.data[ti][gi].clone())
                    });
                    let exp: Option<Vec<u8>> = match first {
                        Some(mut d) => {
                            total += d.len() + d.len() % 2;
                            if na.short && d.len() % 2 == 1 {
                                d.push(0);
                            }
                            Some(d)
                        }
                        None => {
                            let s = ba.slice(g).map(|s| s.to_vec());
                            total += s.as_ref().map(|s| s.len()).unwrap_or(0);
                            s
                        }
                    };
                    if na.slice(g).map(|s| s.to_vec()) != exp {
                        fail(cx, "glyph-data-wrong", label, term, json!({"tag": tt.to_string(), "gid": g}));
                    }
                }
                if ba.short != na.short && !(ba.short && total > 131070) {
                    fail(cx, "offset-type-changed-without-need", label, term, json!({"tag": tt.to_string(), "total": total}));
                }
                if tt == CFF || tt == CFF2 {
                    // offSize: unchanged while the data fits, else the smallest size that represents it
                    let cap = |w: usize| (1usize << (8 * w)) - 2;
                    let total: usize = na.data.len();
                    let exp_w = if total <= cap(ba.width) { ba.width } else { (1..=4).find(|w| total <= cap(*w)).unwrap_or(9) };
                    if na.width != exp_w {
                        fail(cx, "cff-offsize-wrong", label, term, json!({"tag": tt.to_string(), "old": ba.width, "new": na.width, "total": total}));
                    }
                    if na.prefix != ba.prefix {
                        fail(cx, "cff-prefix-changed", label, term, json!({"tag": tt.to_string()}));
                    }
                }
                if tt == GVAR {
                    let (bg, ngv) = (&b[&GVAR], &n[&GVAR]);
                    // header fields other than the two offsets and the long-offsets flag; shared tuples
                    if bg[0..8] != ngv[0..8] || bg[12..15] != ngv[12..15] || (bg[15] & 0xFE) != (ngv[15] & 0xFE) {
                        fail(cx, "gvar-header-changed", label, term, json!({}));
                    }
                    if ba.shared != na.shared {
                        fail(cx, "gvar-shared-tuples-changed", label, term, json!({}));
                    }
                }
            }
        }
    }
}
struct OffArr {
    offs: Vec<u32>,
    data: Vec<u8>,
    short: bool,
    shared: Vec<u8>,
    /// CFF/CFF2: offSize and everything before the charstrings INDEX
    width: usize,
    prefix: Vec<u8>,
}
impl OffArr {
    fn slice(&self, g: usize) -> Option<&[u8]> {
        self.data.get(*self.offs.get(g)? as usize..*self.offs.get(g + 1)? as usize)
    }
}
/// independent reader of glyf+loca / gvar as (offsets, data)
fn offset_array(t: &BTreeMap<Tag, Vec<u8>>, tt: Tag) -> Option<OffArr> {
    if tt == GLYF {
        let offs = loca_offsets(t)?;
        Some(OffArr { offs, data: t.get(&GLYF)?.clone(), short: *t.get(&HEAD)?.get(51)? == 0, shared: vec![], width: 0, prefix: vec![] })
    } else if tt == CFF || tt == CFF2 {
        let ift = t.get(&IFT)?;
        let tl = u16::from_be_bytes([*ift.get(33)?, *ift.get(34)?]) as usize;
        let flags = *ift.get(4)?;
        let mut p = 35 + tl;
        if tt == CFF2 {
            if flags & 2 == 0 {
                return None;
            }
            if flags & 1 != 0 {
                p += 4;
            }
        } else if flags & 1 == 0 {
            return None;
        }
        let cs = u32::from_be_bytes([*ift.get(p)?, *ift.get(p + 1)?, *ift.get(p + 2)?, *ift.get(p + 3)?]) as usize;
        let tb = t.get(&tt)?;
        let c = tb.get(cs..)?;
        let cw = if tt == CFF2 { 4 } else { 2 };
        let mut count = 0usize;
        for i in 0..cw {
            count = count << 8 | *c.get(i)? as usize;
        }
        let w = *c.get(cw)? as usize;
        let mut offs = vec![];
        for i in 0..=count {
            let mut o = 0u32;
            for k in 0..w {
                o = o << 8 | *c.get(cw + 1 + i * w + k)? as u32;
            }
            offs.push(o.checked_sub(1)?);
        }
        Some(OffArr { offs, data: c.get(cw + 1 + (count + 1) * w..)?.to_vec(), short: false, shared: vec![], width: w, prefix: tb[..cs].to_vec() })
    } else {
        let g = t.get(&GVAR)?;
        if g.len() < 20 {
            return None;
        }
        let u16a = |i: usize| u16::from_be_bytes([g[i], g[i + 1]]) as usize;
        let u32a = |i: usize| u32::from_be_bytes([g[i], g[i + 1], g[i + 2], g[i + 3]]) as usize;
        let (axis, stc, sto, gc, flags, dao) = (u16a(4), u16a(6), u32a(8), u16a(12), u16a(14), u32a(16));
        let long = flags & 1 == 1;
        let mut offs = vec![];
        for i in 0..=gc {
            offs.push(if long { *g.get(20 + i * 4..24 + i * 4).map(|c| u32::from_be_bytes([c[0], c[1], c[2], c[3]])).as_ref()? } else { g.get(20 + i * 2..22 + i * 2).map(|c| u16::from_be_bytes([c[0], c[1]]) as u32 * 2)? });
        }
        Some(OffArr { offs, data: g.get(dao..)?.to_vec(), short: !long, shared: g.get(sto..sto + stc * axis * 2)?.to_vec(), width: 0, prefix: vec![] })
    }
}
fn oracle_table_keyed(cx: &mut Ctx, base: &[u8], out: &CallOut, entries: &[TkEntry], expect_ok: Option<bool>, label: &str, term: &str) {
    let b = tabmap(font_tables(base).unwrap());
    match &out.res {
        Err(e) => {
            if expect_ok == Some(true) {
                fail(cx, "valid-patch-rejected", label, term, json!({"err": format!("{:?}", e)}));
            }
        }
        Ok(f) => {
            if expect_ok == Some(false) {
                fail(cx, "invalid-input-accepted", label, term, json!({}));
            }
            let Some(n) = font_tables(f) else {
                fail(cx, "output-unparsable", label, term, json!({}));
                return;
            };
            let n = tabmap(n);
            let mut exp = b.clone();
            let mut seen = vec![];
            for e in entries {
                if seen.contains(&e.tag) {
                    continue;
                }
                seen.push(e.tag);
                if e.flags & 2 != 0 {
                    exp.remove(&e.tag);
                } else if e.flags & 1 != 0 {
                    exp.insert(e.tag, e.stream.clone());
                } else {
                    let mut d = b.get(&e.tag).cloned().unwrap_or_default();
                    d.extend_from_slice(&e.stream);
                    exp.insert(e.tag, d);
                }
            }
            if let Some(h) = exp.get_mut(&HEAD) {
                if h.len() >= 12 {
                    h[8..12].copy_from_slice(&[0; 4]);
                }
            }
            if n != exp {
                fail(cx, "table-keyed-result-wrong", label, term, json!({}));
            }
        }
    }
}

// ---------------------------------------------------------------- scenario: glyph keyed groups
fn permutations(n: usize) -> Vec<Vec<usize>> {
    fn rec(cur: &mut Vec<usize>, used: &mut Vec<bool>, n: usize, out: &mut Vec<Vec<usize>>) {
        if cur.len() == n {
            out.push(cur.clone());
            return;
        }
        for i in 0..n {
            if !used[i] {
                used[i] = true;
                cur.push(i);
                rec(cur, used, n, out);
                cur.pop();
                used[i] = false;
            }
        }
    }
    let mut out = vec![];
    rec(&mut vec![], &mut vec![false; n], n, &mut out);
    out
}
fn compat(a: u32) -> [u8; 16] {
    let mut c = [0u8; 16];
    for i in 0..4 {
        c[i * 4..i * 4 + 4].copy_from_slice(&(a + i as u32).to_be_bytes());
    }
    c
}
/// `wide_mode`: 0 = every patch has 16-bit glyph ids, 1 = every patch 24-bit, 2 = MIXED inside the group (every per-patch
/// header field — id width, table list, source mapping table, max length slack — varies independently of the other patches)
fn random_contents(rng: &mut Rng, n: usize, ng: usize, agree: bool, wide_mode: u8, gvar: bool) -> Vec<GkContent> {
    let flip = rng.chance(1, 2);
    let global: Vec<Vec<u8>> = (0..ng + 2).map(|g| {
        let l = rng.below(6) as usize;
        (0..l).map(|i| (0x10 * (g as u8 + 1)).wrapping_add(i as u8)).collect()
    }).collect();
    (0..n)
        .map(|p| {
            let mut gids: Vec<u32> = (0..ng as u32).filter(|_| rng.chance(2, 5)).collect();
            if gids.is_empty() && rng.chance(4, 5) {
                gids.push(rng.below(ng as u64) as u32);
            }
            let mut tables = vec![GLYF];
            if gvar {
                match rng.below(4) {
                    0 => {}
                    1 => tables = vec![GVAR],
                    _ => tables.push(GVAR),
                }
            }
            if rng.chance(1, 6) {
                tables.insert(0, tag(b"aaaa"));
            }
            if rng.chance(1, 6) {
                tables.push(tag(b"zzzz"));
            }
            let data = tables
                .iter()
                .map(|t| {
                    gids.iter()
                        .map(|g| {
                            if *t != GLYF && *t != GVAR {
                                vec![0x55; rng.below(3) as usize]
                            } else if agree {
                                let mut d = global[*g as usize].clone();
                                if *t == GVAR {
                                    d.reverse();
                                    d.push(0x77);
                                }
                                d
                            } else {
                                let l = rng.below(6) as usize;
                                (0..l).map(|i| (0x10 * (*g as u8 + 1)).wrapping_add((p * 4 + i) as u8)).collect()
                            }
                        })
                        .collect()
                })
                .collect();
            let wide = match wide_mode { 0 => false, 1 => true, _ => (p % 2 == 0) ^ flip };
            GkContent { tables, gids, data, wide }
        })
        .collect()
}

struct GkScenario {
    font: FontSpec,
    entries: Vec<Entry>,
}
fn gk_scenario(rng: &mut Rng, n1: usize, n2: usize, long: bool, ng: usize, gvar: bool) -> GkScenario {
    let (mut font, _) = glyph_font(rng, long, ng, 6);
    if gvar {
        let g = random_gvar(rng, ng);
        font.tables.insert(GVAR, g);
    }
    let (ift, mut e1) = ift_table(0, compat(1), 3, "foo", &vec![None; n1]);
    font.tables.insert(IFT, ift);
    if n2 > 0 {
        let (iftx, e2) = ift_table(1, compat(7), 3, "fpp", &vec![None; n2]);
        font.tables.insert(IFTX, iftx);
        e1.extend(e2);
    }
    GkScenario { font, entries: e1 }
}
fn patch_for(e: &Entry, c: &GkContent) -> Vec<u8> {
    let s = gk_stream(c);
    // the declared maximum is exact or leaves some slack, per patch
    let slack = (c.gids.len() as u32 % 3) * 5;
    gk_patch(b"ifgk", &e.compat, c.wide, s.len() as u32 + slack, &s)
}

/// Runs one group of glyph keyed patches in every permutation (content -> uri), with decoder faults,
/// and in two-call groupings.  Returns nothing; everything goes to stats / cases.
fn run_gk_family(cx: &mut Ctx, rng: &mut Rng, sc: &GkScenario, contents: &[GkContent], agree: bool, thorough: bool) {
    let base = build_font(&sc.font);
    let n = sc.entries.len();
    let perms = permutations(n);
    let mut finals: Vec<(String, BTreeMap<Tag, Vec<u8>>)> = vec![];
    for (pi, perm) in perms.iter().enumerate() {
        // uri i gets content perm[i]
        let st: St = sc.entries.iter().enumerate().map(|(i, e)| (e.uri.clone(), Some(patch_for(e, &contents[perm[i]])))).collect();
        // fault-free run
        let Some(out) = run_call(&base, &sc.entries, &st, None, 0) else {
            cx.st.count("select_failed");
            return;
        };
        let applied: Vec<(Entry, GkContent)> = out.noninv.iter().map(|e| {
            let i = sc.entries.iter().position(|x| x.uri == e.uri).unwrap();
            (e.clone(), contents[perm[i]].clone())
        }).collect();
        let term = emit_case(cx, &base, &st, None, 0, &out, "gk.perm");
        oracle_bookkeeping(cx, &st, &out, "gk.perm", &term);
        oracle_glyph_keyed(cx, &base, &out, &applied, Some(true), "gk.perm", &term);
        if out.ncalls != n {
            fail(cx, "decoder-call-count", "gk.perm", &term, json!({"calls": out.ncalls}));
        }
        if let Ok(f) = &out.res {
            finals.push((format!("perm{:?}", perm), tabmap(font_tables(f).unwrap())));
        }
        // decoder faults: every k (incl. one past the last call), kinds rotated (all kinds in thorough)
        for k in 0..=n {
            let kinds: Vec<u8> = if thorough || pi == 0 { (1..=6).collect() } else { vec![((k + pi) % 6) as u8 + 1] };
            for kind in kinds {
                let Some(o2) = run_call(&base, &sc.entries, &st, Some(k), kind) else { continue };
                let term = emit_case(cx, &base, &st, Some(k), kind, &o2, "gk.fault");
                oracle_bookkeeping(cx, &st, &o2, "gk.fault", &term);
                oracle_glyph_keyed(cx, &base, &o2, &applied, Some(k >= n), "gk.fault", &term);
                if k < n && o2.res != Err((6, 10 + kind as i64)) {
                    fail(cx, "fault-not-reported-as-decoder-error", "gk.fault", &term, json!({"k": k, "kind": kind}));
                }
            }
        }
        // groupings: first call applies subset A (others marked Applied), second call the rest
        if n >= 2 && (pi == 0 || thorough || rng.chance(1, 3)) {
            for mask in 1..(1u32 << n) - 1 {
                let mut st1: St = st.clone();
                for i in 0..n {
                    if mask & (1 << i) == 0 {
                        st1.insert(sc.entries[i].uri.clone(), None);
                    }
                }
                let Some(o1) = run_call(&base, &sc.entries, &st1, None, 0) else { continue };
                let ap1: Vec<(Entry, GkContent)> = applied.iter().filter(|(e, _)| st1[&e.uri].is_some()).cloned().collect();
                let term = emit_case(cx, &base, &st1, None, 0, &o1, "gk.group1");
                oracle_bookkeeping(cx, &st1, &o1, "gk.group1", &term);
                oracle_glyph_keyed(cx, &base, &o1, &ap1, Some(true), "gk.group1", &term);
                let Ok(f1) = &o1.res else { continue };
                let st2: St = st.iter().filter(|(k, _)| st1[*k].is_none()).map(|(k, v)| (k.clone(), v.clone())).collect();
                let Some(o2) = run_call(f1, &sc.entries, &st2, None, 0) else {
                    cx.st.count("select_failed_round2");
                    continue;
                };
                let ap2: Vec<(Entry, GkContent)> = o2.noninv.iter().map(|e| {
                    let i = sc.entries.iter().position(|x| x.uri == e.uri).unwrap();
                    (e.clone(), contents[perm[i]].clone())
                }).collect();
                let term = emit_case(cx, f1, &st2, None, 0, &o2, "gk.group2");
                oracle_bookkeeping(cx, &st2, &o2, "gk.group2", &term);
                oracle_glyph_keyed(cx, f1, &o2, &ap2, Some(true), "gk.group2", &term);
                if ap2.len() + ap1.len() != n {
                    fail(cx, "second-round-selection-not-complement", "gk.group2", &term, json!({}));
                }
                if let Ok(f2) = &o2.res {
                    finals.push((format!("perm{:?} mask{}", perm, mask), tabmap(font_tables(f2).unwrap())));
                }
            }
        }
    }
    if agree {
        if let Some((l0, t0)) = finals.first() {
            for (l, t) in &finals[1..] {
                if t != t0 {
                    let term = format!("{} vs {} base={}", l0, l, c_tables(&font_tables(&base).unwrap()));
                    // F-C18-4: same glyph data and logical offsets everywhere, only the offset WIDTH of a
                    // CFF / CFF2 / gvar table differs (an intermediate call widened it; widths never shrink)
                    let bt = tabmap(font_tables(&base).unwrap());
                    let wd = width_only_difference(t, t0);
                    let only_width = match &wd {
                        Some(tags) => !tags.is_empty() && tags.iter().all(|tg| has_shrinking_patch(&bt, contents, *tg)),
                        None => false,
                    };
                    if only_width {
                        fail(cx, "F-C18-4", "gk.agree", &term, json!({"a": l0, "b": l, "tables": wd.as_ref().map(|v| v.iter().map(|t| t.to_string()).collect::<Vec<_>>())}));
                    } else {
                        fail(cx, "order-or-grouping-dependent", "gk.agree", &term, json!({"a": l0, "b": l}));
                    }
                }
            }
            cx.st.add("agree_comparisons", finals.len() as u64 - 1);
        }
    }
}

// ---------------------------------------------------------------- scenario: malformed glyph keyed inputs
fn run_gk_malformed(cx: &mut Ctx, rng: &mut Rng) {
    let long = rng.chance(1, 2);
    let ng = 3 + rng.below(4) as usize;
    let n2x = if rng.chance(1, 3) { 1 } else { 0 };
    let mut sc = gk_scenario(rng, 2, n2x, long, ng, false);
    let n = sc.entries.len();
    let widex = rng.below(4) as u8 % 3;
    let mut contents = random_contents(rng, n, ng, true, widex, false);
    for c in contents.iter_mut() {
        if c.gids.is_empty() {
            c.gids.push(0);
            for t in c.data.iter_mut() {
                t.push(vec![1, 2, 3]);
            }
        }
    }
    let mut patches: Vec<Vec<u8>> = sc.entries.iter().zip(&contents).map(|(e, c)| patch_for(e, c)).collect();
    let which = rng.below(n as u64) as usize;
    let mut expect_ok = Some(false);
    let mut extra_st: Vec<(String, Option<Vec<u8>>)> = vec![];
    let mut drop_uri: Option<String> = None;
    let mut all_applied = false;
    let variant = rng.below(26);
    let label = format!("gk.malformed.{}", variant);
    let stream_of = |c: &GkContent| gk_stream(c);
    let e = sc.entries[which].clone();
    let c = contents[which].clone();
    match variant {
        0 => patches[which][0..4].copy_from_slice(b"ifgx"),
        1 => patches[which][9 + 15] ^= 1, // compat id mismatch
        2 => {
            // truncated decoded data
            let s = stream_of(&c);
            let cut = rng.below(s.len() as u64) as usize;
            patches[which] = gk_patch(b"ifgk", &e.compat, c.wide, s.len() as u32, &s[..cut]);
            expect_ok = None;
        }
        3 => {
            // unsorted / duplicate gids
            let mut c2 = c.clone();
            if c2.gids.len() < 2 {
                c2.gids = vec![1, 1];
                c2.data = c2.tables.iter().map(|_| vec![vec![7], vec![8]]).collect();
            } else {
                c2.gids.swap(0, 1);
            }
            let s = stream_of(&c2);
            patches[which] = gk_patch(b"ifgk", &e.compat, c2.wide, s.len() as u32, &s);
        }
        4 => {
            // data offsets not ascending / null / out of bounds: overwrite one offset
            let mut s = stream_of(&c);
            let w = if c.wide { 3 } else { 2 };
            let o = 5 + c.gids.len() * w + c.tables.len() * 4;
            let noff = c.gids.len() * c.tables.len() + 1;
            let idx = rng.below(noff as u64) as usize;
            let val: u32 = *rng.pick(&[0u32, 1, 0xFFFF_FFFF, s.len() as u32, s.len() as u32 + 1, 6]);
            s[o + idx * 4..o + idx * 4 + 4].copy_from_slice(&val.to_be_bytes());
            patches[which] = gk_patch(b"ifgk", &e.compat, c.wide, s.len() as u32, &s);
            expect_ok = None;
        }
        5 => {
            // duplicate / unsorted table tags
            let mut c2 = c.clone();
            c2.tables = vec![GLYF, GLYF];
            c2.data = vec![c.data[c.tables.iter().position(|t| *t == GLYF).unwrap()].clone(); 2];
            if rng.chance(1, 2) {
                c2.tables = vec![tag(b"zzzz"), GLYF];
            }
            let s = stream_of(&c2);
            patches[which] = gk_patch(b"ifgk", &e.compat, c2.wide, s.len() as u32, &s);
        }
        6 => {
            // gid beyond the font's maximum (by 0, 1 or many)
            let mut c2 = c.clone();
            let g = ng as u32 + *rng.pick(&[0u32, 1, 200]);
            c2.gids.push(g);
            for t in c2.data.iter_mut() {
                t.push(vec![9, 9]);
            }
            let s = stream_of(&c2);
            patches[which] = gk_patch(b"ifgk", &e.compat, c2.wide, s.len() as u32, &s);
        }
        7 => {
            // max_uncompressed_length one too small / exact
            let s = stream_of(&c);
            let exact = rng.chance(1, 3);
            patches[which] = gk_patch(b"ifgk", &e.compat, c.wide, s.len() as u32 - if exact { 0 } else { 1 }, &s);
            expect_ok = Some(exact);
        }
        8 => {
            // loca not ascending
            let l = sc.font.tables.get_mut(&LOCA).unwrap();
            let w = if long { 4 } else { 2 };
            let i = rng.below((ng) as u64) as usize;
            let k = i * w + w - 1;
            l[k] = l[k].wrapping_add(if long { 40 } else { 20 });
            expect_ok = None;
        }
        9 => {
            // loca too short / odd length
            let l = sc.font.tables.get_mut(&LOCA).unwrap();
            let cut = 1 + rng.below(if long { 8 } else { 4 }) as usize;
            let nl = l.len().saturating_sub(cut);
            l.truncate(nl);
            expect_ok = None;
        }
        10 => {
            // glyf shorter than loca says
            let g = sc.font.tables.get_mut(&GLYF).unwrap();
            let cut = 1 + rng.below(4) as usize;
            let nl = g.len().saturating_sub(cut);
            g.truncate(nl);
            expect_ok = None;
        }
        11 => {
            sc.font.tables.remove(&GLYF);
        }
        12 => {
            sc.font.tables.remove(&LOCA);
        }
        13 => {
            sc.font.tables.remove(&MAXP);
        }
        14 => {
            sc.font.tables.remove(&HEAD);
        }
        15 => {
            sc.font.tables.insert(MAXP, maxp_table(0));
        }
        16 => {
            // gvar listed but the font has none (glyf, if listed, is processed first)
            let mut c2 = c.clone();
            c2.tables = vec![GLYF, tag(b"gvar")];
            let gd = c.data[c.tables.iter().position(|t| *t == GLYF).unwrap()].clone();
            c2.data = vec![gd.clone(), gd];
            let s = stream_of(&c2);
            patches[which] = gk_patch(b"ifgk", &e.compat, c2.wide, s.len() as u32, &s);
        }
        17 => {
            // status map lacks one of the uris
            drop_uri = Some(e.uri.clone());
        }
        18 => {
            // everything already applied
            all_applied = true;
        }
        19 => {
            // unrelated uris in the map (pending and applied) must stay untouched
            extra_st.push(("other/1".into(), Some(vec![1, 2, 3])));
            extra_st.push(("other/2".into(), None));
            expect_ok = Some(true);
        }
        20 => {
            // patch shorter than its header
            let cut = rng.below(29) as usize;
            patches[which].truncate(cut);
        }
        21 => {
            // maxp says more glyphs than loca has entries for
            sc.font.tables.insert(MAXP, maxp_table(ng as u16 + 1 + rng.below(3) as u16));
            expect_ok = None;
        }
        22 => {
            // maxp says fewer glyphs than loca has
            sc.font.tables.insert(MAXP, maxp_table((ng as u16).saturating_sub(1).max(1)));
            expect_ok = None;
        }
        23 => {
            // patch lists only tables that are ignored
            let mut c2 = c.clone();
            c2.tables = vec![tag(b"abcd")];
            c2.data = vec![c.data[0].clone()];
            let s = stream_of(&c2);
            patches[which] = gk_patch(b"ifgk", &e.compat, c2.wide, s.len() as u32, &s);
            contents[which] = c2;
            expect_ok = Some(true);
        }
        24 => {
            // empty glyph list
            let c2 = GkContent { tables: vec![GLYF], gids: vec![], data: vec![vec![]], wide: c.wide };
            let s = stream_of(&c2);
            patches[which] = gk_patch(b"ifgk", &e.compat, c2.wide, s.len() as u32, &s);
            contents[which] = c2;
            expect_ok = Some(true);
        }
        _ => {
            // head says the other loca format
            let h = sc.font.tables.get_mut(&HEAD).unwrap();
            h[51] ^= 1;
            expect_ok = None;
        }
    }
    let base = build_font(&sc.font);
    let mut st: St = sc.entries.iter().zip(&patches).map(|(e, p)| (e.uri.clone(), if all_applied { None } else { Some(p.clone()) })).collect();
    if let Some(u) = drop_uri {
        st.remove(&u);
    }
    for (k, v) in extra_st {
        st.insert(k, v);
    }
    let Some(out) = run_call(&base, &sc.entries, &st, None, 0) else {
        cx.st.count("select_failed_malformed");
        return;
    };
    let term = emit_case(cx, &base, &st, None, 0, &out, &label);
    oracle_bookkeeping(cx, &st, &out, &label, &term);
    let well_formed_font = !matches!(variant, 8 | 9 | 10 | 11 | 12 | 13 | 14 | 15 | 21 | 22 | 25);
    if well_formed_font {
        let applied: Vec<(Entry, GkContent)> = out.noninv.iter().filter(|e| matches!(st.get(&e.uri), Some(Some(_)))).map(|e| {
            let i = sc.entries.iter().position(|x| x.uri == e.uri).unwrap();
            (e.clone(), contents[i].clone())
        }).collect();
        if expect_ok == Some(true) || out.res.is_err() {
            oracle_glyph_keyed(cx, &base, &out, &applied, expect_ok, &label, &term);
        } else if expect_ok == Some(false) {
            fail(cx, "invalid-input-accepted", &label, &term, json!({}));
        }
    } else if out.res.is_ok() {
        // malformed base font accepted: still every output invariant except per-glyph expectations
        if let Some(t) = out.res.as_ref().ok().and_then(|f| font_tables(f)) {
            let t = tabmap(t);
            if let Some(o) = loca_offsets(&t) {
                if o.windows(2).any(|w| w[0] > w[1]) {
                    fail(cx, "offsets-not-ascending", &label, &term, json!({}));
                }
            }
        }
    }
}

// ---------------------------------------------------------------- scenario: damaged / unusual gvar
fn run_gvar_malformed(cx: &mut Ctx, rng: &mut Rng) {
    let long = rng.chance(1, 2);
    let ng = 3 + rng.below(4) as usize;
    let mut sc = gk_scenario(rng, 1, 0, long, ng, true);
    let glong = rng.chance(1, 2);
    let mut glyphs: Vec<Vec<u8>> = (0..ng).map(|g| vec![0xB0 + g as u8; 2 * rng.below(3) as usize]).collect();
    let variant = rng.below(12);
    let label = format!("gvar.malformed.{}", variant);
    let mut expect_ok: Option<bool> = Some(false);
    let stc = *rng.pick(&[0u16, 1, 2]);
    let mut gids: Vec<u32> = (0..ng as u32).filter(|_| rng.chance(1, 2)).collect();
    if gids.is_empty() {
        gids.push(0);
    }
    let mut pdata: Vec<Vec<u8>> = gids.iter().map(|g| vec![0x60 + *g as u8; rng.below(5) as usize]).collect();
    let mut g = gvar_table(glong, 2, stc, &glyphs, rng.chance(1, 3), 0);
    let w = if glong { 4 } else { 2 };
    match variant {
        0 => {
            // gvar glyph count differs from maxp
            if rng.chance(1, 2) { glyphs.push(vec![]); } else { glyphs.pop(); }
            g = gvar_table(glong, 2, stc, &glyphs, false, 0);
            expect_ok = None;
        }
        1 => {
            let i = rng.below(ng as u64) as usize;
            let k = 20 + i * w + w - 1;
            g[k] = g[k].wrapping_add(40);
            expect_ok = None;
        }
        2 => {
            let v = g.len() as u32 + *rng.pick(&[0u32, 1, 50]);
            g[16..20].copy_from_slice(&v.to_be_bytes());
            expect_ok = None;
        }
        3 => g[8..12].copy_from_slice(&[0, 0, 0, 0]),
        4 => {
            let v = g.len() as u32 + *rng.pick(&[0u32, 1, 9]);
            g[8..12].copy_from_slice(&v.to_be_bytes());
            expect_ok = None;
        }
        5 => {
            // no variation data at all, before and after
            for gl in glyphs.iter_mut() { gl.clear(); }
            g = gvar_table(glong, 2, stc, &glyphs, false, 0);
            for d in pdata.iter_mut() { d.clear(); }
            expect_ok = Some(true);
        }
        6 => {
            let cut = rng.below(g.len().min(20 + (ng + 1) * w) as u64) as usize;
            g.truncate(cut);
        }
        7 => {
            let nl = g.len().saturating_sub(1 + rng.below(3) as usize);
            g.truncate(nl);
            expect_ok = None;
        }
        8 => {
            // slack after the table content
            g.extend_from_slice(&[0xEE; 7]);
            expect_ok = Some(true);
        }
        9 => {
            // other flag bits must survive
            g[14] = 0x12;
            g[15] |= 0x40;
            expect_ok = Some(true);
        }
        10 => {
            // glyph beyond maximum in a gvar-only patch
            gids.push(ng as u32 + rng.below(2) as u32);
            pdata.push(vec![1, 2]);
        }
        _ => {
            expect_ok = Some(true);
        }
    }
    sc.font.tables.insert(GVAR, g);
    let both = rng.chance(1, 2);
    let c = if both {
        GkContent { tables: vec![GLYF, GVAR], gids: gids.clone(), data: vec![gids.iter().map(|_| vec![9, 9]).collect(), pdata.clone()], wide: false }
    } else {
        GkContent { tables: vec![GVAR], gids: gids.clone(), data: vec![pdata.clone()], wide: false }
    };
    let base = build_font(&sc.font);
    let st: St = [(sc.entries[0].uri.clone(), Some(patch_for(&sc.entries[0], &c)))].into_iter().collect();
    let Some(out) = run_call(&base, &sc.entries, &st, None, 0) else {
        cx.st.count("select_failed_gvar");
        return;
    };
    let term = emit_case(cx, &base, &st, None, 0, &out, &label);
    oracle_bookkeeping(cx, &st, &out, &label, &term);
    let judged = matches!(variant, 3 | 5 | 6 | 8 | 9 | 10 | 11);
    if judged {
        oracle_glyph_keyed(cx, &base, &out, &[(sc.entries[0].clone(), c)], expect_ok, &label, &term);
    } else if let Ok(f) = &out.res {
        if let Some(a) = font_tables(f).map(tabmap).and_then(|t| offset_array(&t, GVAR)) {
            if a.offs.windows(2).any(|w| w[0] > w[1]) {
                fail(cx, "offsets-not-ascending", &label, &term, json!({}));
            }
        }
    }
}

// ---------------------------------------------------------------- scenario: CFF / CFF2 charstrings
fn cff_scenario(rng: &mut Rng, which: u8, n: usize, ng: usize, off_size: u8, big: bool) -> (GkScenario, Vec<Tag>) {
    let mut tables = BTreeMap::new();
    tables.insert(MAXP, maxp_table(ng as u16));
    tables.insert(tag(b"tab1"), b"abcdef\n".to_vec());
    let mut mk = |cff2: bool, rng: &mut Rng| {
        let mut room = if off_size == 1 { 250usize } else { usize::MAX };
        let glyphs: Vec<Vec<u8>> = (0..ng)
            .map(|g| {
                let l = if rng.chance(1, 4) { 0 } else if big { 30 + rng.below(40) as usize } else { rng.below(7) as usize };
                let l = l.min(room);
                room -= l;
                (0..l).map(|i| 0x90u8.wrapping_add((g * 16 + i) as u8)).collect()
            })
            .collect();
        cff_table(cff2, off_size, &glyphs)
    };
    let mut tags = vec![];
    let (mut o1, mut o2) = (None, None);
    if which != 1 {
        let (t, cs) = mk(false, rng);
        tables.insert(CFF, t);
        o1 = Some(cs);
        tags.push(CFF);
    }
    if which != 0 {
        let (t, cs) = mk(true, rng);
        tables.insert(CFF2, t);
        o2 = Some(cs);
        tags.push(CFF2);
    }
    let (ift, entries) = ift_table_cs(0, compat(1), 3, "foo", &vec![None; n], o1, o2);
    tables.insert(IFT, ift);
    (GkScenario { font: FontSpec { tables }, entries }, tags)
}
fn cff_contents(rng: &mut Rng, n: usize, ng: usize, tags: &[Tag], agree: bool, big: bool, mixed_width: bool) -> Vec<GkContent> {
    let global: Vec<Vec<u8>> = (0..ng).map(|g| {
        let l = if big { rng.below(60) as usize } else { rng.below(6) as usize };
        (0..l).map(|i| (0x11 * (g as u8 + 1)).wrapping_add(i as u8)).collect()
    }).collect();
    (0..n)
        .map(|p| {
            let mut gids: Vec<u32> = (0..ng as u32).filter(|_| rng.chance(2, 5)).collect();
            if gids.is_empty() {
                gids.push(rng.below(ng as u64) as u32);
            }
            let mut tables: Vec<Tag> = tags.iter().cloned().filter(|_| rng.chance(3, 4)).collect();
            if tables.is_empty() {
                tables.push(tags[0]);
            }
            let data = tables
                .iter()
                .map(|t| {
                    gids.iter()
                        .map(|g| {
                            let mut d = if agree { global[*g as usize].clone() } else {
                                let l = rng.below(6) as usize;
                                (0..l).map(|i| (p * 16 + i) as u8).collect()
                            };
                            if *t == CFF2 {
                                d.reverse();
                            }
                            d
                        })
                        .collect()
                })
                .collect();
            GkContent { tables, gids, data, wide: mixed_width && p % 2 == 1 }
        })
        .collect()
}
fn run_cff_malformed(cx: &mut Ctx, rng: &mut Rng) {
    let ng = 3 + rng.below(3) as usize;
    let which = rng.below(2) as u8;
    let tg = if which == 0 { CFF } else { CFF2 };
    let cw = if which == 0 { 2 } else { 4 };
    let off_size = 1 + rng.below(2) as u8;
    let (mut sc, tags) = cff_scenario(rng, which, 1, ng, off_size, false);
    let variant = rng.below(12);
    let label = format!("cff.malformed.{}", variant);
    let mut expect_ok: Option<bool> = Some(false);
    let mut gids: Vec<u32> = (0..ng as u32).filter(|_| rng.chance(1, 2)).collect();
    if gids.is_empty() {
        gids.push(0);
    }
    let cs = {
        let ift = &sc.font.tables[&IFT];
        let tl = u16::from_be_bytes([ift[33], ift[34]]) as usize;
        u32::from_be_bytes([ift[35 + tl], ift[36 + tl], ift[37 + tl], ift[38 + tl]]) as usize
    };
    match variant {
        0 => {
            // count differs from maxp
            sc.font.tables.insert(MAXP, maxp_table(ng as u16 + 1));
        }
        1 => {
            let t = sc.font.tables.get_mut(&tg).unwrap();
            t[cs + cw] = *rng.pick(&[0u8, 5, 200]);
            expect_ok = None;
        }
        2 => {
            // charstrings offset beyond / at the end of the table
            let l = sc.font.tables[&tg].len() as u32;
            let ift = sc.font.tables.get_mut(&IFT).unwrap();
            let tl = u16::from_be_bytes([ift[33], ift[34]]) as usize;
            let v = l + *rng.pick(&[0u32, 1, 7]);
            ift[35 + tl..39 + tl].copy_from_slice(&v.to_be_bytes());
            expect_ok = None;
        }
        3 => {
            // the mapping table does not carry the offset field
            let (ift, entries) = ift_table(0, compat(1), 3, "foo", &[None]);
            sc.font.tables.insert(IFT, ift);
            sc.entries = entries;
        }
        4 => {
            sc.font.tables.remove(&tg);
        }
        5 => {
            // truncated inside the offsets / data
            let t = sc.font.tables.get_mut(&tg).unwrap();
            let nl = t.len().saturating_sub(1 + rng.below(6) as usize).max(cs + 1);
            t.truncate(nl);
            expect_ok = None;
        }
        6 => {
            // interior offsets not ascending
            let t = sc.font.tables.get_mut(&tg).unwrap();
            let i = 1 + rng.below(ng as u64 - 1) as usize;
            let k = cs + cw + 1 + i * off_size as usize + off_size as usize - 1;
            t[k] = t[k].wrapping_add(60);
            expect_ok = None;
        }
        7 => {
            // the LAST offset smaller than the one before it
            let t = sc.font.tables.get_mut(&tg).unwrap();
            let k = cs + cw + 1 + ng * off_size as usize + off_size as usize - 1;
            t[k] = 1;
            expect_ok = None;
        }
        8 => {
            // glyph beyond the maximum
            gids.push(ng as u32 + rng.below(2) as u32);
        }
        9 => {
            // trailing bytes after the charstrings data
            sc.font.tables.get_mut(&tg).unwrap().extend_from_slice(&[0xEE; 5]);
            expect_ok = None;
        }
        _ => {
            expect_ok = Some(true);
        }
    }
    let c = GkContent { tables: vec![tags[0]], gids: gids.clone(), data: vec![gids.iter().map(|g| vec![0x50 + *g as u8; rng.below(5) as usize]).collect()], wide: false };
    let base = build_font(&sc.font);
    let st: St = [(sc.entries[0].uri.clone(), Some(patch_for(&sc.entries[0], &c)))].into_iter().collect();
    let Some(out) = run_call(&base, &sc.entries, &st, None, 0) else {
        cx.st.count("select_failed_cff");
        return;
    };
    let term = emit_case(cx, &base, &st, None, 0, &out, &label);
    oracle_bookkeeping(cx, &st, &out, &label, &term);
    if matches!(variant, 0 | 3 | 4 | 8 | 10 | 11) {
        oracle_glyph_keyed(cx, &base, &out, &[(sc.entries[0].clone(), c)], expect_ok, &label, &term);
    } else if let Ok(f) = &out.res {
        if let Some(a) = font_tables(f).map(tabmap).and_then(|t| offset_array(&t, tg)) {
            if a.offs.windows(2).any(|w| w[0] > w[1]) {
                fail(cx, "offsets-not-ascending", &label, &term, json!({"offsets": a.offs}));
            }
        }
    }
}

// ---------------------------------------------------------------- scenario: table keyed
fn run_tk(cx: &mut Ctx, rng: &mut Rng, thorough: bool) {
    let mut tables: BTreeMap<Tag, Vec<u8>> = BTreeMap::new();
    for t in [b"tab1", b"tab2", b"tab3", b"tab4"] {
        if rng.chance(5, 6) {
            let tl = 1 + rng.below(6) as usize;
            tables.insert(tag(t), rng.bytes(tl));
        }
    }
    if rng.chance(1, 2) {
        tables.insert(HEAD, head_table(false));
    }
    let enc = if rng.chance(1, 2) { 1 } else { 2 };
    let use_iftx = rng.chance(1, 3);
    let mut all: Vec<Entry> = vec![];
    if use_iftx {
        // IFT: one glyph keyed entry, IFTX: the invalidating one
        let (t0, e0) = ift_table(0, compat(1), 3, "foo", &[None]);
        tables.insert(IFT, t0);
        all.extend(e0);
        let (t1, e1) = ift_table(1, compat(7), enc, "fpp", &[None]);
        tables.insert(IFTX, t1);
        all.extend(e1);
    } else {
        let (t0, e0) = ift_table(0, compat(1), enc, "foo", &[None, Some(3)]);
        tables.insert(IFT, t0);
        all.extend(e0);
    }
    let inv = all.iter().find(|e| e.enc != 3).unwrap().clone();
    // patch entries
    let ne = rng.below(5) as usize;
    let cand = [tag(b"tab1"), tag(b"tab2"), tag(b"tab3"), tag(b"tab4"), tag(b"tab5"), IFT, HEAD, tag(b"new1")];
    let mut entries: Vec<TkEntry> = (0..ne)
        .map(|_| {
            let sl = rng.below(5) as usize;
            let stream = rng.bytes(sl);
            let t = *rng.pick(&cand);
            let flags = *rng.pick(&[0u8, 0, 1, 1, 2, 3]);
            TkEntry { tag: t, flags, max_len: 64, stream }
        })
        .collect();
    // keep the mapping table parseable for later rounds: never diff/replace IFT with garbage unless dropping
    for e in entries.iter_mut() {
        if e.tag == IFT && e.flags & 2 == 0 {
            e.tag = tag(b"tab2");
        }
    }
    let mut expect_ok: Option<bool> = Some(true);
    // validity by authoring knowledge: first entry per tag
    {
        let mut seen = vec![];
        for e in &entries {
            if seen.contains(&e.tag) {
                continue;
            }
            seen.push(e.tag);
            if e.flags & 2 == 0 && e.flags & 1 == 0 && !tables.contains_key(&e.tag) {
                expect_ok = Some(false);
                break;
            }
        }
    }
    let mut patch = tk_patch(b"iftk", &inv.compat, &entries);
    let variant = rng.below(16);
    let label = format!("tk.{}", if variant < 8 { variant } else { 99 });
    match variant {
        0 => {
            patch[0..4].copy_from_slice(b"ifgk");
            expect_ok = Some(false);
        }
        1 => {
            patch[8 + rng.below(16) as usize] ^= 0x10;
            expect_ok = Some(false);
        }
        2 if ne >= 2 => {
            // swap two offsets (unsorted)
            let a = 26;
            let (x, y) = (patch[a..a + 4].to_vec(), patch[a + 4..a + 8].to_vec());
            patch[a..a + 4].copy_from_slice(&y);
            patch[a + 4..a + 8].copy_from_slice(&x);
            expect_ok = None;
        }
        3 if ne >= 1 => {
            // last offset beyond the data / null / tiny
            let i = rng.below(ne as u64 + 1) as usize;
            let val: u32 = *rng.pick(&[0u32, patch.len() as u32 + 5, patch.len() as u32, 3, 0xFFFF_FFF0]);
            patch[26 + i * 4..30 + i * 4].copy_from_slice(&val.to_be_bytes());
            expect_ok = None;
        }
        4 => {
            let cut = rng.below(patch.len() as u64) as usize;
            patch.truncate(cut);
            expect_ok = None;
        }
        5 if ne >= 1 => {
            // max length too small for one entry
            let i = rng.below(ne as u64) as usize;
            entries[i].max_len = rng.below(3) as u32;
            patch = tk_patch(b"iftk", &inv.compat, &entries);
            expect_ok = None;
        }
        _ => {}
    }
    let font = FontSpec { tables };
    let base = build_font(&font);
    let mut st: St = BTreeMap::new();
    st.insert(inv.uri.clone(), Some(patch.clone()));
    for e in &all {
        if e.uri != inv.uri {
            match rng.below(3) {
                0 => {}
                1 => {
                    st.insert(e.uri.clone(), None);
                }
                _ => {
                    st.insert(e.uri.clone(), Some(vec![1, 2, 3]));
                }
            }
        }
    }
    if variant == 6 {
        st.remove(&inv.uri);
        expect_ok = Some(false);
    }
    if variant == 7 {
        st.insert(inv.uri.clone(), None); // already applied: falls through to the glyph keyed part
        expect_ok = None;
    }
    let ndec = {
        // number of decoder calls a fully successful application makes
        let mut seen = vec![];
        let mut c = 0;
        for e in &entries {
            if !seen.contains(&e.tag) {
                seen.push(e.tag);
                if e.flags & 2 == 0 {
                    c += 1;
                }
            }
        }
        c
    };
    let mut faults: Vec<(Option<usize>, u8)> = vec![(None, 0)];
    for k in 0..=ndec {
        if thorough {
            for kind in 1..=6 {
                faults.push((Some(k), kind));
            }
        } else {
            faults.push((Some(k), (rng.below(6) + 1) as u8));
        }
    }
    for (fa, kind) in faults {
        let Some(out) = run_call(&base, &all, &st, fa, kind) else {
            cx.st.count("select_failed_tk");
            return;
        };
        let lab = if fa.is_some() { format!("{}.fault", label) } else { label.clone() };
        let term = emit_case(cx, &base, &st, fa, kind, &out, &lab);
        oracle_bookkeeping(cx, &st, &out, &lab, &term);
        if variant != 7 && variant != 6 {
            let exp = match (expect_ok, fa) {
                (Some(true), Some(k)) => Some(k >= ndec),
                (e, _) => e,
            };
            if matches!(variant, 2 | 3 | 4 | 5) && out.res.is_ok() {
                // structurally damaged patches that are still accepted are not judged by authoring knowledge
                cx.st.count("tk.damaged_but_accepted");
            } else {
                oracle_table_keyed(cx, &base, &out, &entries, exp, &lab, &term);
            }
            if let (Some(true), Some(k)) = (expect_ok, fa) {
                if k < ndec && out.res != Err((6, 10 + kind as i64)) {
                    fail(cx, "fault-not-reported-as-decoder-error", &lab, &term, json!({"k": k}));
                }
            }
        }
    }
}

// ---------------------------------------------------------------- big fonts: oracle only
fn run_threshold(cx: &mut Ctx, rng: &mut Rng) {
    // short loca: total size straddling 131070; long loca far above it
    for (long, total_target, grow) in [
        (false, 131066usize, 2usize),
        (false, 131066, 4),
        (false, 131066, 5),
        (false, 131066, 6),
        (false, 131070, 0),
        (false, 131070, 1),
        (false, 131070, 2),
        (true, 131066, 6),
        (true, 131070, 3),
        (true, 140001, 7),
    ] {
        let ng = 4usize;
        let mut glyphs: Vec<Vec<u8>> = vec![vec![1, 2], vec![], vec![3, 4, 5, 6], vec![]];
        let used: usize = glyphs.iter().map(|g| g.len()).sum();
        glyphs[3] = vec![0xAB; total_target - used];
        let mut glyf = vec![];
        let mut offs = vec![];
        for g in &glyphs {
            offs.push(glyf.len() as u32);
            glyf.extend_from_slice(g);
        }
        offs.push(glyf.len() as u32);
        let mut tables = BTreeMap::new();
        tables.insert(GLYF, glyf);
        tables.insert(LOCA, loca_bytes(&offs, long));
        tables.insert(HEAD, head_table(long));
        tables.insert(MAXP, maxp_table(ng as u16));
        let (ift, entries) = ift_table(0, compat(1), 3, "foo", &[None]);
        tables.insert(IFT, ift);
        let base = build_font(&FontSpec { tables });
        // replace the empty glyph 1 by `grow` bytes
        let c = GkContent { tables: vec![GLYF], gids: vec![1], data: vec![vec![(0..grow).map(|i| 0x40 + i as u8).collect()]], wide: false };
        let st: St = [(entries[0].uri.clone(), Some(patch_for(&entries[0], &c)))].into_iter().collect();
        let Some(out) = run_call(&base, &entries, &st, None, 0) else { continue };
        cx.st.evaluations += 1;
        cx.st.count("threshold");
        let padded = if long { grow } else { grow + grow % 2 };
        let fits = long || total_target + padded <= 131070;
        let term = format!("threshold long={} total={} grow={}", long, total_target, grow);
        oracle_bookkeeping(cx, &st, &out, "threshold", &term);
        oracle_glyph_keyed(cx, &base, &out, &[(entries[0].clone(), c)], Some(fits), "threshold", &term);
        if !fits && out.res != Err((3, 2)) {
            fail(cx, "overflow-not-reported-as-offset-overflow", "threshold", &term, json!({"res": format!("{:?}", out.res.as_ref().err())}));
        }
        cx.st.nontrivial(&term);
        let _ = rng.next_u64();
    }
    // gvar: short offsets widen to long when the patched data no longer fits 131070 bytes
    for (glong, ng, base_total, grows) in [
        (false, 4usize, 131066usize, vec![2usize]),
        (false, 4, 131066, vec![4]),
        (false, 4, 131066, vec![5]),
        (false, 4, 131066, vec![6]),
        (false, 4, 131070, vec![1]),
        (false, 4, 131068, vec![1]),
        (false, 4, 131066, vec![1, 1, 1]),
        (false, 4, 131068, vec![1, 1]),
        (false, 4, 131064, vec![3, 1, 1]),
        (false, 4, 131066, vec![1, 1]),
        (false, 4, 131068, vec![131072]),
        (false, 600, 100, vec![131100]),
        (false, 4, 0, vec![131072]),
        (false, 4, 8, vec![131070]),
        (true, 4, 131070, vec![9]),
    ] {
        let mut glyphs: Vec<Vec<u8>> = vec![vec![]; ng];
        glyphs[ng - 1] = vec![0xAB; base_total];
        let mut tables = BTreeMap::new();
        tables.insert(GVAR, gvar_table(glong, 2, 1, &glyphs, false, 0));
        tables.insert(MAXP, maxp_table(ng as u16));
        let (ift, entries) = ift_table(0, compat(1), 3, "foo", &[None]);
        tables.insert(IFT, ift);
        let base = build_font(&FontSpec { tables });
        let c = GkContent {
            tables: vec![GVAR],
            gids: (0..grows.len() as u32).collect(),
            data: vec![grows.iter().map(|g| (0..*g).map(|i| 0x40 + (i % 64) as u8).collect()).collect()],
            wide: false,
        };
        let st: St = [(entries[0].uri.clone(), Some(patch_for(&entries[0], &c)))].into_iter().collect();
        let Some(out) = run_call(&base, &entries, &st, None, 0) else { continue };
        cx.st.evaluations += 1;
        cx.st.count("threshold.gvar");
        let term = format!("gvar-threshold long={} glyphs={} base={} grow={:?}", glong, ng, base_total, grows);
        oracle_bookkeeping(cx, &st, &out, "threshold.gvar", &term);
        oracle_glyph_keyed(cx, &base, &out, &[(entries[0].clone(), c)], Some(true), "threshold.gvar", &term);
        if let Ok(f) = &out.res {
            let widened = font_tables(f).map(tabmap).and_then(|t| offset_array(&t, GVAR)).map(|a| !a.short).unwrap_or(false);
            let padded: usize = grows.iter().map(|g| g + g % 2).sum();
            let need = !glong && base_total + padded > 131070;
            if widened != (glong || need) {
                fail(cx, "gvar-widening-wrong", "threshold.gvar", &term, json!({"widened": widened}));
            }
        }
        cx.st.nontrivial(&term);
    }
}

/// fixed instance of finding F-C18-4: CFF offSize 1, glyphs of 200 and 50 bytes; P1 shrinks glyph 0 to 10 bytes,
/// P2 grows glyph 1 to 60 bytes.  One call (or P1 first): 70 bytes, offSize stays 1.  P2 first: 260 bytes -> offSize 2,
/// and the later shrink never brings it back.
fn run_width_grouping(cx: &mut Ctx) {
    for cff2 in [false, true] {
        let tg = if cff2 { CFF2 } else { CFF };
        let glyphs = vec![vec![0xA1u8; 200], vec![0xB2u8; 50]];
        let (tbl, cs) = cff_table(cff2, 1, &glyphs);
        let mut tables = BTreeMap::new();
        tables.insert(MAXP, maxp_table(2));
        tables.insert(tg, tbl);
        let (ift, entries) = ift_table_cs(0, compat(1), 3, "foo", &[None, None], if cff2 { None } else { Some(cs) }, if cff2 { Some(cs) } else { None });
        tables.insert(IFT, ift);
        let base = build_font(&FontSpec { tables });
        let p1 = GkContent { tables: vec![tg], gids: vec![0], data: vec![vec![vec![0x11; 10]]], wide: false };
        let p2 = GkContent { tables: vec![tg], gids: vec![1], data: vec![vec![vec![0x22; 60]]], wide: false };
        let pd = |i: usize, c: &GkContent| (entries[i].uri.clone(), Some(patch_for(&entries[i], c)));
        // one call
        let st: St = [pd(0, &p1), pd(1, &p2)].into_iter().collect();
        let Some(one) = run_call(&base, &entries, &st, None, 0) else { return };
        let term = emit_case(cx, &base, &st, None, 0, &one, "width.one");
        oracle_glyph_keyed(cx, &base, &one, &[(entries[0].clone(), p1.clone()), (entries[1].clone(), p2.clone())], Some(true), "width.one", &term);
        // P2 first, then P1
        let st1: St = [(entries[0].uri.clone(), None), pd(1, &p2)].into_iter().collect();
        let Some(a) = run_call(&base, &entries, &st1, None, 0) else { return };
        let term = emit_case(cx, &base, &st1, None, 0, &a, "width.two.a");
        oracle_glyph_keyed(cx, &base, &a, &[(entries[1].clone(), p2.clone())], Some(true), "width.two.a", &term);
        let Ok(fa) = &a.res else { return };
        let st2: St = [pd(0, &p1)].into_iter().collect();
        let Some(b) = run_call(fa, &entries, &st2, None, 0) else { return };
        let term = emit_case(cx, fa, &st2, None, 0, &b, "width.two.b");
        oracle_glyph_keyed(cx, fa, &b, &[(entries[0].clone(), p1.clone())], Some(true), "width.two.b", &term);
        if let (Ok(f1), Ok(f2)) = (&one.res, &b.res) {
            let (t1, t2) = (tabmap(font_tables(f1).unwrap()), tabmap(font_tables(f2).unwrap()));
            if t1 != t2 {
                let bt = tabmap(font_tables(&base).unwrap());
                let same_glyphs = matches!(width_only_difference(&t2, &t1), Some(ref v) if v == &vec![tg])
                    && has_shrinking_patch(&bt, &[p1.clone(), p2.clone()], tg);
                let term = format!("width-grouping cff2={} one-call vs [P2],[P1]", cff2);
                fail(cx, if same_glyphs { "F-C18-4" } else { "order-or-grouping-dependent" }, "width.grouping", &term, json!({"tables": [tg.to_string()]}));
            }
        }
    }
    // the gvar variant (short -> long offsets), oracle only: 131000 + 50 bytes; P1: glyph 0 -> 10 bytes, P2: glyph 1 -> 200 bytes
    {
        let glyphs = vec![vec![0xA1u8; 131000], vec![0xB2u8; 50]];
        let mut tables = BTreeMap::new();
        tables.insert(MAXP, maxp_table(2));
        tables.insert(GVAR, gvar_table(false, 2, 1, &glyphs, false, 0));
        let (ift, entries) = ift_table(0, compat(1), 3, "foo", &[None, None]);
        tables.insert(IFT, ift);
        let base = build_font(&FontSpec { tables });
        let p1 = GkContent { tables: vec![GVAR], gids: vec![0], data: vec![vec![vec![0x11; 10]]], wide: false };
        let p2 = GkContent { tables: vec![GVAR], gids: vec![1], data: vec![vec![vec![0x22; 200]]], wide: false };
        let pd = |i: usize, c: &GkContent| (entries[i].uri.clone(), Some(patch_for(&entries[i], c)));
        let st: St = [pd(0, &p1), pd(1, &p2)].into_iter().collect();
        let st1: St = [(entries[0].uri.clone(), None), pd(1, &p2)].into_iter().collect();
        let st2: St = [pd(0, &p1)].into_iter().collect();
        if let (Some(one), Some(a)) = (run_call(&base, &entries, &st, None, 0), run_call(&base, &entries, &st1, None, 0)) {
            cx.st.evaluations += 2;
            if let (Ok(f1), Ok(fa)) = (&one.res, &a.res) {
                if let Some(b) = run_call(fa, &entries, &st2, None, 0) {
                    cx.st.evaluations += 1;
                    if let Ok(f2) = &b.res {
                        let (t1, t2) = (tabmap(font_tables(f1).unwrap()), tabmap(font_tables(f2).unwrap()));
                        if t1 != t2 {
                            let bt = tabmap(font_tables(&base).unwrap());
                            let cls = matches!(width_only_difference(&t2, &t1), Some(ref v) if v == &vec![GVAR])
                                && has_shrinking_patch(&bt, &[p1.clone(), p2.clone()], GVAR);
                            fail(cx, if cls { "F-C18-4" } else { "order-or-grouping-dependent" }, "width.grouping", "width-grouping gvar one-call vs [P2],[P1]", json!({"tables": ["gvar"]}));
                        }
                    } else {
                        fail(cx, "valid-patches-rejected", "width.grouping", "gvar [P2],[P1] second call", json!({"err": format!("{:?}", b.res.as_ref().err())}));
                    }
                }
            } else {
                fail(cx, "valid-patches-rejected", "width.grouping", "gvar width grouping", json!({}));
            }
        }
    }
}

fn main() {
    silence_panics();
    let args: Vec<String> = std::env::args().collect();
    let thorough = tier_is_thorough(&args);
    let seed = seed_from_env();
    let dir = out_dir(&args, "C18");
    let mut rng = Rng::new(seed);
    let mut st = Stats::new();
    let mut cw = CaseWriter::new(
        &dir,
        "From Coq Require Import ZArith List. Import ListNotations. Open Scope Z_scope.\nFrom FV Require Import Lib.Cases C18.Model.",
        "case_ty",
        "check_case",
        if thorough { 700 } else { 350 },
    );
    let budget = if thorough { 40_000 } else { 5_600 };
    {
        let mut cx = Ctx { cw: &mut cw, st: &mut st, budget, reported: BTreeMap::new() };
        // glyph keyed families
        let fams = if thorough { 160 } else { 26 };
        for i in 0..fams {
            let long = i % 2 == 1;
            let (n1, n2) = *rng.pick(&[(1usize, 0usize), (2, 0), (3, 0), (2, 1), (1, 1), (2, 2), (4, 0), (3, 1)]);
            let (n1, n2) = if !thorough && n1 + n2 >= 4 && i % 5 != 0 { (2, 1) } else { (n1, n2) };
            let ng = 2 + rng.below(6) as usize;
            let with_gvar = i % 3 != 0;
            let sc = gk_scenario(&mut rng, n1, n2, long, ng, with_gvar);
            let agree = i % 3 != 2;
            let wide_mode = if i % 3 == 1 { 2 } else if i % 7 == 3 { 1 } else { 0 };
            cx.st.count(&format!("family.wide_mode{}", wide_mode));
            let contents = random_contents(&mut rng, n1 + n2, ng, agree, wide_mode, with_gvar);
            if with_gvar { cx.st.count("family.gvar"); }
            cx.st.count(if agree { "family.agree" } else { "family.disagree" });
            cx.st.count(&format!("family.n{}", n1 + n2));
            run_gk_family(&mut cx, &mut rng, &sc, &contents, agree, thorough);
        }
        // format-1 patch maps: the application bits of a group share bitmap bytes (and straddle a byte boundary)
        for i in 0..if thorough { 40 } else { 6 } {
            let n = 2 + (i % 2) as usize;
            let start: u16 = *rng.pick(&[1u16, 5, 6, 7, 8, 11]);
            let mut idx: Vec<u16> = (0..n as u16).map(|k| start + k).collect();
            if i % 2 == 1 {
                rng.shuffle(&mut idx);
            }
            let ng = n + 1 + rng.below(3) as usize;
            let sc = gk_scenario_format1(&mut rng, &idx, i % 2 == 0, ng, n == 2 && i % 4 == 2);
            let agree = i % 4 != 3;
            let nn = sc.entries.len();
            let contents = random_contents(&mut rng, nn, ng, agree, (i % 3) as u8, false);
            cx.st.count("family.format1");
            run_gk_family(&mut cx, &mut rng, &sc, &contents, agree, thorough);
        }
        for _ in 0..if thorough { 3000 } else { 420 } {
            run_gk_malformed(&mut cx, &mut rng);
        }
        for _ in 0..if thorough { 1500 } else { 200 } {
            run_gvar_malformed(&mut cx, &mut rng);
        }
        for i in 0..if thorough { 60 } else { 9 } {
            let which = (i % 3) as u8;
            let n = 1 + (i % 3) as usize;
            let ng = 3 + rng.below(3) as usize;
            let big = i % 2 == 0;
            let off_size = if big { 1 } else { 1 + rng.below(4) as u8 };
            let (sc, tags) = cff_scenario(&mut rng, which, n, ng, off_size, big);
            let agree = i % 4 != 3;
            let contents = cff_contents(&mut rng, n, ng, &tags, agree, big, i % 2 == 1);
            cx.st.count("family.cff");
            run_gk_family(&mut cx, &mut rng, &sc, &contents, agree, thorough);
        }
        for _ in 0..if thorough { 1200 } else { 160 } {
            run_cff_malformed(&mut cx, &mut rng);
        }
        for _ in 0..if thorough { 2500 } else { 330 } {
            run_tk(&mut cx, &mut rng, thorough);
        }
        run_threshold(&mut cx, &mut rng);
        run_width_grouping(&mut cx);
    }
    let shards = cw.finish();
    st.v.insert("shards".into(), shards.into());
    st.v.insert("model_cases".into(), cw.len().into());
    st.write(
        &dir,
        "authored base fonts (glyf+loca short/long, 2-7 glyphs, raw tables, IFT/IFTX format-2 maps) x glyph-keyed patch groups (1-4 patches, agreeing/disagreeing overlaps, odd/empty data, ignored tables, wide gids) in every permutation, with the decoder failing at each call index, and in all two-call groupings; malformed patches/fonts/status maps (26 kinds); table-keyed patches (drop/replace/diff, duplicates, missing base, damaged offsets) with decoder faults; threshold fonts (oracle only). non-trivial = distinct call (font, group, statuses, fault)",
    );
    println!("cases={} shards={} oracle_failures={}", cw.len(), shards, st.oracle_failures.len());
}
