//! C15 harness: runs font-types scalar / fixed-point operations on a boundary-dense grid plus
//! random operands, records (op, args, result) triples for the Coq model (coq/C15/Model.v
//! `eval_op`), and checks an exact i128 oracle (the property's own wording) on the implementation.
use font_types::{F26Dot6, F2Dot14, Fixed, Int24, Uint24};
use serde_json::json;
use vh::*;

fn run_op(op: i64, a: &[i64]) -> Result<Vec<i64>, String> {
    let a = a.to_vec();
    catch(move || {
        let fx = |v: i64| Fixed::from_bits(v as i32);
        match op {
            1 => vec![(fx(a[0]) * fx(a[1])).to_bits() as i64],
            2 => vec![(fx(a[0]) / fx(a[1])).to_bits() as i64],
            3 => vec![fx(a[0]).mul_div(fx(a[1]), fx(a[2])).to_bits() as i64],
            4 => vec![fx(a[0]).round().to_bits() as i64],
            5 => vec![fx(a[0]).floor().to_bits() as i64],
            6 => vec![fx(a[0]).fract().to_bits() as i64],
            7 => vec![fx(a[0]).to_i32() as i64],
            8 => vec![fx(a[0]).to_f26dot6().to_bits() as i64],
            9 => vec![fx(a[0]).to_f2dot14().to_bits() as i64],
            10 => vec![Fixed::from_i32(a[0] as i32).to_bits() as i64],
            11 => vec![F2Dot14::from_bits(a[0] as i16).to_fixed().to_bits() as i64],
            12 => vec![Int24::new(a[0] as i32).to_i32() as i64],
            13 => vec![Uint24::new(a[0] as u32).to_u32() as i64],
            14 => vec![Int24::from_be_bytes([a[0] as u8, a[1] as u8, a[2] as u8]).to_i32() as i64],
            15 => vec![Uint24::from_be_bytes([a[0] as u8, a[1] as u8, a[2] as u8]).to_u32() as i64],
            16 => Int24::new(a[0] as i32).to_be_bytes().iter().map(|b| *b as i64).collect(),
            17 => Uint24::new(a[0] as u32).to_be_bytes().iter().map(|b| *b as i64).collect(),
            18 => fx(a[0]).to_be_bytes().iter().map(|b| *b as i64).collect(),
            19 => F2Dot14::from_bits(a[0] as i16).to_be_bytes().iter().map(|b| *b as i64).collect(),
            20 => {
                use font_types::Scalar;
                vec![Fixed::from_raw([a[0] as u8, a[1] as u8, a[2] as u8, a[3] as u8]).to_bits() as i64]
            }
            21 => {
                use font_types::Scalar;
                vec![F2Dot14::from_raw([a[0] as u8, a[1] as u8]).to_bits() as i64]
            }
            22 => vec![fx(a[0]).abs().to_bits() as i64],
            23 => vec![(-fx(a[0])).to_bits() as i64],
            24 => vec![F2Dot14::from_bits(a[0] as i16).round().to_bits() as i64],
            25 => vec![F2Dot14::from_bits(a[0] as i16).floor().to_bits() as i64],
            26 => vec![F26Dot6::from_bits(a[0] as i32).round().to_bits() as i64],
            27 => vec![F26Dot6::from_bits(a[0] as i32).floor().to_bits() as i64],
            28 => vec![(fx(a[0]) + fx(a[1])).to_bits() as i64],
            29 => vec![(fx(a[0]) - fx(a[1])).to_bits() as i64],
            30 => vec![fx(a[0]).saturating_add(fx(a[1])).to_bits() as i64],
            31 => vec![fx(a[0]).saturating_sub(fx(a[1])).to_bits() as i64],
            32 => Int24::checked_new(a[0] as i32).map(|v| vec![v.to_i32() as i64]).unwrap_or_default(),
            33 => Uint24::checked_new(a[0] as u32).map(|v| vec![v.to_u32() as i64]).unwrap_or_default(),
            _ => unreachable!(),
        }
    })
}

/// exact n/d rounded half away from zero
fn rha(n: i128, d: i128) -> i128 {
    let s = n.signum() * d.signum();
    s * ((2 * n.abs() + d.abs()) / (2 * d.abs()))
}
fn in_i32(v: i128) -> bool {
    v >= i32::MIN as i128 && v <= i32::MAX as i128
}

/// The property's statement evaluated directly on the implementation's answer.
/// Returns Some(description) when the property fails on this input.
fn oracle(op: i64, a: &[i64], res: &Result<Vec<i64>, String>) -> Option<String> {
    let exp: Option<i128> = match op {
        1 => Some(rha(a[0] as i128 * a[1] as i128, 65536)),
        2 => {
            if a[1] == 0 {
                // documented saturation: +-0x7FFFFFFF by sign of the dividend
                Some(if a[0] < 0 { -0x7FFFFFFF } else { 0x7FFFFFFF })
            } else {
                Some(rha(a[0] as i128 * 65536, a[1] as i128))
            }
        }
        3 => {
            if a[2] == 0 {
                let neg = (a[0] < 0) ^ (a[1] < 0);
                Some(if neg { -0x7FFFFFFF } else { 0x7FFFFFFF })
            } else {
                let e = rha(a[0] as i128 * a[1] as i128, a[2] as i128);
                // the implementation computes the product in wrapping u64; the exact product of two
                // i32 magnitudes is < 2^62 and adding |b|/2 < 2^31 cannot wrap: always exact.
                Some(e)
            }
        }
        7 => Some((a[0] as i128 + 0x8000).div_euclid(65536)).filter(|v| in_i32(*v) && a[0] as i128 + 0x8000 <= i32::MAX as i128),
        8 => Some((a[0] as i128 + 0x200).div_euclid(1024)).filter(|_| a[0] as i128 + 0x200 <= i32::MAX as i128),
        11 => Some(a[0] as i128 * 4),
        12 => Some((a[0] as i128).clamp(-0x800000, 0x7FFFFF)),
        13 => Some((a[0] as i128).clamp(0, 0xFFFFFF)),
        _ => None,
    };
    if let Some(e) = exp {
        if in_i32(e) {
            match res {
                Ok(v) if v.len() == 1 && v[0] as i128 == e => None,
                other => Some(format!("expected exact {} got {:?}", e, other)),
            }
        } else {
            None
        }
    } else {
        // byte round trips
        match (op, res) {
            (18, Ok(bytes)) => {
                let back = run_op(20, bytes);
                (back != Ok(vec![a[0]])).then(|| format!("Fixed be round trip gives {:?}", back))
            }
            (16, Ok(bytes)) => {
                let back = run_op(14, bytes);
                let exp = (a[0]).clamp(-0x800000, 0x7FFFFF);
                (back != Ok(vec![exp])).then(|| format!("Int24 be round trip gives {:?}", back))
            }
            (17, Ok(bytes)) => {
                let back = run_op(15, bytes);
                let exp = (a[0]).clamp(0, 0xFFFFFF);
                (back != Ok(vec![exp])).then(|| format!("Uint24 be round trip gives {:?}", back))
            }
            (14, Ok(v)) => {
                let back = run_op(16, v);
                (back != Ok(a.to_vec())).then(|| format!("Int24 bytes->value->bytes gives {:?}", back))
            }
            (15, Ok(v)) => {
                let back = run_op(17, v);
                (back != Ok(a.to_vec())).then(|| format!("Uint24 bytes->value->bytes gives {:?}", back))
            }
            (20, Ok(v)) => {
                let back = run_op(18, v);
                (back != Ok(a.to_vec())).then(|| format!("Fixed bytes->value->bytes gives {:?}", back))
            }
            _ => None,
        }
    }
}

/// float-conversion oracles (implementation only; the Coq side proves the integer kernels)
fn float_oracles(st: &mut Stats, rng: &mut Rng, thorough: bool) {
    // exhaustive 16-bit types: to_f32 -> from_f32 identity, exact value, order = raw order
    let mut prev: Option<(i16, f32)> = None;
    for raw in i16::MIN..=i16::MAX {
        let x = F2Dot14::from_bits(raw);
        let f = x.to_f32();
        st.evaluations += 1;
        if f as f64 != raw as f64 / 16384.0 {
            st.oracle_failure(json!({"what":"F2Dot14::to_f32 not exact","raw":raw}));
        }
        if F2Dot14::from_f32(f) != x {
            st.oracle_failure(json!({"what":"F2Dot14 from_f32(to_f32) != id","raw":raw}));
        }
        let y = font_types::F4Dot12::from_bits(raw);
        if font_types::F4Dot12::from_f32(y.to_f32()) != y || y.to_f32() as f64 != raw as f64 / 4096.0 {
            st.oracle_failure(json!({"what":"F4Dot12 float round trip","raw":raw}));
        }
        let z = font_types::F6Dot10::from_bits(raw);
        if font_types::F6Dot10::from_f32(z.to_f32()) != z || z.to_f32() as f64 != raw as f64 / 1024.0 {
            st.oracle_failure(json!({"what":"F6Dot10 float round trip","raw":raw}));
        }
        if let Some((pr, pf)) = prev {
            if !(F2Dot14::from_bits(pr) < x) || !(pf < f) {
                st.oracle_failure(json!({"what":"F2Dot14 order != raw order","raw":raw}));
            }
        }
        prev = Some((raw, f));
    }
    st.count("float16_exhaustive_types");
    // 32-bit: boundary grid + random (exhaustive in thorough tier)
    let mut vals: Vec<i32> = boundary_i32();
    let n = if thorough { 4_000_000 } else { 200_000 };
    for _ in 0..n {
        vals.push(rng.next_u32() as i32);
    }
    for raw in vals {
        st.evaluations += 1;
        let x = Fixed::from_bits(raw);
        let f = x.to_f64();
        if f != raw as f64 / 65536.0 || Fixed::from_f64(f) != x {
            st.oracle_failure(json!({"what":"Fixed f64 round trip / exactness","raw":raw}));
        }
        let y = F26Dot6::from_bits(raw);
        let g = y.to_f64();
        if g != raw as f64 / 64.0 || F26Dot6::from_f64(g) != y {
            st.oracle_failure(json!({"what":"F26Dot6 f64 round trip / exactness","raw":raw}));
        }
        // from_f64 rounds to nearest for values strictly between representables (no ties)
        let h = raw as f64 / 65536.0 + 0.3 / 65536.0;
        if (raw as i64) < i32::MAX as i64 - 1 && Fixed::from_f64(h) != x {
            st.oracle_failure(json!({"what":"Fixed::from_f64 not nearest","raw":raw,"offset":"+0.3ulp"}));
        }
        let h = raw as f64 / 65536.0 - 0.3 / 65536.0;
        if (raw as i64) > i32::MIN as i64 + 1 && Fixed::from_f64(h) != x {
            st.oracle_failure(json!({"what":"Fixed::from_f64 not nearest","raw":raw,"offset":"-0.3ulp"}));
        }
        // ordering equals raw ordering
        let other = raw.wrapping_mul(31).wrapping_add(7);
        if (x.cmp(&Fixed::from_bits(other))) != raw.cmp(&other) {
            st.oracle_failure(json!({"what":"Fixed order != raw order","a":raw,"b":other}));
        }
    }
    st.count("float32_grid");
    // OtRound
    use write_fonts::OtRound;
    for k in -70000i32..70000 {
        for frac in [0.0f64, 0.25, 0.5, 0.75] {
            let x = k as f64 + frac;
            let r: f64 = x.ot_round();
            let e = (x + 0.5).floor();
            st.evaluations += 1;
            if r != e {
                st.oracle_failure(json!({"what":"ot_round f64","x":x}));
            }
            let r16: i16 = x.ot_round();
            if r16 as f64 != e.clamp(-32768.0, 32767.0) {
                st.oracle_failure(json!({"what":"ot_round i16","x":x}));
            }
        }
    }
}

/// "ordering of values equals ordering of raw bits": for every scalar type T and its big-endian
/// wrapper, every comparison operator, `cmp`, `partial_cmp`, sort, min and max agree with the order
/// of the underlying integers (signed for signed types).
fn ord_oracle<T, R>(st: &mut Stats, name: &str, raws: &[R], mk: impl Fn(R) -> T)
where
    T: font_types::Scalar + Copy + Ord + std::fmt::Debug,
    <T as font_types::Scalar>::Raw: Eq,
    R: Copy + Ord + std::fmt::Debug,
{
    use font_types::BigEndian;
    use std::cmp::Ordering;
    let mut fail = |st: &mut Stats, which: &str, a: R, b: R| {
        st.oracle_failure(json!({"key": format!("order:{}:{}", name, which), "a": format!("{:?}", a), "b": format!("{:?}", b)}));
    };
    for &a in raws {
        for &b in raws {
            st.evaluations += 1;
            let want = a.cmp(&b);
            let (x, y) = (mk(a), mk(b));
            if x.cmp(&y) != want { fail(st, "T::cmp", a, b); }
            if x.partial_cmp(&y) != Some(want) { fail(st, "T::partial_cmp", a, b); }
            if (x < y) != (want == Ordering::Less) || (x <= y) != (want != Ordering::Greater)
                || (x > y) != (want == Ordering::Greater) || (x >= y) != (want != Ordering::Less) { fail(st, "T::operators", a, b); }
            if (x == y) != (want == Ordering::Equal) { fail(st, "T::eq", a, b); }
            if (x.max(y) == x) != (want != Ordering::Less) && want != Ordering::Equal { fail(st, "T::max", a, b); }
            let (bx, by): (BigEndian<T>, BigEndian<T>) = (x.into(), y.into());
            if bx.cmp(&by) != want { fail(st, "BigEndian::cmp", a, b); }
            if bx.partial_cmp(&by) != Some(want) { fail(st, "BigEndian::partial_cmp", a, b); }
            if (bx < by) != (want == Ordering::Less) || (bx <= by) != (want != Ordering::Greater)
                || (bx > by) != (want == Ordering::Greater) || (bx >= by) != (want != Ordering::Less) { fail(st, "BigEndian::operators", a, b); }
            if (bx == by) != (want == Ordering::Equal) { fail(st, "BigEndian::eq", a, b); }
            if bx.max(by).get() != x.max(y) || bx.min(by).get() != x.min(y) { fail(st, "BigEndian::min/max", a, b); }
            if (bx == y) != (want == Ordering::Equal) { fail(st, "BigEndian::eq<T>", a, b); }
        }
    }
    // sort / binary_search agree with the integer order
    let mut sorted_raw: Vec<R> = raws.to_vec();
    sorted_raw.sort();
    sorted_raw.dedup();
    let mut bes: Vec<BigEndian<T>> = raws.iter().map(|&r| mk(r).into()).collect();
    bes.sort();
    bes.dedup();
    let got: Vec<T> = bes.iter().map(|b| b.get()).collect();
    let want: Vec<T> = sorted_raw.iter().map(|&r| mk(r)).collect();
    if got != want { fail(st, "BigEndian::sort", raws[0], raws[0]); }
    for (i, &r) in sorted_raw.iter().enumerate() {
        let probe: BigEndian<T> = mk(r).into();
        if bes.binary_search(&probe) != Ok(i) { fail(st, "BigEndian::binary_search", r, r); }
    }
    let mut ts: Vec<T> = raws.iter().map(|&r| mk(r)).collect();
    ts.sort();
    ts.dedup();
    if ts != want { fail(st, "T::sort", raws[0], raws[0]); }
    st.count(&format!("order_{}", name));
}

fn order_oracles(st: &mut Stats, rng: &mut Rng) {
    use font_types::*;
    let mut r8: Vec<i64> = vec![-128, -127, -2, -1, 0, 1, 2, 126, 127];
    let mut r16: Vec<i64> = vec![-32768, -32767, -16385, -16384, -257, -256, -255, -129, -128, -2, -1, 0, 1, 2, 127, 128, 255, 256, 257, 16383, 16384, 32766, 32767];
    let mut r24: Vec<i64> = vec![-8388608, -8388607, -65537, -65536, -65535, -257, -256, -1, 0, 1, 255, 256, 65535, 65536, 65537, 8388606, 8388607];
    let mut r32: Vec<i64> = vec![i32::MIN as i64, i32::MIN as i64 + 1, -16777217, -16777216, -65537, -65536, -65535, -256, -1, 0, 1, 255, 256, 65535, 65536, 16777215, 16777216, i32::MAX as i64 - 1, i32::MAX as i64];
    let mut r64: Vec<i64> = vec![i64::MIN, i64::MIN + 1, -(1 << 56), -(1 << 32) - 1, -(1 << 32), -65536, -256, -1, 0, 1, 255, 256, 65536, 1 << 32, (1 << 32) + 1, 1 << 56, i64::MAX - 1, i64::MAX];
    for _ in 0..12 {
        r8.push(rng.range(-128, 127));
        r16.push(rng.range(-32768, 32767));
        r24.push(rng.range(-8388608, 8388607));
        r32.push(rng.next_u32() as i32 as i64);
        r64.push(rng.next_u64() as i64);
    }
    let s8: Vec<i8> = r8.iter().map(|&v| v as i8).collect();
    let u8s: Vec<u8> = r8.iter().map(|&v| v as u8).collect();
    let s16: Vec<i16> = r16.iter().map(|&v| v as i16).collect();
    let u16s: Vec<u16> = r16.iter().map(|&v| v as u16).collect();
    let s24: Vec<i32> = r24.iter().map(|&v| v as i32).collect();
    let u24s: Vec<u32> = r24.iter().map(|&v| (v as u32) & 0xFF_FFFF).collect();
    let s32: Vec<i32> = r32.iter().map(|&v| v as i32).collect();
    let u32s: Vec<u32> = r32.iter().map(|&v| v as u32).collect();
    ord_oracle(st, "i8", &s8, |r| r);
    ord_oracle(st, "u8", &u8s, |r| r);
    ord_oracle(st, "i16", &s16, |r| r);
    ord_oracle(st, "u16", &u16s, |r| r);
    ord_oracle(st, "i32", &s32, |r| r);
    ord_oracle(st, "u32", &u32s, |r| r);
    ord_oracle(st, "i64", &r64, |r| r);
    ord_oracle(st, "Int24", &s24, Int24::new);
    ord_oracle(st, "Uint24", &u24s, Uint24::new);
    ord_oracle(st, "FWord", &s16, FWord::new);
    ord_oracle(st, "UfWord", &u16s, UfWord::new);
    ord_oracle(st, "F2Dot14", &s16, F2Dot14::from_bits);
    ord_oracle(st, "F4Dot12", &s16, F4Dot12::from_bits);
    ord_oracle(st, "F6Dot10", &s16, F6Dot10::from_bits);
    ord_oracle(st, "Fixed", &s32, Fixed::from_bits);
    ord_oracle(st, "LongDateTime", &r64, LongDateTime::new);
    ord_oracle(st, "Version16Dot16", &u32s, |r| <Version16Dot16 as Scalar>::from_raw(r.to_be_bytes()));
    ord_oracle(st, "MajorMinor", &u32s, |r| MajorMinor::new((r >> 16) as u16, r as u16));
    ord_oracle(st, "Tag", &u32s, Tag::from_u32);
    ord_oracle(st, "GlyphId16", &u16s, GlyphId16::new);
    ord_oracle(st, "NameId", &u16s, NameId::new);
    ord_oracle(st, "Offset16", &u16s, Offset16::new);
    ord_oracle(st, "Offset24", &u24s, |r| Offset24::new(Uint24::new(r)));
    ord_oracle(st, "Offset32", &u32s, Offset32::new);
}

fn main() {
    silence_panics();
    let args: Vec<String> = std::env::args().collect();
    let thorough = tier_is_thorough(&args);
    let seed = seed_from_env();
    let dir = out_dir(&args, "C15");
    let mut rng = Rng::new(seed);
    let mut st = Stats::new();
    let mut cw = CaseWriter::new(
        &dir,
        "From Coq Require Import ZArith List. Import ListNotations. Open Scope Z_scope.\nFrom FV Require Import Lib.Cases C15.Model.",
        "Z * list Z * list Z",
        "check_case",
        1500,
    );
    let grid = boundary_i32();
    let g16: Vec<i64> = {
        let mut v: Vec<i64> = vec![];
        for d in -2i64..=2 {
            for k in 0..=15 {
                v.push((1i64 << k) + d);
                v.push(-(1i64 << k) + d);
            }
            v.push(d);
        }
        v.retain(|x| *x >= -32768 && *x <= 32767);
        v.sort();
        v.dedup();
        v
    };
    let nrand = if thorough { 60_000 } else { 6_000 };
    let mut emit = |op: i64, a: Vec<i64>, st: &mut Stats, cw: &mut CaseWriter| {
        let res = run_op(op, &a);
        st.evaluations += 1;
        st.count(&format!("op{}", op));
        if res.is_err() {
            st.count("panics");
        }
        if let Some(why) = oracle(op, &a, &res) {
            st.oracle_failure(json!({"op":op,"args":a,"impl":format!("{:?}",res),"why":why}));
        }
        let resv = res.clone().unwrap_or_default();
        let canon = format!("{} {:?}", op, a);
        // non-trivial: rounding or saturation/wrap matters (operands not tiny)
        if a.iter().any(|v| v.abs() > 1) {
            st.nontrivial(&canon);
        }
        st.sample(json!({"op":op,"args":a,"impl":format!("{:?}",res)}));
        cw.push(format!(
            "({}, {}, {})",
            op,
            czlist(a.iter().map(|v| *v as i128)),
            czlist(resv.iter().map(|v| *v as i128))
        ));
    };
    // binary ops on a sub-grid (pairwise) + random
    let sub: Vec<i32> = grid.iter().cloned().step_by(if thorough { 2 } else { 7 }).chain([i32::MIN, i32::MAX, 0, 1, -1, 65536, -65536, 32768, -32768, 0x8000_0000u32 as i32 + 1]).collect();
    for op in [1i64, 2, 28, 29, 30, 31] {
        for a in &sub {
            for b in &sub {
                if (op == 1 || op == 2) || rng.chance(1, 6) {
                    emit(op, vec![*a as i64, *b as i64], &mut st, &mut cw);
                }
            }
        }
        for _ in 0..nrand / 6 {
            let a = *rng.pick(&grid) as i64 + rng.range(-5, 5);
            let b = if rng.chance(1, 2) { rng.next_u32() as i32 as i64 } else { *rng.pick(&grid) as i64 };
            let a = a.clamp(i32::MIN as i64, i32::MAX as i64);
            emit(op, vec![a, b], &mut st, &mut cw);
        }
    }
    // mul_div
    let sub3: Vec<i32> = grid.iter().cloned().step_by(if thorough { 9 } else { 23 }).chain([i32::MIN, i32::MAX, 0, 1, -1, 65536]).collect();
    for a in &sub3 {
        for b in &sub3 {
            for c in &sub3 {
                emit(3, vec![*a as i64, *b as i64, *c as i64], &mut st, &mut cw);
            }
        }
    }
    for _ in 0..nrand / 3 {
        let v: Vec<i64> = (0..3).map(|_| if rng.chance(1, 2) { rng.next_u32() as i32 as i64 } else { *rng.pick(&grid) as i64 }).collect();
        emit(3, v, &mut st, &mut cw);
    }
    // unary 32-bit ops
    for op in [4i64, 5, 6, 7, 8, 9, 10, 12, 16, 18, 22, 23, 26, 27, 32] {
        for a in &grid {
            emit(op, vec![*a as i64], &mut st, &mut cw);
        }
        for _ in 0..nrand / 30 {
            emit(op, vec![rng.next_u32() as i32 as i64], &mut st, &mut cw);
        }
    }
    for op in [13i64, 17, 33] {
        for a in &grid {
            emit(op, vec![*a as u32 as i64], &mut st, &mut cw);
        }
    }
    // 16-bit ops
    for op in [11i64, 19, 24, 25] {
        for a in &g16 {
            emit(op, vec![*a], &mut st, &mut cw);
        }
    }
    // byte-level ops
    let bvals = [0i64, 1, 0x7f, 0x80, 0x81, 0xfe, 0xff];
    for b0 in bvals {
        for b1 in bvals {
            for b2 in bvals {
                emit(14, vec![b0, b1, b2], &mut st, &mut cw);
                emit(15, vec![b0, b1, b2], &mut st, &mut cw);
                emit(21, vec![b0, b1], &mut st, &mut cw);
                for b3 in [0i64, 0x80, 0xff] {
                    emit(20, vec![b0, b1, b2, b3], &mut st, &mut cw);
                }
            }
        }
    }
    float_oracles(&mut st, &mut rng, thorough);
    order_oracles(&mut st, &mut rng);
    let shards = cw.finish();
    st.v.insert("shards".into(), shards.into());
    st.v.insert("model_cases".into(), cw.len().into());
    st.write(&dir, "boundary-dense grid (0, +-2^k, +-(2^k+-1..3), MIN, MAX) crossed pairwise for binary ops, plus random operands; non-trivial = some operand of magnitude > 1 (distinct by (op,args))");
    println!("cases={} shards={} oracle_failures={}", cw.len(), shards, st.oracle_failures.len());
}
