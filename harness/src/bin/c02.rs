//! C02 harness: totality of skrifa / IFT client on hostile input.
//!
//! Parent process:
//!   (A) in-process correspondence: generated op sequences against the real `ValueStack`,
//!       `CallStack`, `Decycler<usize,64>` (verif hooks) -> Coq cases for coq/C02/Model.v;
//!   (B,C) spawns itself as 16 worker sub-processes (`c02 worker ...`) which run, on fonts,
//!       (B) correspondence cases for the interpreter run loop / loop budget / call depth
//!           (`HintingInstance::new` on crafted fpgm/prep) and composite recursion, and
//!       (C) the implementation-only totality search on font-test-data fonts under structure-aware
//!           mutation plus synthetic hostile fonts and the IFT client.
//!   A worker that aborts (stack overflow, abort) or exceeds the per-task wall-clock budget is an
//!   oracle failure for the task it was running; it is killed and restarted after that task.
use std::collections::HashMap;
use std::io::{BufRead, BufReader, Write};
use std::panic::AssertUnwindSafe;
use std::process::{Command, Stdio};
use std::sync::mpsc;
use std::time::{Duration, Instant};

use serde_json::json;
use vh::*;


// ------------------------------------------------------------------------------------------
// (A) in-process correspondence: ValueStack / CallStack / Decycler
// ------------------------------------------------------------------------------------------
use skrifa::verif::{verif_drive_decycler, CallRecord, CallStack, HintErrorKind, ValueStack};

#[derive(Clone, Debug)]
enum VOp {
    Push(i32),
    PushList(Vec<i16>),
    Peek,
    Pop,
    PopUsize,
    PopCount,
    Unary(u8),
    Binary(u8),
    Clear,
    Dup,
    Swap,
    CopyIndex,
    MoveIndex,
    Roll,
}

fn ufun(k: u8, a: i32) -> Result<i32, HintErrorKind> {
    match k {
        0 => Ok(a.wrapping_neg()),
        1 => Err(HintErrorKind::NegativeLoopCounter),
        2 => {
            if a == 0 {
                Err(HintErrorKind::DivideByZero)
            } else {
                Ok(a.wrapping_add(1))
            }
        }
        _ => Ok(a),
    }
}
fn bfun(k: u8, a: i32, b: i32) -> Result<i32, HintErrorKind> {
    match k {
        0 => Ok(a.wrapping_add(b)),
        1 => Ok(a.wrapping_sub(b)),
        2 => {
            if b == 0 {
                Err(HintErrorKind::InvalidJump)
            } else {
                Ok(a)
            }
        }
        _ => Err(HintErrorKind::NegativeLoopCounter),
    }
}

fn err_obs(e: &HintErrorKind) -> (i64, i64) {
    match e {
        HintErrorKind::ValueStackOverflow => (1, 0),
        HintErrorKind::ValueStackUnderflow => (2, 0),
        HintErrorKind::InvalidStackValue(v) => (3, *v as i64),
        HintErrorKind::NegativeLoopCounter => (5, 7),
        HintErrorKind::DivideByZero => (5, 8),
        HintErrorKind::InvalidJump => (5, 9),
        _ => (6, 0),
    }
}

fn vop_term(o: &VOp) -> String {
    match o {
        VOp::Push(v) => format!("OPush {}", cz(*v as i128)),
        VOp::PushList(l) => format!("OPushList {}", czlist(l.iter().map(|v| *v as i128))),
        VOp::Peek => "OPeek".into(),
        VOp::Pop => "OPop".into(),
        VOp::PopUsize => "OPopUsize".into(),
        VOp::PopCount => "OPopCount".into(),
        VOp::Unary(k) => format!("OUnary (ufun {})", k),
        VOp::Binary(k) => format!("OBinary (bfun {})", k),
        VOp::Clear => "OClear".into(),
        VOp::Dup => "ODup".into(),
        VOp::Swap => "OSwap".into(),
        VOp::CopyIndex => "OCopyIndex".into(),
        VOp::MoveIndex => "OMoveIndex".into(),
        VOp::Roll => "ORoll".into(),
    }
}

/// NPUSHW bytes for the list, decoded by the real decoder into InlineOperands
fn npushw(l: &[i16]) -> Vec<u8> {
    let mut b = vec![0x41u8, l.len() as u8];
    for v in l {
        b.extend_from_slice(&v.to_be_bytes());
    }
    b
}

/// run an op sequence on the real ValueStack; returns (observations, final len, final store, panic msg)
fn run_vs(cap: usize, ped: bool, ops: &[VOp]) -> (Vec<(i64, i128, i64)>, usize, Vec<i32>, Vec<i32>, Option<String>) {
    let mut store: Vec<i32> = (0..cap as i32).map(|i| 1000 + i).collect();
    let init = store.clone();
    let mut obs = vec![];
    let mut flen = 0usize;
    let r = catch(AssertUnwindSafe(|| {
        let mut vs = ValueStack::new(&mut store, ped);
        for o in ops {
            let ob: (i64, i128) = match o {
                VOp::PopUsize => vs.pop_usize().map(|v| (0i64, v as i128)).unwrap_or_else(|e| { let x = err_obs(&e); (x.0, x.1 as i128) }),
                VOp::PopCount => vs.pop_count_checked().map(|v| (0i64, v as i128)).unwrap_or_else(|e| { let x = err_obs(&e); (x.0, x.1 as i128) }),
                other => { let x: (i64, i64) = match other {
                VOp::Push(v) => vs.push(*v).map(|_| (0, 0)).unwrap_or_else(|e| err_obs(&e)),
                VOp::PushList(l) => {
                    let bytes = npushw(l);
                    let ins = read_fonts::tables::glyf::bytecode::decode_all(&bytes, 0).next().unwrap().unwrap();
                    vs.push_inline_operands(&ins.inline_operands).map(|_| (0, 0)).unwrap_or_else(|e| err_obs(&e))
                }
                VOp::Peek => match vs.peek() {
                    Some(v) => (0, v as i64),
                    None => (4, 0),
                },
                VOp::Pop => vs.pop().map(|v| (0, v as i64)).unwrap_or_else(|e| err_obs(&e)),
                VOp::PopUsize | VOp::PopCount => unreachable!(),
                VOp::Unary(k) => vs.apply_unary(|a| ufun(*k, a)).map(|_| (0, 0)).unwrap_or_else(|e| err_obs(&e)),
                VOp::Binary(k) => vs.apply_binary(|a, b| bfun(*k, a, b)).map(|_| (0, 0)).unwrap_or_else(|e| err_obs(&e)),
                VOp::Clear => {
                    vs.clear();
                    (0, 0)
                }
                VOp::Dup => vs.dup().map(|_| (0, 0)).unwrap_or_else(|e| err_obs(&e)),
                VOp::Swap => vs.swap().map(|_| (0, 0)).unwrap_or_else(|e| err_obs(&e)),
                VOp::CopyIndex => vs.copy_index().map(|_| (0, 0)).unwrap_or_else(|e| err_obs(&e)),
                VOp::MoveIndex => vs.move_index().map(|_| (0, 0)).unwrap_or_else(|e| err_obs(&e)),
                VOp::Roll => vs.roll().map(|_| (0, 0)).unwrap_or_else(|e| err_obs(&e)),
                }; (x.0, x.1 as i128) }
            };
            obs.push((ob.0, ob.1, vs.len() as i64));
            flen = vs.len();
        }
    }));
    let msg = r.err();
    if msg.is_some() {
        obs.push((9, 0, 0));
    }
    (obs, flen, init, store, msg)
}

fn gen_vops(rng: &mut Rng, cap: usize, n: usize) -> Vec<VOp> {
    let mut ops = vec![];
    let mut shadow: i64 = 0; // approximate len, to aim index operands at the boundaries
    for _ in 0..n {
        let k = rng.below(100);
        let op = if k < 30 {
            // index-like operands around the current length
            let l = shadow;
            let cands = [0, 1, 2, l - 2, l - 1, l, l + 1, -1, -l, i32::MIN as i64, i32::MAX as i64, i32::MIN as i64 + 1, 7, 100, cap as i64, cap as i64 - 1];
            let v = *rng.pick(&cands);
            VOp::Push(v.clamp(i32::MIN as i64, i32::MAX as i64) as i32)
        } else if k < 36 {
            let n = rng.below(5) as usize;
            VOp::PushList((0..n).map(|_| *rng.pick(&[0i16, 1, -1, 2, 3, i16::MIN, i16::MAX])).collect())
        } else if k < 40 {
            VOp::Peek
        } else if k < 50 {
            VOp::Pop
        } else if k < 53 {
            VOp::PopUsize
        } else if k < 57 {
            VOp::PopCount
        } else if k < 61 {
            VOp::Unary(rng.below(4) as u8)
        } else if k < 66 {
            VOp::Binary(rng.below(4) as u8)
        } else if k < 68 {
            VOp::Clear
        } else if k < 74 {
            VOp::Dup
        } else if k < 80 {
            VOp::Swap
        } else if k < 87 {
            VOp::CopyIndex
        } else if k < 95 {
            VOp::MoveIndex
        } else {
            VOp::Roll
        };
        match &op {
            VOp::Push(_) | VOp::Dup => shadow = (shadow + 1).min(cap as i64),
            VOp::PushList(l) => shadow = (shadow + l.len() as i64).min(cap as i64),
            VOp::Pop | VOp::PopUsize | VOp::PopCount | VOp::Binary(_) | VOp::MoveIndex => shadow = (shadow - 1).max(0),
            VOp::Clear => shadow = 0,
            _ => {}
        }
        ops.push(op);
    }
    ops
}

/// report an oracle failure unless one with the same key has been reported already
fn report_once(st: &mut Stats, v: serde_json::Value) {
    if st.oracle_failures.iter().any(|f| f.get("key") == v.get("key")) {
        st.count("oracle_failures_same_key");
    } else {
        st.oracle_failure(v);
    }
}

fn part_a(rng: &mut Rng, thorough: bool, st: &mut Stats, cw: &mut CaseWriter) {
    // ---- ValueStack ----
    let per = if thorough { 900 } else { 160 };
    for cap in [0usize, 1, 2, 3, 8] {
        for ped in [false, true] {
            for i in 0..per {
                let n = 1 + rng.below(if i % 4 == 0 { 24 } else { 10 }) as usize;
                let ops = gen_vops(rng, cap, n);
                let (obs, flen, init, store, msg) = run_vs(cap, ped, &ops);
                st.evaluations += 1;
                st.count(&format!("vs.cap{}.ped{}", cap, ped as u8));
                for (o, ob) in ops.iter().zip(&obs) {
                    let name = vop_term(o);
                    let name = name.split(' ').next().unwrap().to_string();
                    st.count(&format!("vs.{}.{}", name, ob.0));
                }
                if let Some(m) = &msg {
                    report_once(st, json!({"key": panic_key(&last_loc(), m), "instance": format!("valuestack cap={} pedantic={}", cap, ped),
                        "ops": ops.iter().map(vop_term).collect::<Vec<_>>(), "panic": m}));
                }
                if flen > cap {
                    report_once(st, json!({"key": "valuestack:len-exceeds-capacity", "cap": cap, "len": flen}));
                }
                if obs.iter().any(|o| o.0 != 0) {
                    st.nontrivial(&format!("{:?}{}{}", ops, cap, ped));
                }
                st.sample(json!({"valuestack": {"cap": cap, "pedantic": ped, "ops": ops.iter().map(vop_term).collect::<Vec<_>>(), "obs": format!("{:?}", obs)}}));
                cw.push(format!(
                    "CaseVS {} {} {} {} {} {}",
                    cbool(ped),
                    czlist(init.iter().map(|v| *v as i128)),
                    clist(ops.iter(), vop_term),
                    clist(obs.iter(), |o| format!("({}, {}, {})", cz(o.0 as i128), cz(o.1), cz(o.2 as i128))),
                    flen,
                    czlist(store.iter().map(|v| *v as i128))
                ));
            }
        }
    }
    // ---- ValueStack: directed CINDEX / MINDEX boundary arguments (round 7) ----
    // For every capacity, both modes, every fill level L (= len once the index cell is pushed) and every boundary
    // index argument: fill with distinct values, push the index, apply copy_index / move_index once (and once more, to
    // observe the state the first call left).  The whole backing store is compared, so the element moved/copied is pinned.
    for cap in [0usize, 1, 2, 3, 8] {
        for ped in [false, true] {
            for l in 0..=cap as i64 {
                let args: Vec<(&str, i64)> = if l == 0 {
                    vec![("empty", 0)]
                } else {
                    vec![
                        ("0", 0),
                        ("1", 1),
                        ("len-2", l - 2),
                        ("len-1", l - 1),
                        ("len", l),
                        ("len+1", l + 1),
                        ("-1", -1),
                        ("-len", -l),
                        ("i32min", i32::MIN as i64),
                        ("i32min+1", i32::MIN as i64 + 1),
                        ("i32max", i32::MAX as i64),
                    ]
                };
                for (class, arg) in &args {
                    for (opname, op) in [("copy", VOp::CopyIndex), ("move", VOp::MoveIndex)] {
                        let mut ops: Vec<VOp> = (1..l).map(|k| VOp::Push(10 * k as i32 + 1)).collect();
                        if l > 0 {
                            ops.push(VOp::Push(*arg as i32));
                        }
                        let at = ops.len();
                        ops.push(op.clone());
                        ops.push(VOp::Peek);
                        ops.push(op.clone());
                        let (obs, flen, init, store, msg) = run_vs(cap, ped, &ops);
                        st.evaluations += 1;
                        st.count("vs.directed_index_cases");
                        if let Some(ob) = obs.get(at) {
                            st.count(&format!("vs.idx.{}.{}.{}", opname, class, ob.0));
                        }
                        if let Some(m) = &msg {
                            report_once(st, json!({"key": panic_key(&last_loc(), m), "instance": format!("valuestack cap={} pedantic={} directed {} {}", cap, ped, opname, class),
                                "ops": ops.iter().map(vop_term).collect::<Vec<_>>(), "panic": m}));
                        }
                        if flen > cap {
                            report_once(st, json!({"key": "valuestack:len-exceeds-capacity", "cap": cap, "len": flen}));
                        }
                        if obs.iter().any(|o| o.0 != 0) {
                            st.nontrivial(&format!("{:?}{}{}", ops, cap, ped));
                        }
                        cw.push(format!(
                            "CaseVS {} {} {} {} {} {}",
                            cbool(ped),
                            czlist(init.iter().map(|v| *v as i128)),
                            clist(ops.iter(), vop_term),
                            clist(obs.iter(), |o| format!("({}, {}, {})", cz(o.0 as i128), cz(o.1), cz(o.2 as i128))),
                            flen,
                            czlist(store.iter().map(|v| *v as i128))
                        ));
                    }
                }
            }
        }
    }
    // ---- CallStack ----
    let ncs = if thorough { 600 } else { 150 };
    for i in 0..ncs {
        let n = 1 + rng.below(if i % 3 == 0 { 90 } else { 20 }) as usize;
        let push_bias = if i % 3 == 0 { 80 } else { 50 };
        let mut ops: Vec<(u8, usize, u32)> = vec![];
        for _ in 0..n {
            let k = rng.below(100);
            if k < push_bias {
                ops.push((0, rng.below(70000) as usize, rng.below(5) as u32));
            } else if k < push_bias + 8 {
                ops.push((1, 0, 0));
            } else if k < 98 {
                ops.push((2, 0, 0));
            } else {
                ops.push((3, 0, 0));
            }
        }
        let mut obs: Vec<(i64, i64, i64)> = vec![];
        let r = catch(AssertUnwindSafe(|| {
            let mut cs = CallStack::default();
            for (k, pc, cnt) in &ops {
                let ob = match k {
                    0 => match cs.push(CallRecord { return_pc: *pc, current_count: *cnt, ..Default::default() }) {
                        Ok(()) => (0, 0, 0),
                        Err(HintErrorKind::CallStackOverflow) => (1, 0, 0),
                        Err(_) => (6, 0, 0),
                    },
                    1 => match cs.peek() {
                        Some(r) => (0, r.return_pc as i64, r.current_count as i64),
                        None => (4, 0, 0),
                    },
                    2 => match cs.pop() {
                        Ok(r) => (0, r.return_pc as i64, r.current_count as i64),
                        Err(HintErrorKind::CallStackUnderflow) => (2, 0, 0),
                        Err(_) => (6, 0, 0),
                    },
                    _ => {
                        cs.clear();
                        (0, 0, 0)
                    }
                };
                obs.push(ob);
            }
        }));
        st.evaluations += 1;
        st.count("cs.sequences");
        for ((k, _, _), ob) in ops.iter().zip(&obs) {
            st.count(&format!("cs.op{}.{}", k, ob.0));
        }
        if let Err(m) = &r {
            obs.push((9, 0, 0));
            report_once(st, json!({"key": panic_key(&last_loc(), m), "instance": "callstack op sequence", "panic": m}));
        }
        if obs.iter().any(|o| o.0 == 1 || o.0 == 2) {
            st.nontrivial(&format!("{:?}", ops));
        }
        cw.push(format!(
            "CaseCS {} {}",
            clist(ops.iter(), |(k, pc, cnt)| match k {
                0 => format!("CPush {} {}", pc, cnt),
                1 => "CPeek".into(),
                2 => "CPop".into(),
                _ => "CClear".into(),
            }),
            clist(obs.iter(), |o| format!("({}, {}, {})", o.0, o.1, o.2))
        ));
    }
    // ---- Decycler ----
    let nd = if thorough { 1500 } else { 300 };
    for i in 0..nd {
        let mut ops: Vec<Option<usize>> = vec![];
        match i % 6 {
            0 => {
                // distinct ids, enter only: depth limit
                let n = 60 + rng.below(12) as usize;
                for j in 0..n {
                    ops.push(Some(1000 + j));
                }
                for _ in 0..rng.below(4) {
                    ops.push(None);
                    ops.push(Some(5));
                }
            }
            1 => {
                // periodic descent with prefix P and period L
                let p = rng.below(8) as usize;
                let l = 1 + rng.below(40) as usize;
                let n = 2 * (p + l) + 3;
                for j in 0..n.min(80) {
                    ops.push(Some(if j < p { 500 + j } else { (j - p) % l }));
                }
            }
            2 => {
                // deep then many leaves (more leaves than enters)
                let n = rng.below(70) as usize;
                for j in 0..n {
                    ops.push(Some(j * 7919 % 97));
                }
                for _ in 0..n + 3 {
                    ops.push(None);
                }
                ops.push(Some(1));
            }
            _ => {
                let n = 1 + rng.below(120) as usize;
                let alphabet = 1 + rng.below(if i % 2 == 0 { 4 } else { 200 });
                let enter_bias = 40 + rng.below(55);
                for _ in 0..n {
                    if rng.below(100) < enter_bias {
                        ops.push(Some(rng.below(alphabet) as usize));
                    } else {
                        ops.push(None);
                    }
                }
            }
        }
        let o2 = ops.clone();
        let r = catch(AssertUnwindSafe(|| verif_drive_decycler(&o2)));
        st.evaluations += 1;
        st.count("dec.sequences");
        let obs: Vec<(i64, i64)> = match &r {
            Ok(v) => v.iter().map(|(c, d)| (*c as i64, *d as i64)).collect(),
            Err(m) => {
                report_once(st, json!({"key": panic_key(&last_loc(), m), "instance": "decycler op sequence", "panic": m, "ops": format!("{:?}", ops)}));
                vec![(9, 0)]
            }
        };
        for o in &obs {
            st.count(&format!("dec.outcome{}", o.0));
            if o.1 > 64 {
                report_once(st, json!({"key": "decycler:depth>64", "depth": o.1}));
            }
        }
        if obs.iter().any(|o| o.0 != 0) {
            st.nontrivial(&format!("{:?}", ops));
        }
        cw.push(format!(
            "CaseDec {} {}",
            clist(ops.iter(), |o| match o {
                Some(v) => format!("(Some {})", v),
                None => "None".into(),
            }),
            clist(obs.iter(), |o| format!("({}, {})", o.0, o.1))
        ));
    }
}

// ------------------------------------------------------------------------------------------
// font construction helpers (own minimal sfnt writer: no checksums, 4-byte aligned tables)
// ------------------------------------------------------------------------------------------
fn be16(v: u16) -> [u8; 2] {
    v.to_be_bytes()
}
fn build_sfnt(tables: &[(&[u8; 4], Vec<u8>)]) -> Vec<u8> {
    let mut ts: Vec<&(&[u8; 4], Vec<u8>)> = tables.iter().collect();
    ts.sort_by_key(|t| *t.0);
    let n = ts.len();
    let mut out = vec![0u8, 1, 0, 0];
    out.extend_from_slice(&be16(n as u16));
    out.extend_from_slice(&[0; 6]);
    let mut off = 12 + 16 * n;
    let mut body = vec![];
    for t in &ts {
        out.extend_from_slice(&t.0[..]);
        out.extend_from_slice(&[0; 4]);
        out.extend_from_slice(&(off as u32).to_be_bytes());
        out.extend_from_slice(&(t.1.len() as u32).to_be_bytes());
        body.extend_from_slice(&t.1);
        while body.len() % 4 != 0 {
            body.push(0);
        }
        off = 12 + 16 * n + body.len();
    }
    out.extend_from_slice(&body);
    out
}

fn head_table() -> Vec<u8> {
    let mut h = vec![0u8; 54];
    h[0..4].copy_from_slice(&[0, 1, 0, 0]);
    h[12..16].copy_from_slice(&[0x5F, 0x0F, 0x3C, 0xF5]);
    h[18..20].copy_from_slice(&be16(1000));
    h[50..52].copy_from_slice(&be16(1)); // long loca
    h
}
fn hhea_table(num_h: u16) -> Vec<u8> {
    let mut h = vec![0u8; 36];
    h[0..4].copy_from_slice(&[0, 1, 0, 0]);
    h[4..6].copy_from_slice(&be16(800));
    h[34..36].copy_from_slice(&be16(num_h));
    h
}
fn maxp_table(num_glyphs: u16, max_stack: u16, fdefs: u16) -> Vec<u8> {
    let mut m = vec![0u8; 32];
    m[0..4].copy_from_slice(&[0, 1, 0, 0]);
    m[4..6].copy_from_slice(&be16(num_glyphs));
    m[6..8].copy_from_slice(&be16(64)); // maxPoints
    m[8..10].copy_from_slice(&be16(8));
    m[14..16].copy_from_slice(&be16(2)); // maxZones
    m[16..18].copy_from_slice(&be16(4)); // maxTwilightPoints
    m[18..20].copy_from_slice(&be16(8)); // maxStorage
    m[20..22].copy_from_slice(&be16(fdefs));
    m[24..26].copy_from_slice(&be16(max_stack));
    m[26..28].copy_from_slice(&be16(64));
    m[28..30].copy_from_slice(&be16(8));
    m[30..32].copy_from_slice(&be16(4));
    m
}
fn simple_glyph(instr: &[u8]) -> Vec<u8> {
    // one contour, three points (0,0) (100,0) (0,100)
    let mut g = vec![];
    g.extend_from_slice(&be16(1));
    g.extend_from_slice(&[0, 0, 0, 0, 0, 100, 0, 100]); // bbox
    g.extend_from_slice(&be16(2)); // endPts
    g.extend_from_slice(&be16(instr.len() as u16));
    g.extend_from_slice(instr);
    g.extend_from_slice(&[0x01 | 0x02 | 0x04 | 0x10 | 0x20, 0x01 | 0x02 | 0x10 | 0x20 | 0x04, 0x01 | 0x02 | 0x04]); // on-curve, short x,y
    // flags: bit1 x-short, bit4 x positive/same; bit2 y-short, bit5 y positive/same
    g.extend_from_slice(&[0, 100, 100]); // x deltas (third negative via flag without bit4)
    g.extend_from_slice(&[0, 0, 100]);
    if g.len() % 2 == 1 {
        g.push(0);
    }
    g
}
#[derive(Clone, Debug)]
enum GK {
    Empty,
    Simple,
    Composite(Vec<u16>),
    /// simple glyph with `points` points in `contours` contours (flag-repeat runs: ~2 bytes per 256 points)
    Big { points: usize, contours: usize, instr: Vec<u8> },
    /// composite with glyph instructions
    CompositeI(Vec<u16>, Vec<u8>),
    /// the three-point simple glyph with its own glyph program
    SimpleI(Vec<u8>),
}
fn big_simple_glyph(points: usize, contours: usize, instr: &[u8]) -> Vec<u8> {
    let points = points.clamp(1, 65536);
    let contours = contours.clamp(1, points);
    let mut g = vec![];
    g.extend_from_slice(&be16(contours as u16));
    g.extend_from_slice(&[0, 0, 0, 0, 0, 100, 0, 100]);
    for c in 0..contours {
        let end = if c + 1 == contours { points - 1 } else { (points / contours) * (c + 1) - 1 };
        g.extend_from_slice(&be16(end as u16));
    }
    g.extend_from_slice(&be16(instr.len() as u16));
    g.extend_from_slice(instr);
    // ON_CURVE | REPEAT | X_IS_SAME | Y_IS_SAME: no coordinate bytes
    let mut remaining = points;
    while remaining > 0 {
        let run = remaining.min(256);
        g.push(0x01 | 0x08 | 0x10 | 0x20);
        g.push((run - 1) as u8);
        remaining -= run;
    }
    if g.len() % 2 == 1 {
        g.push(0);
    }
    g
}
fn composite_glyph_instr(comps: &[u16], instr: &[u8]) -> Vec<u8> {
    let mut g = vec![];
    g.extend_from_slice(&(-1i16).to_be_bytes());
    g.extend_from_slice(&[0, 0, 0, 0, 0, 100, 0, 100]);
    for (i, c) in comps.iter().enumerate() {
        let last = i + 1 == comps.len();
        let mut flags = 0x2u16;
        if !last {
            flags |= 0x20;
        } else if !instr.is_empty() {
            flags |= 0x100; // WE_HAVE_INSTRUCTIONS
        }
        g.extend_from_slice(&be16(flags));
        g.extend_from_slice(&be16(*c));
        g.extend_from_slice(&[0, 0]);
    }
    if !instr.is_empty() {
        g.extend_from_slice(&be16(instr.len() as u16));
        g.extend_from_slice(instr);
    }
    if g.len() % 2 == 1 {
        g.push(0);
    }
    g
}
fn composite_glyph(comps: &[u16]) -> Vec<u8> {
    let mut g = vec![];
    g.extend_from_slice(&(-1i16).to_be_bytes());
    g.extend_from_slice(&[0, 0, 0, 0, 0, 100, 0, 100]);
    for (i, c) in comps.iter().enumerate() {
        let more = if i + 1 < comps.len() { 0x20u16 } else { 0 };
        g.extend_from_slice(&be16(0x2 | more)); // ARGS_ARE_XY_VALUES, byte args
        g.extend_from_slice(&be16(*c));
        g.extend_from_slice(&[1, 1]);
    }
    if g.len() % 2 == 1 {
        g.push(0);
    }
    g
}
/// glyf font from glyph kinds (+ optional fpgm/prep/cvt)
fn glyf_font(glyphs: &[GK], glyph_instr: &[u8], fpgm: &[u8], prep: &[u8], cvt_len: usize, max_stack: u16, fdefs: u16) -> Vec<u8> {
    let mut glyf = vec![];
    let mut loca: Vec<u8> = vec![];
    for g in glyphs {
        loca.extend_from_slice(&(glyf.len() as u32).to_be_bytes());
        match g {
            GK::Empty => {}
            GK::Simple => glyf.extend_from_slice(&simple_glyph(glyph_instr)),
            GK::Composite(c) => glyf.extend_from_slice(&composite_glyph(c)),
            GK::Big { points, contours, instr } => glyf.extend_from_slice(&big_simple_glyph(*points, *contours, instr)),
            GK::CompositeI(c, instr) => glyf.extend_from_slice(&composite_glyph_instr(c, instr)),
            GK::SimpleI(instr) => glyf.extend_from_slice(&simple_glyph(instr)),
        }
    }
    loca.extend_from_slice(&(glyf.len() as u32).to_be_bytes());
    let n = glyphs.len() as u16;
    let mut hmtx = vec![];
    for _ in 0..n {
        hmtx.extend_from_slice(&be16(500));
        hmtx.extend_from_slice(&be16(10));
    }
    let mut t: Vec<(&[u8; 4], Vec<u8>)> = vec![
        (b"head", head_table()),
        (b"hhea", hhea_table(n)),
        (b"maxp", maxp_table(n, max_stack, fdefs)),
        (b"hmtx", hmtx),
        (b"loca", loca),
        (b"glyf", glyf),
    ];
    if !fpgm.is_empty() {
        t.push((b"fpgm", fpgm.to_vec()));
    }
    if !prep.is_empty() {
        t.push((b"prep", prep.to_vec()));
    }
    if cvt_len > 0 {
        t.push((b"cvt ", vec![0u8; cvt_len * 2]));
    }
    build_sfnt(&t)
}

// ---- tiny TrueType assembler for the run-loop cases ----
#[derive(Clone, Debug)]
enum AI {
    Nop,
    PushB(u8),
    PushW(i16),
    Jmp { kind: u8, target: usize, cond: i16 }, // kind 0 JMPR, 1 JROT, 2 JROF; target = instruction index
    Call(u8),
    LoopCall(i16, u8),
    Fdef(u8),
    Endf,
    Dup,
    Pop,
}
fn ai_size(a: &AI) -> usize {
    match a {
        AI::Nop | AI::Endf | AI::Dup | AI::Pop => 1,
        AI::PushB(_) => 2,
        AI::PushW(_) => 3,
        AI::Jmp { kind, .. } => {
            if *kind == 0 {
                4
            } else {
                6
            }
        }
        AI::Call(_) => 3,
        AI::LoopCall(..) => 6,
        AI::Fdef(_) => 3,
    }
}
fn assemble(p: &[AI]) -> Vec<u8> {
    let mut pos = vec![0usize];
    for a in p {
        pos.push(pos.last().unwrap() + ai_size(a));
    }
    let mut b = vec![];
    for (i, a) in p.iter().enumerate() {
        match a {
            AI::Nop => b.push(0x18),
            AI::Endf => b.push(0x2D),
            AI::Dup => b.push(0x20),
            AI::Pop => b.push(0x21),
            AI::PushB(v) => b.extend_from_slice(&[0xB0, *v]),
            AI::PushW(v) => {
                b.push(0xB8);
                b.extend_from_slice(&v.to_be_bytes());
            }
            AI::Jmp { kind, target, cond } => {
                let t = pos[(*target).min(p.len())] as i64;
                if *kind == 0 {
                    let jpc = pos[i] as i64 + 3;
                    b.push(0xB8);
                    b.extend_from_slice(&((t - jpc) as i16).to_be_bytes());
                    b.push(0x1C);
                } else {
                    let jpc = pos[i] as i64 + 5;
                    b.push(0xB9);
                    b.extend_from_slice(&((t - jpc) as i16).to_be_bytes());
                    b.extend_from_slice(&cond.to_be_bytes());
                    b.push(if *kind == 1 { 0x78 } else { 0x79 });
                }
            }
            AI::Call(f) => b.extend_from_slice(&[0xB0, *f, 0x2B]),
            AI::LoopCall(n, f) => {
                b.push(0xB8);
                b.extend_from_slice(&n.to_be_bytes());
                b.extend_from_slice(&[0xB0, *f, 0x2A]);
            }
            AI::Fdef(f) => b.extend_from_slice(&[0xB0, *f, 0x2C]),
        }
    }
    b
}

struct RunCase {
    cvt_len: usize,
    max_stack: u16,
    fdefs: u16,
    fpgm: Vec<u8>,
    prep: Vec<u8>,
    heavy: bool,
    what: String,
}

fn run_cases(seed: u64, thorough: bool) -> Vec<RunCase> {
    let mut rng = Rng::new(seed ^ 0x52554e);
    let v2: std::cell::RefCell<Vec<RunCase>> = std::cell::RefCell::new(vec![]);
    let add = |cvt_len: usize, max_stack: u16, fdefs: u16, fpgm: Vec<AI>, prep: Vec<AI>, heavy: bool, what: &str| {
        v2.borrow_mut().push(RunCase { cvt_len, max_stack, fdefs, fpgm: assemble(&fpgm), prep: assemble(&prep), heavy, what: what.into() });
    };
    let nops = |n: usize| -> Vec<AI> { (0..n).map(|_| AI::Nop).collect() };
    // tight backward loops of various body lengths: loop budget (limit = 300 + 22*cvt_len)
    for cvt in [0usize, 1, 7] {
        for body in [0usize, 1, 2, 5] {
            let mut p = nops(body);
            p.push(AI::Jmp { kind: 0, target: 0, cond: 0 });
            add(cvt, 16, 4, vec![], p.clone(), false, "backjump-loop-prep");
            add(cvt, 16, 4, p, vec![AI::Nop], false, "backjump-loop-fpgm");
        }
    }
    // jump to self (offset 0 -> -1 after adjustment): InvalidJump
    add(0, 16, 4, vec![], vec![AI::Nop, AI::PushW(0), AI::Jmp { kind: 0, target: 99, cond: 0 }], false, "fwd-jump-out");
    add(0, 16, 4, vec![], vec![AI::PushW(0), AI::PushW(0), AI::Pop, AI::Nop, AI::PushB(0)], false, "straight");
    {
        // JMPR with offset 0 => jump_offset -1 => InvalidJump
        let mut prep = assemble(&[AI::Nop]);
        prep.extend_from_slice(&[0xB8, 0, 0, 0x1C]);
        v2.borrow_mut().push(RunCase { cvt_len: 0, max_stack: 16, fdefs: 4, fpgm: vec![], prep, heavy: false, what: "invalid-jump".into() });
        // jump far backwards before the start: pc wraps, program ends
        let mut prep = assemble(&[AI::Nop]);
        prep.extend_from_slice(&[0xB8, 0x80, 0x00, 0x1C, 0x18]);
        v2.borrow_mut().push(RunCase { cvt_len: 0, max_stack: 16, fdefs: 4, fpgm: vec![], prep, heavy: false, what: "jump-before-start".into() });
        // truncated push
        v2.borrow_mut().push(RunCase { cvt_len: 0, max_stack: 16, fdefs: 4, fpgm: vec![0x18, 0xB9, 0, 1], prep: vec![0x18], heavy: false, what: "truncated-push".into() });
        // value stack overflow: maxStack 0 -> cap 32
        let prep: Vec<u8> = (0..12).flat_map(|_| vec![0xB2u8, 1, 2, 3]).collect();
        v2.borrow_mut().push(RunCase { cvt_len: 0, max_stack: 0, fdefs: 4, fpgm: vec![], prep, heavy: false, what: "vs-overflow".into() });
        let mut prep: Vec<u8> = vec![0xB0, 5];
        prep.extend(std::iter::repeat(0x20).take(40));
        v2.borrow_mut().push(RunCase { cvt_len: 0, max_stack: 1, fdefs: 4, fpgm: vec![], prep, heavy: false, what: "dup-overflow".into() });
    }
    // conditional loops: JROT/JROF taken / not taken
    for kind in [1u8, 2] {
        for cond in [0i16, 1, -1] {
            add(2, 16, 4, vec![], vec![AI::Nop, AI::Jmp { kind, target: 0, cond }, AI::Nop], false, "cond-loop");
            add(2, 16, 4, vec![], vec![AI::Nop, AI::Jmp { kind, target: 3, cond }, AI::Nop, AI::Nop], false, "cond-fwd");
        }
    }
    // infinite recursion and recursion chains around the call-stack depth 32
    add(0, 16, 4, vec![AI::Fdef(0), AI::Call(0), AI::Endf, AI::Call(0)], vec![], false, "self-recursion-fpgm");
    add(0, 16, 4, vec![AI::Fdef(0), AI::Call(0), AI::Endf], vec![AI::Nop, AI::Call(0)], false, "self-recursion-prep");
    add(0, 16, 4, vec![AI::Fdef(0), AI::Call(1), AI::Endf, AI::Fdef(1), AI::Call(0), AI::Endf], vec![AI::Call(1)], false, "mutual-recursion");
    for depth in [30usize, 31, 32, 33, 34] {
        // f_i calls f_{i+1}; f_{depth-1} is a leaf
        let mut f = vec![];
        for i in 0..depth {
            f.push(AI::Fdef(i as u8));
            if i + 1 < depth {
                f.push(AI::Call(i as u8 + 1));
            }
            f.push(AI::Nop);
            f.push(AI::Endf);
        }
        add(0, 16, 40, f, vec![AI::Call(0), AI::Nop], false, "call-chain");
    }
    // undefined / out of range function, ENDF without call, nested FDEF, FDEF without ENDF
    add(0, 16, 4, vec![], vec![AI::Call(2)], false, "undefined-fn");
    add(0, 16, 4, vec![], vec![AI::Call(200)], false, "undefined-fn-oob");
    add(0, 16, 4, vec![], vec![AI::Nop, AI::Endf], false, "endf-underflow");
    add(0, 16, 4, vec![AI::Fdef(0), AI::Fdef(1), AI::Endf, AI::Endf], vec![], false, "nested-fdef");
    add(0, 16, 4, vec![AI::Fdef(0), AI::Nop], vec![], false, "fdef-no-endf");
    add(0, 16, 2, vec![AI::Fdef(0), AI::Endf, AI::Fdef(1), AI::Endf, AI::Fdef(7), AI::Endf], vec![AI::Call(7)], false, "fdef-too-many");
    add(0, 16, 3, vec![AI::Fdef(9), AI::Nop, AI::Endf, AI::Fdef(9), AI::Endf, AI::Fdef(1), AI::Endf, AI::Fdef(5), AI::Endf], vec![AI::Call(9), AI::Call(5), AI::Call(1)], false, "fdef-remap");
    add(0, 16, 0, vec![AI::Fdef(0), AI::Endf], vec![], false, "fdef-zero-defs");
    // loop calls around the budget; limit = 300 + 22*cvt_len
    for cvt in [0usize, 3] {
        let limit = 300 + 22 * cvt as i64;
        for count in [-1i64, 0, 1, 2, limit - 1, limit, limit + 1, 32767] {
            add(cvt, 16, 4, vec![AI::Fdef(0), AI::Nop, AI::Endf], vec![AI::LoopCall(count as i16, 0), AI::Nop], false, "loopcall");
        }
        // two loop calls summing over the limit
        add(cvt, 16, 4, vec![AI::Fdef(0), AI::Endf], vec![AI::LoopCall((limit - 1) as i16, 0), AI::LoopCall(1, 0), AI::LoopCall(1, 0)], false, "loopcall-sum");
        // loop call of an undefined function: budget charged first
        add(cvt, 16, 4, vec![], vec![AI::LoopCall(5, 3)], false, "loopcall-undefined");
        add(cvt, 16, 4, vec![], vec![AI::LoopCall((limit + 1) as i16, 3)], false, "loopcall-undefined-overbudget");
        // nested loop calls
        add(cvt, 16, 4, vec![AI::Fdef(0), AI::Nop, AI::Endf, AI::Fdef(1), AI::LoopCall(10, 0), AI::Endf], vec![AI::LoopCall(20, 1)], false, "loopcall-nested");
    }
    // budgets are per program: fpgm uses part, prep starts from zero
    {
        let mut p = vec![AI::Nop];
        p.push(AI::Jmp { kind: 1, target: 0, cond: 0 }); // not taken
        add(0, 16, 4, vec![AI::Fdef(0), AI::Endf, AI::LoopCall(299, 0)], vec![AI::LoopCall(299, 0), AI::LoopCall(2, 0)], false, "budget-per-program");
    }
    // random structured programs
    let nrand = if thorough { 400 } else { 120 };
    for _ in 0..nrand {
        let gen = |rng: &mut Rng, n: usize, in_fpgm: bool| -> Vec<AI> {
            let mut p = vec![];
            let mut open = false;
            for i in 0..n {
                let k = rng.below(100);
                let a = if k < 25 {
                    AI::Nop
                } else if k < 35 {
                    AI::PushB(rng.below(4) as u8)
                } else if k < 42 {
                    AI::PushW(*rng.pick(&[0i16, 1, -1, 2, -2, 300, 32767, -32768]))
                } else if k < 52 {
                    AI::Jmp { kind: rng.below(3) as u8, target: rng.below(n as u64 + 1) as usize, cond: rng.below(2) as i16 }
                } else if k < 62 {
                    AI::Call(rng.below(4) as u8)
                } else if k < 70 {
                    AI::LoopCall(*rng.pick(&[0i16, 1, 2, 3, 50, 200, 301, -1]), rng.below(4) as u8)
                } else if k < 78 && in_fpgm && !open && i + 2 < n {
                    open = true;
                    AI::Fdef(rng.below(5) as u8)
                } else if k < 88 {
                    if open {
                        open = false;
                    }
                    AI::Endf
                } else if k < 94 {
                    AI::Dup
                } else {
                    AI::Pop
                };
                p.push(a);
            }
            p
        };
        let nf = rng.below(14) as usize;
        let np = rng.below(14) as usize;
        let f = gen(&mut rng, nf, true);
        let p = gen(&mut rng, np, false);
        add(rng.below(3) as usize, rng.below(6) as u16, 4, f, p, false, "random");
    }
    // MAX_RUN_INSTRUCTIONS: (1) backward-jump loop with a large cvt (limit 660300 > 500000 iterations of
    // 2 dispatches), (2) loop call of a long function
    add(30000, 16, 4, vec![], vec![AI::Jmp { kind: 0, target: 0, cond: 0 }], true, "max-run-backjump");
    {
        let mut f = vec![AI::Fdef(0)];
        f.extend(nops(3));
        f.push(AI::Endf);
        let mut p = vec![AI::Nop];
        p.extend((0..10).map(|_| AI::LoopCall(32767, 0)));
        add(30000, 16, 4, f, p, true, "max-run-loopcall");
    }
    if thorough {
        let mut p = nops(3);
        p.push(AI::Jmp { kind: 0, target: 1, cond: 0 });
        add(32767, 16, 4, vec![], p, true, "max-run-backjump-body3");
    }
    v2.into_inner()
}

fn kind_index(k: &HintErrorKind) -> i64 {
    use HintErrorKind::*;
    match k {
        UnexpectedEndOfBytecode => 0,
        UnhandledOpcode(_) => 1,
        DefinitionInGlyphProgram => 2,
        NestedDefinition => 3,
        DefinitionTooLarge => 4,
        TooManyDefinitions => 5,
        InvalidDefinition(_) => 6,
        ValueStackOverflow => 7,
        ValueStackUnderflow => 8,
        CallStackOverflow => 9,
        CallStackUnderflow => 10,
        InvalidStackValue(_) => 11,
        InvalidPointIndex(_) => 12,
        InvalidPointRange(..) => 13,
        InvalidContourIndex(_) => 14,
        InvalidCvtIndex(_) => 15,
        InvalidStorageIndex(_) => 16,
        DivideByZero => 17,
        InvalidZoneIndex(_) => 18,
        NegativeLoopCounter => 19,
        InvalidJump => 20,
        ExceededExecutionBudget => 21,
    }
}

/// (B1) run one run-loop case on the real interpreter through the public API
fn exec_run_case(c: &RunCase) -> (i64, i64, i64, i64) {
    use skrifa::outline::{DrawError, Engine, HintingInstance, HintingOptions};
    use skrifa::MetadataProvider;
    let font = glyf_font(&[GK::Simple], &[], &c.fpgm, &c.prep, c.cvt_len, c.max_stack, c.fdefs);
    let f = skrifa::FontRef::new(&font).expect("crafted font parses");
    let og = f.outline_glyphs();
    let r = HintingInstance::new(
        &og,
        skrifa::instance::Size::new(16.0),
        skrifa::instance::LocationRef::default(),
        HintingOptions { engine: Engine::Interpreter, target: Default::default() },
    );
    match r {
        Ok(_) => (0, 0, 0, 0),
        Err(DrawError::HintingFailed(e)) => {
            let p = match format!("{:?}", e.program).as_str() {
                "Font" => 0,
                "ControlValue" => 1,
                _ => 2,
            };
            (1, p, e.pc as i64, kind_index(&e.kind))
        }
        Err(_) => (7, 0, 0, 0),
    }
}

// ---- composite graphs ----
struct CompCase {
    glyphs: Vec<GK>,
    gid: u16,
    what: String,
}
fn comp_cases(seed: u64, thorough: bool) -> Vec<CompCase> {
    let mut rng = Rng::new(seed ^ 0x434f4d50);
    let mut v = vec![];
    // chains g0 -> g1 -> ... -> g_{k}, last simple or empty
    for k in 28..=37usize {
        for last_empty in [false, true] {
            let mut g: Vec<GK> = (0..k).map(|i| GK::Composite(vec![i as u16 + 1])).collect();
            g.push(if last_empty { GK::Empty } else { GK::Simple });
            v.push(CompCase { glyphs: g.clone(), gid: 0, what: format!("chain{}", k) });
            v.push(CompCase { glyphs: g, gid: 3, what: format!("chain{}-from3", k) });
        }
    }
    // cycles
    for l in [1usize, 2, 3, 5, 17, 40] {
        let g: Vec<GK> = (0..l).map(|i| GK::Composite(vec![((i + 1) % l) as u16])).collect();
        v.push(CompCase { glyphs: g, gid: 0, what: format!("cycle{}", l) });
        // cycle reached after a simple sibling
        let mut g: Vec<GK> = vec![GK::Simple];
        for i in 0..l {
            g.push(GK::Composite(vec![0, (1 + (i + 1) % l) as u16]));
        }
        v.push(CompCase { glyphs: g, gid: 1, what: format!("cycle{}-sibling", l) });
    }
    // random DAGs / graphs with bounded work
    let n = if thorough { 300 } else { 80 };
    for _ in 0..n {
        let ng = 2 + rng.below(14) as usize;
        let cyclic = rng.chance(1, 3);
        let mut g = vec![];
        for i in 0..ng {
            let k = rng.below(10);
            if k < 2 {
                g.push(GK::Empty);
            } else if k < 5 || (i + 1 == ng && !cyclic) {
                g.push(GK::Simple);
            } else {
                let nc = 1 + rng.below(2) as usize;
                let comps = (0..nc)
                    .map(|_| if cyclic { rng.below(ng as u64) as u16 } else { (i as u64 + 1 + rng.below((ng - i - 1).max(1) as u64)).min(ng as u64 - 1) as u16 })
                    .collect();
                g.push(GK::Composite(comps));
            }
        }
        // in the cyclic case fan-out 2 with depth 33 would be exponential: restrict fan-out to 1 on cycles
        if cyclic {
            for x in g.iter_mut() {
                if let GK::Composite(c) = x {
                    c.truncate(1);
                }
            }
        }
        let gid = rng.below(ng as u64) as u16;
        v.push(CompCase { glyphs: g, gid, what: "random".into() });
    }
    v
}
fn gk_term(g: &GK) -> String {
    match g {
        GK::Empty => "GEmpty".into(),
        GK::Simple => "GSimple".into(),
        GK::Composite(c) | GK::CompositeI(c, _) => format!("GComposite {}", czlist(c.iter().map(|v| *v as i128))),
        GK::Big { .. } | GK::SimpleI(_) => "GSimple".into(),
    }
}
struct NullPen;
impl skrifa::outline::OutlinePen for NullPen {
    fn move_to(&mut self, _: f32, _: f32) {}
    fn line_to(&mut self, _: f32, _: f32) {}
    fn quad_to(&mut self, _: f32, _: f32, _: f32, _: f32) {}
    fn curve_to(&mut self, _: f32, _: f32, _: f32, _: f32, _: f32, _: f32) {}
    fn close(&mut self) {}
}
fn exec_comp_case(c: &CompCase) -> (i64, i64) {
    use skrifa::outline::{DrawError, DrawSettings};
    use skrifa::MetadataProvider;
    let font = glyf_font(&c.glyphs, &[], &[], &[], 0, 16, 0);
    let f = skrifa::FontRef::new(&font).expect("crafted font parses");
    let og = f.outline_glyphs();
    match og.get(skrifa::GlyphId::new(c.gid as u32)) {
        None => (1, 0),
        Some(g) => {
            let r = g.draw(DrawSettings::unhinted(skrifa::instance::Size::unscaled(), skrifa::instance::LocationRef::default()), &mut NullPen);
            match r {
                Ok(_) => (0, 0),
                Err(DrawError::RecursionLimitExceeded(_)) => (0, 1),
                Err(_) => (0, 2),
            }
        }
    }
}

// ------------------------------------------------------------------------------------------
// (C) totality search
// ------------------------------------------------------------------------------------------
fn wline(s: &str) {
    let out = std::io::stdout();
    let mut l = out.lock();
    let _ = l.write_all(s.as_bytes());
    let _ = l.write_all(b"\n");
    let _ = l.flush();
}

thread_local! {
    static LAST_LOC: std::cell::RefCell<String> = std::cell::RefCell::new(String::new());
}
/// seed-independent, defect-specific key of a panic: location + message (first 60 chars, digit runs -> N so
/// that lengths / indices quoted in the message do not make the key instance-specific)
fn panic_key(loc: &str, msg: &str) -> String {
    let mut norm = String::new();
    let mut in_digits = false;
    for c in msg.chars() {
        if c.is_ascii_digit() {
            if !in_digits {
                norm.push('N');
            }
            in_digits = true;
        } else {
            in_digits = false;
            norm.push(c);
        }
    }
    let short: String = norm.chars().take(60).collect();
    format!("panic:{}:{}", if loc.is_empty() { "?" } else { loc }, short)
}
fn last_loc() -> String {
    LAST_LOC.with(|c| c.borrow().clone())
}
/// "<font>:<mutation id>" -> "<font>"
fn base_font(instance: &str) -> &str {
    instance.split(':').next().unwrap_or(instance)
}
fn repro_cmd(task: usize) -> String {
    format!("VERIF_SEED={} C02_TRACE=1 C02_ONLY={} .cache/target/debug/c02 worker <tier> {} 16 {}", seed_from_env(), task, task % 16, task)
}
fn install_loc_hook() {
    std::panic::set_hook(Box::new(|info| {
        let loc = info.location().map(|l| format!("{}:{}", l.file().rsplit_once("/repo/").map(|x| x.1).unwrap_or(l.file()), l.line())).unwrap_or_default();
        LAST_LOC.with(|c| *c.borrow_mut() = loc);
    }));
}

struct Ctx {
    task: usize,
    key: String, // "<font>:<mutation id>"
    counters: std::collections::BTreeMap<String, u64>,
    evals: u64,
    failures: usize,
    sites: Vec<String>,
}
impl Ctx {
    fn count(&mut self, k: &str) {
        *self.counters.entry(k.to_string()).or_insert(0) += 1;
    }
    /// run one API call: a panic is an oracle failure; > 8 s for a single call as well
    fn api<T>(&mut self, name: &str, f: impl FnOnce() -> T) -> Option<T> {
        self.evals += 1;
        let t0 = Instant::now();
        let r = catch(AssertUnwindSafe(f));
        let dt = t0.elapsed();
        if dt > Duration::from_secs(8) {
            let key = format!("budget:{}:{}", name, base_font(&self.key));
            self.fail(name, key, &format!("single call took {:.1}s", dt.as_secs_f64()));
        }
        match r {
            Ok(v) => Some(v),
            Err(m) => {
                let loc = last_loc();
                self.fail(name, panic_key(&loc, &m), &format!("{} @ {}", m, loc));
                None
            }
        }
    }
    /// key: seed-independent defect id; the concrete instance goes into the other fields
    fn fail(&mut self, api: &str, key: String, what: &str) {
        self.failures += 1;
        if !self.sites.contains(&key) {
            wline(&format!("F {}", json!({"key": key, "what": what, "api": api, "instance": self.key, "task": self.task, "repro": repro_cmd(self.task)})));
            self.sites.push(key);
        }
    }
    fn group(&mut self, name: &str) {
        wline(&format!("A {}", name));
    }
}

fn rd16(d: &[u8], o: usize) -> Option<u16> {
    d.get(o..o + 2).map(|b| u16::from_be_bytes([b[0], b[1]]))
}
fn rd32(d: &[u8], o: usize) -> Option<u32> {
    d.get(o..o + 4).map(|b| u32::from_be_bytes([b[0], b[1], b[2], b[3]]))
}
/// (tag, record offset, table offset, table length) of the first font in the file
fn table_dir(d: &[u8]) -> Vec<([u8; 4], usize, usize, usize)> {
    let base = if d.get(0..4) == Some(b"ttcf") { rd32(d, 12).unwrap_or(0) as usize } else { 0 };
    let n = rd16(d, base + 4).unwrap_or(0) as usize;
    let mut v = vec![];
    for i in 0..n.min(64) {
        let r = base + 12 + 16 * i;
        if let (Some(t), Some(o), Some(l)) = (d.get(r..r + 4), rd32(d, r + 8), rd32(d, r + 12)) {
            v.push(([t[0], t[1], t[2], t[3]], r, o as usize, l as usize));
        }
    }
    v
}
fn find_table(d: &[u8], tag: &[u8; 4]) -> Option<(usize, usize, usize)> {
    table_dir(d).into_iter().find(|t| &t.0 == tag).map(|t| (t.1, t.2, t.3))
}

const HOT: &[(&[u8; 4], &[usize])] = &[
    (b"maxp", &[4, 6, 8, 10, 12, 14, 16, 18, 20, 22, 24, 26, 28, 30]),
    (b"hhea", &[34, 4, 6]),
    (b"head", &[18, 50, 52]),
    (b"fvar", &[4, 8, 10, 12, 14]),
    (b"gvar", &[4, 6, 8, 10, 12, 14, 16, 18]),
    (b"avar", &[4, 6, 8]),
    (b"COLR", &[0, 2, 4, 6, 8, 10, 12, 14, 16, 18, 20, 22, 24, 26, 28, 30, 32, 34]),
    (b"CPAL", &[0, 2, 4, 6, 8, 10]),
    (b"CFF ", &[0, 1, 2, 3, 4, 5, 6, 7, 8]),
    (b"CFF2", &[0, 1, 2, 3, 4, 5, 6]),
    (b"HVAR", &[4, 8, 12, 16]),
    (b"cmap", &[2, 4, 6, 8, 10, 12]),
    (b"name", &[2, 4, 6, 8, 10, 12, 14, 16]),
    (b"post", &[0, 2, 32, 34]),
    (b"OS/2", &[0, 68, 70, 72]),
    (b"cvar", &[4, 6]),
    (b"hdmx", &[2, 4, 6]),
];

/// tiny hostile programs (raw bytes) for in-place splices
/// bytecode that leaves 2_097_088_000 on the stack: PUSHW 32767 32767; MUL; PUSHW 8000; MUL
fn huge_count_code() -> Vec<u8> {
    vec![0xB9, 0x7F, 0xFF, 0x7F, 0xFF, 0x63, 0xB8, 0x1F, 0x40, 0x63]
}
/// (name, opcodes that consume a count / loop counter) for the huge-count generators
const COUNT_OPS: &[(&str, &[u8])] = &[
    ("deltap1", &[0x5D]),
    ("deltap2", &[0x71]),
    ("deltap3", &[0x72]),
    ("deltac1", &[0x73]),
    ("deltac2", &[0x74]),
    ("deltac3", &[0x75]),
    ("sloop-shp", &[0x17, 0x32]),
    ("sloop-shp1", &[0x17, 0x33]),
    ("sloop-ip", &[0x17, 0x39]),
    ("sloop-alignrp", &[0x17, 0x3C]),
    ("sloop-flippt", &[0x17, 0x80]),
    ("sloop-shpix", &[0x17, 0xB0, 0x40, 0x38]),
    ("fliprgon", &[0xB0, 0x00, 0x23, 0x81]),
    ("fliprgoff", &[0xB0, 0x00, 0x23, 0x82]),
    ("mindex", &[0x26]),
    ("cindex", &[0x25]),
    ("loopcall", &[0xB0, 0x00, 0x2A]),
    ("ws", &[0xB0, 0x01, 0x42]),
    ("npushb-count", &[0x40]),
];
/// `reps` x [huge count; op]
fn huge_count_program(op: &[u8], reps: usize) -> Vec<u8> {
    let mut v = vec![];
    for _ in 0..reps {
        v.extend(huge_count_code());
        v.extend_from_slice(op);
    }
    v
}

fn hostile_program(k: u64) -> (&'static str, Vec<u8>) {
    if k % 12 >= 8 {
        let (name, op) = COUNT_OPS[((k / 12) as usize + (k % 12 - 8) as usize * 5) % COUNT_OPS.len()];
        return (name, huge_count_program(op, 2));
    }
    match k % 12 {
        0 => ("tightloop", vec![0xB8, 0xFF, 0xFD, 0x1C]),                                   // PUSHW -3; JMPR
        1 => ("selfjump", vec![0xB0, 0x00, 0x1C]),                                          // offset 0
        2 => ("loopcall", vec![0xB8, 0x7F, 0xFF, 0xB0, 0x00, 0x2A]),                        // LOOPCALL 32767 x f0
        3 => ("recurse", vec![0xB0, 0x00, 0x2C, 0xB0, 0x00, 0x2B, 0x2D, 0xB0, 0x00, 0x2B]), // FDEF 0 {CALL 0} CALL 0
        4 => ("stackflood", vec![0x40, 0xFF]),                                              // NPUSHB 255 (truncated)
        5 => ("mindex", vec![0xB8, 0x80, 0x00, 0x26, 0xB8, 0x7F, 0xFF, 0x25, 0x8A]),        // MINDEX/CINDEX/ROLL extremes
        6 => ("longloop", vec![0x18, 0x18, 0x18, 0x18, 0xB8, 0xFF, 0xF9, 0x1C]),            // 4 nops + jump back -7
        _ => ("sloop", vec![0xB8, 0x7F, 0xFF, 0x17, 0xB0, 0x00, 0x32, 0xB8, 0xFF, 0xFF, 0x17, 0x32]), // SLOOP huge; SHP
    }
}

/// structure-aware mutation; returns (mutation id, bytes)
fn mutate_font(orig: &[u8], k: usize, rng: &mut Rng) -> (String, Vec<u8>) {
    let mut d = orig.to_vec();
    if k == 0 || d.len() < 16 {
        return ("id".into(), d);
    }
    let dir = table_dir(&d);
    let ext16 = [0u16, 1, 2, 0x7FFF, 0x8000, 0xFFFE, 0xFFFF];
    let ext32 = [0u32, 1, 0x7FFFFFFF, 0x80000000, 0xFFFFFFFF, 0x00010000, 0xFFFF];
    let kind = rng.below(100);
    if kind < 8 {
        // truncation at a table boundary or anywhere
        let l = if rng.chance(1, 2) && !dir.is_empty() {
            let t = rng.pick(&dir);
            (t.2 + if rng.chance(1, 2) { 0 } else { rng.below(t.3 as u64 + 1) as usize }).min(d.len())
        } else {
            rng.below(d.len() as u64) as usize
        };
        d.truncate(l);
        return (format!("trunc@{}", l), d);
    }
    if dir.is_empty() {
        let o = rng.below(d.len() as u64) as usize;
        d[o] ^= 1 << rng.below(8);
        return (format!("flip@{}", o), d);
    }
    if kind < 40 {
        // hot field extremes
        let present: Vec<&(&[u8; 4], &[usize])> = HOT.iter().filter(|h| dir.iter().any(|t| &t.0 == h.0)).collect();
        if !present.is_empty() {
            let h = rng.pick(&present);
            let (_, to, tl) = find_table(&d, h.0).unwrap();
            let fo = *rng.pick(h.1);
            let tag = String::from_utf8_lossy(&h.0[..]).trim().to_string();
            if rng.chance(3, 4) {
                let v = *rng.pick(&ext16);
                if fo + 2 <= tl && to + fo + 2 <= d.len() {
                    d[to + fo..to + fo + 2].copy_from_slice(&v.to_be_bytes());
                    return (format!("u16@{}+{}={:x}", tag, fo, v), d);
                }
            } else {
                let v = *rng.pick(&ext32);
                if fo + 4 <= tl && to + fo + 4 <= d.len() {
                    d[to + fo..to + fo + 4].copy_from_slice(&v.to_be_bytes());
                    return (format!("u32@{}+{}={:x}", tag, fo, v), d);
                }
            }
        }
    }
    if kind < 60 {
        // field extreme at an arbitrary offset of an arbitrary table
        let t = rng.pick(&dir).clone();
        let tag = String::from_utf8_lossy(&t.0).trim().to_string();
        if t.3 >= 4 && t.2 + t.3 <= d.len() {
            let fo = if rng.chance(3, 5) { rng.below(t.3.min(64) as u64 - 3) as usize } else { rng.below(t.3 as u64 - 3) as usize };
            if rng.chance(2, 3) {
                let v = if rng.chance(3, 4) { *rng.pick(&ext16) } else { rng.next_u32() as u16 };
                d[t.2 + fo..t.2 + fo + 2].copy_from_slice(&v.to_be_bytes());
                return (format!("u16@{}+{}={:x}", tag, fo, v), d);
            } else {
                let v = if rng.chance(3, 4) { *rng.pick(&ext32) } else { rng.next_u32() };
                d[t.2 + fo..t.2 + fo + 4].copy_from_slice(&v.to_be_bytes());
                return (format!("u32@{}+{}={:x}", tag, fo, v), d);
            }
        }
    }
    if kind < 70 {
        // directory record: length / offset
        let t = rng.pick(&dir).clone();
        let tag = String::from_utf8_lossy(&t.0).trim().to_string();
        if rng.chance(2, 3) {
            let nl = *rng.pick(&[0u32, 1, 2, 3, (t.3 / 2) as u32, t.3.saturating_sub(1) as u32, t.3 as u32 + 1, 0xFFFFFFFF]);
            d[t.1 + 12..t.1 + 16].copy_from_slice(&nl.to_be_bytes());
            return (format!("dirlen@{}={:x}", tag, nl), d);
        } else {
            let no = *rng.pick(&[0u32, 12, d.len() as u32 - 1, d.len() as u32, 0xFFFFFFFF, (t.2 + 1) as u32, (t.2 + 2) as u32]);
            d[t.1 + 8..t.1 + 12].copy_from_slice(&no.to_be_bytes());
            return (format!("diroff@{}={:x}", tag, no), d);
        }
    }
    if kind < 82 {
        // bytecode splice in place: prep / fpgm / glyph instructions
        let (pname, prog) = hostile_program(rng.below(12 * 19));
        let which = rng.below(3);
        if which < 2 {
            let tag: &[u8; 4] = if which == 0 { b"prep" } else { b"fpgm" };
            if let Some((_, to, tl)) = find_table(&d, tag) {
                if tl >= prog.len() && to + tl <= d.len() {
                    let at = if which == 1 { 0 } else { *rng.pick(&[0usize, tl - prog.len()]) };
                    d[to + at..to + at + prog.len()].copy_from_slice(&prog);
                    return (format!("splice@{}+{}={}", String::from_utf8_lossy(tag), at, pname), d);
                }
            }
        }
        // glyph instructions: scan glyf for a simple glyph with enough instructions
        if let (Some((_, go, gl)), Some((_, lo, ll)), Some((_, ho, _))) = (find_table(&d, b"glyf"), find_table(&d, b"loca"), find_table(&d, b"head")) {
            let long = rd16(&d, ho + 50) == Some(1);
            let n = if long { ll / 4 } else { ll / 2 };
            for _ in 0..40 {
                if n < 2 {
                    break;
                }
                let g = rng.below(n as u64 - 1) as usize;
                let (a, b) = if long {
                    (rd32(&d, lo + 4 * g).unwrap_or(0) as usize, rd32(&d, lo + 4 * g + 4).unwrap_or(0) as usize)
                } else {
                    (rd16(&d, lo + 2 * g).unwrap_or(0) as usize * 2, rd16(&d, lo + 2 * g + 2).unwrap_or(0) as usize * 2)
                };
                if b <= a || b > gl {
                    continue;
                }
                let gs = go + a;
                let nc = rd16(&d, gs).unwrap_or(0) as i16;
                if nc <= 0 {
                    continue;
                }
                let io = gs + 10 + 2 * nc as usize;
                let il = rd16(&d, io).unwrap_or(0) as usize;
                if il >= prog.len() && io + 2 + il <= d.len() {
                    d[io + 2..io + 2 + prog.len()].copy_from_slice(&prog);
                    return (format!("splice@glyph{}={}", g, pname), d);
                }
            }
        }
    }
    if kind < 90 {
        // composite redirect: make a component point at its own / another composite glyph
        if let (Some((_, go, gl)), Some((_, lo, ll)), Some((_, ho, _))) = (find_table(&d, b"glyf"), find_table(&d, b"loca"), find_table(&d, b"head")) {
            let long = rd16(&d, ho + 50) == Some(1);
            let n = if long { ll / 4 } else { ll / 2 };
            let mut composites = vec![];
            for g in 0..n.saturating_sub(1).min(4000) {
                let (a, b) = if long {
                    (rd32(&d, lo + 4 * g).unwrap_or(0) as usize, rd32(&d, lo + 4 * g + 4).unwrap_or(0) as usize)
                } else {
                    (rd16(&d, lo + 2 * g).unwrap_or(0) as usize * 2, rd16(&d, lo + 2 * g + 2).unwrap_or(0) as usize * 2)
                };
                if b > a && b <= gl && (rd16(&d, go + a).unwrap_or(0) as i16) < 0 {
                    composites.push((g, go + a));
                }
            }
            if !composites.is_empty() {
                let (g, gs) = *rng.pick(&composites);
                let target = if rng.chance(1, 2) { g as u16 } else if rng.chance(1, 2) { rng.pick(&composites).0 as u16 } else { *rng.pick(&[0xFFFFu16, n as u16, n as u16 - 1]) };
                if gs + 14 <= d.len() {
                    d[gs + 12..gs + 14].copy_from_slice(&target.to_be_bytes());
                    return (format!("component@glyph{}->{}", g, target), d);
                }
            }
        }
    }
    // random byte edits inside one table (biased to COLR/CFF/gvar/glyf when present)
    let pref: Vec<_> = dir.iter().filter(|t| [b"COLR", b"CFF ", b"CFF2", b"gvar", b"glyf", b"loca", b"hmtx", b"fvar", b"cmap", b"IFT ", b"IFTX"].contains(&&t.0)).cloned().collect();
    let t = if !pref.is_empty() && rng.chance(3, 4) { rng.pick(&pref).clone() } else { rng.pick(&dir).clone() };
    let tag = String::from_utf8_lossy(&t.0).trim().to_string();
    let nb = 1 + rng.below(6) as usize;
    let mut desc = format!("bytes@{}", tag);
    if t.3 > 0 && t.2 + t.3 <= d.len() {
        for _ in 0..nb {
            let o = rng.below(t.3 as u64) as usize;
            let v = if rng.chance(1, 2) { *rng.pick(&[0u8, 1, 0x7F, 0x80, 0xFF]) } else { rng.next_u32() as u8 };
            d[t.2 + o] = v;
            desc.push_str(&format!("+{}={:x}", o, v));
        }
    } else {
        let o = rng.below(d.len() as u64) as usize;
        d[o] = !d[o];
        desc = format!("not@{}", o);
    }
    (desc, d)
}

struct NullPainter;
impl skrifa::color::ColorPainter for NullPainter {
    fn push_transform(&mut self, _: skrifa::color::Transform) {}
    fn pop_transform(&mut self) {}
    fn push_clip_glyph(&mut self, _: skrifa::GlyphId) {}
    fn push_clip_box(&mut self, _: read_fonts::types::BoundingBox<f32>) {}
    fn pop_clip(&mut self) {}
    fn fill(&mut self, _: skrifa::color::Brush<'_>) {}
    fn push_layer(&mut self, _: skrifa::color::CompositeMode) {}
    fn pop_layer(&mut self) {}
}

/// every string entry point for every name id the font mentions (name records, fvar axes / instances, STAT-less)
/// plus a fixed list
fn exercise_names(cx: &mut Ctx, font: &skrifa::FontRef) {
    use skrifa::raw::TableProvider;
    use skrifa::string::StringId;
    use skrifa::MetadataProvider;
    let mut ids: Vec<u16> = vec![0, 1, 2, 3, 4, 5, 6, 16, 17, 21, 22, 25, 255, 256, 257, 258, 0x7FFF, 0x8000, 0xFFFF];
    if let Some(Ok(name)) = cx.api("name.records", || font.name().map(|n| n.name_record().iter().take(300).map(|r| r.name_id().to_u16()).collect::<Vec<_>>())) {
        ids.extend(name);
    }
    for a in font.axes().iter().take(16) {
        ids.push(a.name_id().to_u16());
    }
    for i in font.named_instances().iter().take(16) {
        ids.push(i.subfamily_name_id().to_u16());
        if let Some(p) = i.postscript_name_id() {
            ids.push(p.to_u16());
        }
    }
    ids.sort();
    ids.dedup();
    for id in ids {
        cx.api("localized_strings", || {
            let mut n = 0usize;
            // full iteration: language tag, chars, to_string for every record
            for s in font.localized_strings(StringId::new(id)).take(400) {
                n += s.language().map(|l| l.len()).unwrap_or(0);
                n += s.chars().take(70000).count();
                n += s.to_string().len();

            }
            let ls = font.localized_strings(StringId::new(id));
            let _ = ls.id();
            if let Some(s) = ls.english_or_first() {
                n += s.language().map(|l| l.len()).unwrap_or(0) + s.to_string().len();
            }
            n
        });
    }
}

/// every public skrifa API on one (possibly hostile) font
fn exercise_font(cx: &mut Ctx, data: &[u8], rng: &mut Rng, thorough: bool) {
    use skrifa::instance::{LocationRef, Size};
    use skrifa::outline::{DrawSettings, Engine, HintingInstance, HintingOptions, SmoothMode, Target};
    use skrifa::raw::types::F2Dot14;
    use skrifa::raw::TableProvider;
    use skrifa::MetadataProvider;
    cx.group("FontRef::new");
    let font = match cx.api("FontRef::new", || {
        skrifa::FontRef::new(data).or_else(|_| skrifa::FontRef::from_index(data, 0))
    }) {
        Some(Ok(f)) => f,
        _ => {
            cx.count("fuzz.font_rejected");
            return;
        }
    };
    cx.count("fuzz.font_accepted");
    let font = &font;
    // ---- metadata ----
    cx.group("metadata");
    cx.api("attributes", || {
        let a = font.attributes();
        (a.weight.value(), a.stretch.ratio(), a.style)
    });
    let axis_count = cx.api("axes", || {
        let axes = font.axes();
        for a in axes.iter().take(64) {
            let _ = (a.tag(), a.min_value(), a.default_value(), a.max_value(), a.name_id(), a.is_hidden(), a.index());
            for v in [f32::NAN, f32::INFINITY, f32::NEG_INFINITY, -1e30, 0.0, 1e30, a.min_value(), a.max_value()] {
                let _ = a.normalize(v);
            }
        }
        let _ = axes.get(usize::MAX);
        let _ = axes.get_by_tag(skrifa::Tag::new(b"wght"));
        let loc = axes.location([("wght", f32::NAN), ("wdth", 1e30), ("opsz", -1e30)]);
        let _ = loc.coords().len();
        let mut buf = [skrifa::instance::NormalizedCoord::default(); 3];
        axes.location_to_slice([("wght", 900.0)], &mut buf);
        axes.len()
    }).unwrap_or(0);
    cx.api("named_instances", || {
        let ni = font.named_instances();
        for i in ni.iter().take(64) {
            let _ = (i.subfamily_name_id(), i.postscript_name_id(), i.user_coords().count(), i.location().coords().len());
            let mut buf = [skrifa::instance::NormalizedCoord::default(); 2];
            i.location_to_slice(&mut buf);
        }
        let _ = ni.get(usize::MAX);
        ni.len()
    });
    exercise_names(cx, font);
    let cmap_gids: Vec<u32> = cx.api("charmap", || {
        let cm = font.charmap();
        let _ = (cm.has_map(), cm.is_symbol(), cm.has_variant_map());
        let mut g = vec![];
        for ch in [0u32, 0x20, 0x41, 0x61, 0x7F, 0xFF, 0x100, 0x633, 0x4E00, 0xF020, 0xFFFF, 0x10000, 0x1F600, 0x10FFFF, 0x110000, u32::MAX] {
            if let Some(x) = cm.map(ch) {
                g.push(x.to_u32());
            }
            let _ = cm.map_variant(ch, 0xFE00u32);
            let _ = cm.map_variant(ch, 0xE0100u32);
        }
        let mut n = 0;
        for (c, gid) in cm.mappings().take(20000) {
            n += 1;
            if n % 997 == 0 {
                g.push(gid.to_u32());
                let _ = c;
            }
        }
        let _ = cm.variant_mappings().take(5000).count();
        g
    }).unwrap_or_default();
    let nglyphs = font.maxp().map(|m| m.num_glyphs() as u32).unwrap_or(0);
    let mut gids: Vec<u32> = vec![0, 1, 2, 3, nglyphs.saturating_sub(1), nglyphs, nglyphs + 1, 0xFFFF, 0x10000, u32::MAX];
    for _ in 0..(if thorough { 10 } else { 4 }) {
        gids.push(rng.below(nglyphs.max(1) as u64) as u32);
    }
    gids.extend(cmap_gids.iter().take(3));
    gids.dedup();
    cx.api("glyph_names", || {
        let gn = font.glyph_names();
        let _ = (gn.source(), gn.num_glyphs());
        for g in &gids {
            let _ = gn.get(skrifa::GlyphId::new(*g)).map(|n| (n.as_str().len(), n.is_synthesized()));
        }
        gn.iter().take(3000).count()
    });
    // coordinate sets: none, wrong length with extremes, right length
    let ext = [F2Dot14::MIN, F2Dot14::MAX, F2Dot14::from_f32(1.0), F2Dot14::from_f32(-1.0), F2Dot14::ZERO, F2Dot14::from_f32(0.5)];
    let mut coord_sets: Vec<Vec<F2Dot14>> = vec![vec![]];
    coord_sets.push((0..axis_count + 1).map(|_| *rng.pick(&ext)).collect());
    coord_sets.push((0..axis_count).map(|_| *rng.pick(&ext)).collect());
    coord_sets.push((0..axis_count.saturating_sub(1).max(1)).map(|_| F2Dot14::MIN).collect());
    coord_sets.push((0..70).map(|_| *rng.pick(&ext)).collect());
    let sizes = [Size::unscaled(), Size::new(0.0), Size::new(1e-9), Size::new(12.0), Size::new(1e9), Size::new(f32::NAN), Size::new(f32::INFINITY), Size::new(f32::NEG_INFINITY), Size::new(-16.0), Size::new(f32::MAX)];
    cx.group("metrics");
    for size in sizes {
        for cs in &coord_sets {
            cx.api("metrics", || {
                let m = font.metrics(size, LocationRef::new(cs));
                (m.units_per_em, m.ascent, m.bounds.map(|b| b.x_min))
            });
            cx.api("glyph_metrics", || {
                let gm = font.glyph_metrics(size, LocationRef::new(cs));
                let mut acc = gm.glyph_count() as f32;
                for g in &gids {
                    let g = skrifa::GlyphId::new(*g);
                    acc += gm.advance_width(g).unwrap_or(0.0) + gm.left_side_bearing(g).unwrap_or(0.0) + gm.bounds(g).map(|b| b.x_max).unwrap_or(0.0);
                }
                acc
            });
        }
    }
    // ---- outlines ----
    cx.group("outline_glyphs");
    let og = match cx.api("outline_glyphs", || {
        let og = font.outline_glyphs();
        let _ = (og.format(), og.prefer_interpreter(), og.require_interpreter());
        og
    }) {
        Some(og) => og,
        None => return,
    };
    // hinting instances: every engine x target x mode, sampled
    let targets = [
        Target::Mono,
        Target::Smooth { mode: SmoothMode::Normal, symmetric_rendering: true, preserve_linear_metrics: false },
        Target::Smooth { mode: SmoothMode::Light, symmetric_rendering: false, preserve_linear_metrics: false },
        Target::Smooth { mode: SmoothMode::Lcd, symmetric_rendering: true, preserve_linear_metrics: true },
        Target::Smooth { mode: SmoothMode::VerticalLcd, symmetric_rendering: false, preserve_linear_metrics: true },
        Target::Smooth { mode: SmoothMode::Lcd, symmetric_rendering: false, preserve_linear_metrics: false },
    ];
    let engines = [Engine::Interpreter, Engine::Auto(None), Engine::AutoFallback];
    let mut instances: Vec<HintingInstance> = vec![];
    cx.group("HintingInstance::new");
    let ninst = if thorough { 10 } else { 5 };
    for i in 0..ninst {
        let engine = engines[i % 3].clone();
        let target = *rng.pick(&targets);
        let size = if i < 3 { Size::new(12.0) } else { *rng.pick(&sizes) };
        let cs = rng.pick(&coord_sets).clone();
        if std::env::var("C02_TRACE").is_ok() {
            wline(&format!("T HintingInstance::new #{} engine#{} target={:?} size={:?} coords={:?}", i, i % 3, target, size, cs));
        }
        if let Some(Ok(mut inst)) = cx.api("HintingInstance::new", || HintingInstance::new(&og, size, LocationRef::new(&cs), HintingOptions { engine, target })) {
            let _ = (inst.is_enabled(), inst.size(), inst.target(), inst.location().coords().len());
            // API history: 0..3 reconfigurations of the same instance (new size / location / target, mostly the
            // same engine) before it is used for drawing
            for _ in 0..rng.below(4) {
                let cs2 = rng.pick(&coord_sets).clone();
                let sz2 = if rng.chance(1, 2) { Size::new(*rng.pick(&[9.0f32, 12.0, 16.0, 33.0])) } else { *rng.pick(&sizes) };
                let tg = *rng.pick(&targets);
                let eng = if rng.chance(2, 3) { engines[i % 3].clone() } else { rng.pick(&engines).clone() };
                cx.api("HintingInstance::reconfigure", || inst.reconfigure(&og, sz2, LocationRef::new(&cs2), HintingOptions { engine: eng, target: tg }).is_ok());
                cx.count("fuzz.reconfigures");
            }
            instances.push(inst);
            cx.count("fuzz.hinting_instances");
        }
    }
    cx.group("draw");
    let ndraw = if thorough { 40 } else { 14 };
    for g in &gids {
        let gid = skrifa::GlyphId::new(*g);
        let glyph = match cx.api("outline_glyphs.get", || og.get(gid)) {
            Some(Some(g)) => g,
            _ => continue,
        };
        cx.api("outline_glyph.info", || (glyph.format(), glyph.glyph_id(), glyph.has_overlaps(), glyph.has_hinting()));
        let req_none = glyph.draw_memory_size(skrifa::outline::Hinting::None);
        let req_emb = glyph.draw_memory_size(skrifa::outline::Hinting::Embedded);
        let mut big = vec![0u8; req_none.max(req_emb).min(1 << 24) + 64];
        for _ in 0..ndraw {
            let hinted = !instances.is_empty() && rng.chance(1, 2);
            let req = if hinted { req_emb } else { req_none }.min(1 << 24);
            let bufsel = rng.below(7);
            let (boff, blen): (usize, Option<usize>) = match bufsel {
                0 => (0, None),
                1 => (1, Some(0)),
                2 => (1, Some(1)),
                3 => (1, Some(req.saturating_sub(1))),
                4 => (0, Some(req)),
                5 => (1, Some(req + 8)),
                _ => (3, Some(rng.below(req as u64 + 1) as usize)),
            };
            let mem: Option<&mut [u8]> = blen.map(|l| &mut big[boff..boff + l]);
            let style = if rng.chance(1, 4) { skrifa::outline::pen::PathStyle::HarfBuzz } else { skrifa::outline::pen::PathStyle::FreeType };
            let trace = std::env::var("C02_TRACE").is_ok();
            if hinted && rng.chance(1, 8) {
                // reconfigure one of the live instances between draws
                let ii = rng.below(instances.len() as u64) as usize;
                let cs2 = rng.pick(&coord_sets).clone();
                let sz2 = Size::new(*rng.pick(&[7.0f32, 12.0, 20.0, 64.0]));
                let tg = *rng.pick(&targets);
                let eng = rng.pick(&engines).clone();
                if trace {
                    wline(&format!("T reconfigure inst#{} size={:?} target={:?}", ii, sz2, tg));
                }
                let inst = &mut instances[ii];
                cx.api("HintingInstance::reconfigure", || inst.reconfigure(&og, sz2, LocationRef::new(&cs2), HintingOptions { engine: eng, target: tg }).is_ok());
                cx.count("fuzz.reconfigures");
            }
            let res = if hinted {
                let ii = rng.below(instances.len() as u64) as usize;
                let inst = &instances[ii];
                let ped = rng.chance(1, 2);
                if trace {
                    wline(&format!("T draw.hinted gid={} inst#{} size={:?} target={:?} coords={} ped={} buf={:?} style={:?}", g, ii, inst.size(), inst.target(), inst.location().coords().len(), ped, blen, style));
                }
                cx.api("draw.hinted", || glyph.draw(DrawSettings::hinted(inst, ped).with_memory(mem).with_path_style(style), &mut NullPen).is_ok())
            } else {
                let size = *rng.pick(&sizes);
                let cs = rng.pick(&coord_sets);
                if trace {
                    wline(&format!("T draw.unhinted gid={} size={:?} coords={:?} buf={:?} style={:?}", g, size, cs, blen, style));
                }
                cx.api("draw.unhinted", || glyph.draw(DrawSettings::unhinted(size, LocationRef::new(cs)).with_memory(mem).with_path_style(style), &mut NullPen).is_ok())
            };
            match res {
                Some(true) => cx.count("fuzz.draw_ok"),
                Some(false) => cx.count("fuzz.draw_err"),
                None => cx.count("fuzz.draw_panic"),
            }
        }
    }
    // ---- color ----
    cx.group("color");
    let cg = font.color_glyphs();
    for g in &gids {
        let gid = skrifa::GlyphId::new(*g);
        for fmt in [None, Some(skrifa::color::ColorGlyphFormat::ColrV0), Some(skrifa::color::ColorGlyphFormat::ColrV1)] {
            let glyph = match cx.api("color_glyphs.get", || match fmt {
                None => cg.get(gid),
                Some(f) => cg.get_with_format(gid, f),
            }) {
                Some(Some(g)) => g,
                _ => continue,
            };
            for cs in coord_sets.iter().take(3) {
                let r = cx.api("color.paint", || glyph.paint(LocationRef::new(cs), &mut NullPainter).is_ok());
                match r {
                    Some(true) => cx.count("fuzz.paint_ok"),
                    Some(false) => cx.count("fuzz.paint_err"),
                    None => {}
                }
                cx.api("color.bounding_box", || glyph.bounding_box(LocationRef::new(cs), *rng.pick(&sizes)).map(|b| b.x_min));
            }
        }
    }
}

// ---- synthetic hostile fonts ----
fn synthetic_fonts() -> Vec<(String, Vec<u8>)> {
    let mut v = vec![];
    // composite fan-out bombs: every glyph i < depth is a composite of `fan` copies of glyph i+1
    for (fan, depth) in [(2usize, 16usize), (2, 33), (4, 33), (8, 12)] {
        let mut g: Vec<GK> = (0..depth).map(|i| GK::Composite(vec![i as u16 + 1; fan])).collect();
        g.push(GK::Simple);
        v.push((format!("synthetic-composite-fan{}-depth{}", fan, depth), glyf_font(&g, &[], &[], &[], 0, 16, 0)));
    }
    // composite cycles (also the target of the recursion-limit mutation)
    for l in [1usize, 2, 7] {
        let g: Vec<GK> = (0..l).map(|i| GK::Composite(vec![((i + 1) % l) as u16])).collect();
        v.push((format!("synthetic-composite-cycle{}", l), glyf_font(&g, &[], &[], &[], 0, 16, 0)));
    }
    // hostile hinting programs with large cvt (budget limit 660k..721k backward jumps)
    let long_body: Vec<AI> = {
        let mut p: Vec<AI> = (0..30000).map(|_| AI::Nop).collect();
        p.push(AI::Jmp { kind: 0, target: 0, cond: 0 });
        p
    };
    v.push(("synthetic-prep-longloop-cvt32767".into(), glyf_font(&[GK::Simple], &[], &[], &assemble(&long_body), 32767, 16, 4)));
    let mut f: Vec<AI> = vec![AI::Fdef(0)];
    f.extend((0..60000).map(|_| AI::Nop));
    f.push(AI::Endf);
    v.push(("synthetic-fpgm-loopcall-long-cvt32767".into(), glyf_font(&[GK::Simple], &[], &assemble(&f), &assemble(&[AI::LoopCall(32767, 0), AI::LoopCall(32767, 0)]), 32767, 16, 4)));
    v.push(("synthetic-prep-tightloop".into(), glyf_font(&[GK::Simple], &[], &[], &[0xB8, 0xFF, 0xFD, 0x1C], 32767, 16, 4)));
    v.push(("synthetic-glyph-tightloop".into(), glyf_font(&[GK::Simple, GK::Composite(vec![0])], &[0xB8, 0xFF, 0xFD, 0x1C], &[], &[0x18], 32767, 16, 4)));
    v.push(("synthetic-fpgm-recursion".into(), glyf_font(&[GK::Simple], &[], &assemble(&[AI::Fdef(0), AI::Call(0), AI::Endf]), &assemble(&[AI::Call(0)]), 0, 16, 4)));
    // huge counts left on a nearly empty stack for every count-consuming instruction, in prep (always
    // non-pedantic) and in a glyph program (drawn pedantic and non-pedantic)
    for (name, op) in COUNT_OPS {
        let prog = huge_count_program(op, 8);
        let fdef = assemble(&[AI::Fdef(0), AI::Endf]);
        v.push((format!("synthetic-hugecount-{}-prep", name), glyf_font(&[GK::Simple], &[], &fdef, &prog, 4, 64, 4)));
        v.push((format!("synthetic-hugecount-{}-glyph", name), glyf_font(&[GK::Simple, GK::Composite(vec![0])], &prog, &fdef, &[0x18], 4, 64, 4)));
    }
    // small fonts for the exhaustive scratch-memory sweep
    v.push(("synthetic-mem-plain".into(), glyf_font(&[GK::Simple, GK::Composite(vec![0, 0]), GK::Composite(vec![1, 0])], &[], &[], &[], 0, 4, 0)));
    v.push(("synthetic-mem-hinted".into(), glyf_font(&[GK::Simple, GK::Composite(vec![0, 0])], &[0x18, 0xB0, 1, 0x21], &assemble(&[AI::Fdef(0), AI::Endf]), &[0x18], 3, 5, 2)));
    v.push(("synthetic-maxstack-ffff".into(), glyf_font(&[GK::Simple], &[0x20, 0x20], &[], &[0xB0, 1, 0x20, 0x20], 0, 0xFFFF, 0xFFFF)));
    v
}

fn corpus_fonts() -> Vec<(String, Vec<u8>)> {
    let mut v = vec![];
    for dir in ["/repo/font-test-data/test_data/ttf", "/repo/font-test-data/test_data/ttc"] {
        let mut names: Vec<_> = std::fs::read_dir(dir).map(|rd| rd.flatten().map(|e| e.path()).collect()).unwrap_or_default();
        names.sort();
        for p in names {
            if let Ok(b) = std::fs::read(&p) {
                v.push((p.file_name().unwrap().to_string_lossy().to_string(), b));
            }
        }
    }
    v.push(("cff2-example".into(), font_test_data::cff2::EXAMPLE.to_vec()));
    v
}

// ---- IFT client ----
use incremental_font_transfer::patch_group::{PatchGroup, UriStatus};
use incremental_font_transfer::patchmap::{DesignSpace, FeatureSet, SubsetDefinition};
use shared_brotli_patch_decoder::{decode_error::DecodeError, BuiltInBrotliDecoder, SharedBrotliDecoder};

struct HostileDecoder {
    mode: u8,
    seed: u64,
}
impl SharedBrotliDecoder for HostileDecoder {
    fn decode(&self, encoded: &[u8], _dict: Option<&[u8]>, max: usize) -> Result<Vec<u8>, DecodeError> {
        let mut r = Rng::new(self.seed ^ encoded.len() as u64);
        match self.mode {
            0 => Ok(encoded.to_vec()), // pass-through, ignoring max
            1 => Ok(encoded[..encoded.len().min(max)].to_vec()),
            2 => Err(DecodeError::InvalidStream),
            3 => Err(DecodeError::MaxSizeExceeded),
            4 => Ok(vec![]),
            5 => {
                let n = r.below(600) as usize;
                Ok(r.bytes(n))
            }
            6 => Ok(r.bytes(max.min(1 << 16))),
            _ => Ok(vec![0xFF; (max.min(1 << 16)) + 1]),
        }
    }
}

fn ift_fixtures() -> Vec<(&'static str, Vec<u8>)> {
    use font_test_data::ift as t;
    vec![
        ("simple_format1", t::simple_format1().to_vec()),
        ("u16_entries_format1", t::u16_entries_format1().to_vec()),
        ("feature_map_format1", t::feature_map_format1().to_vec()),
        ("codepoints_only_format2", t::codepoints_only_format2().to_vec()),
        ("features_and_design_space_format2", t::features_and_design_space_format2().to_vec()),
        ("child_indices_format2", t::child_indices_format2().to_vec()),
        ("custom_ids_format2", t::custom_ids_format2().to_vec()),
        ("string_ids_format2", t::string_ids_format2().to_vec()),
        ("table_keyed_format2", t::table_keyed_format2().to_vec()),
        ("format1_one_charstrings", t::simple_format1_with_one_charstrings_offset().to_vec()),
        ("format2_two_charstrings", t::format2_with_two_charstrings_offset().to_vec()),
    ]
}
fn ift_patches() -> Vec<Vec<u8>> {
    use font_test_data::ift as t;
    let gk = |payload: Vec<u8>| {
        // glyph keyed patch with an uncompressed payload (for the pass-through decoder)
        let mut h = t::glyph_keyed_patch_header();
        h.write_at("max_uncompressed_length", payload.len() as u32);
        let mut v = h.to_vec();
        v.extend_from_slice(&payload);
        v
    };
    vec![
        t::table_keyed_patch().to_vec(),
        t::noop_table_keyed_patch().to_vec(),
        gk(t::glyf_u16_glyph_patches().to_vec()),
        gk(t::glyf_u16_glyph_patches_2().to_vec()),
        gk(t::glyf_u24_glyph_patches().to_vec()),
        gk(t::glyf_and_gvar_u16_glyph_patches().to_vec()),
        gk(t::cff_u16_glyph_patches().to_vec()),
        gk(t::noop_glyf_glyph_patches().to_vec()),
        vec![],
        vec![b'i', b'f', b'g', b'k'],
    ]
}
fn ift_base_font(ift: &[u8], iftx: Option<&[u8]>, with_gvar: u64) -> Vec<u8> {
    use font_test_data::ift as t;
    // glyf/loca base as in incremental-font-transfer's own tests (15 glyphs, short loca)
    let glyf: Vec<u8> = vec![1, 2, 3, 4, 5, 0, 6, 7, 8, 0, 9, 10, 11, 12];
    let offs: [u16; 16] = [0, 3, 5, 5, 5, 5, 5, 5, 5, 7, 7, 7, 7, 7, 7, 7];
    let loca: Vec<u8> = offs.iter().flat_map(|o| o.to_be_bytes()).collect();
    let mut head = head_table();
    head[50..52].copy_from_slice(&be16(0));
    let mut tabs: Vec<(&[u8; 4], Vec<u8>)> = vec![
        (b"head", head),
        (b"maxp", maxp_table(15, 16, 0)),
        (b"loca", loca),
        (b"glyf", glyf),
        (b"IFT ", ift.to_vec()),
        (b"tab1", b"abcdef\n".to_vec()),
        (b"tab2", b"foobar\n".to_vec()),
    ];
    if let Some(x) = iftx {
        tabs.push((b"IFTX", x.to_vec()));
    }
    match with_gvar {
        1 => tabs.push((b"gvar", t::short_gvar_with_shared_tuples().to_vec())),
        2 => tabs.push((b"gvar", t::long_gvar_with_shared_tuples().to_vec())),
        3 => tabs.push((b"gvar", t::out_of_order_gvar_with_shared_tuples().to_vec())),
        _ => {}
    }
    build_sfnt(&tabs)
}

fn mutate_bytes(b: &[u8], k: usize, rng: &mut Rng) -> (String, Vec<u8>) {
    let mut d = b.to_vec();
    if k == 0 || d.is_empty() {
        return ("id".into(), d);
    }
    let kind = rng.below(10);
    if kind < 2 {
        let l = rng.below(d.len() as u64) as usize;
        d.truncate(l);
        return (format!("trunc@{}", l), d);
    }
    let n = 1 + rng.below(4) as usize;
    let mut desc = String::from("b");
    for _ in 0..n {
        let o = if rng.chance(1, 2) { rng.below(d.len().min(48) as u64) as usize } else { rng.below(d.len() as u64) as usize };
        let w = rng.below(3);
        if w == 0 || o + 4 > d.len() {
            let v = if rng.chance(1, 2) { *rng.pick(&[0u8, 1, 0x7F, 0x80, 0xFF]) } else { rng.next_u32() as u8 };
            d[o] = v;
            desc.push_str(&format!("+{}={:x}", o, v));
        } else if w == 1 {
            let v = *rng.pick(&[0u16, 1, 0x7FFF, 0x8000, 0xFFFF]);
            d[o..o + 2].copy_from_slice(&v.to_be_bytes());
            desc.push_str(&format!("+{}=w{:x}", o, v));
        } else {
            let v = *rng.pick(&[0u32, 1, 0x7FFFFFFF, 0x80000000, 0xFFFFFFFF, 0x00FFFFFF]);
            d[o..o + 4].copy_from_slice(&v.to_be_bytes());
            desc.push_str(&format!("+{}=l{:x}", o, v));
        }
    }
    (desc, d)
}

fn exercise_ift(cx: &mut Ctx, font: &[u8], rng: &mut Rng, thorough: bool) {
    cx.group("ift");
    let fr = match skrifa::FontRef::new(font) {
        Ok(f) => f,
        Err(_) => {
            cx.count("ift.font_rejected");
            return;
        }
    };
    let patches = ift_patches();
    let mut subsets = vec![
        SubsetDefinition::all(),
        SubsetDefinition::codepoints([5u32].into_iter().collect()),
        SubsetDefinition::codepoints([0u32, 2, 5, 6, 7, 55, 0x10FFFF, u32::MAX].into_iter().collect()),
        SubsetDefinition::codepoints(Default::default()),
        SubsetDefinition::new([7u32].into_iter().collect(), FeatureSet::All, DesignSpace::All),
        SubsetDefinition::new(
            [5u32, 15].into_iter().collect(),
            FeatureSet::Set([skrifa::Tag::new(b"liga"), skrifa::Tag::new(b"smcp"), skrifa::Tag::new(b"dlig")].into_iter().collect()),
            DesignSpace::Ranges(
                [
                    (skrifa::Tag::new(b"wght"), [read_fonts::types::Fixed::from_f64(100.0)..=read_fonts::types::Fixed::from_f64(900.0)].into_iter().collect()),
                    (skrifa::Tag::new(b"wdth"), [read_fonts::types::Fixed::MIN..=read_fonts::types::Fixed::MAX].into_iter().collect()),
                ]
                .into_iter()
                .collect(),
            ),
        ),
    ];
    if !thorough {
        subsets.truncate(4);
        subsets.swap(3, 0);
    }
    for (si, s) in subsets.iter().enumerate() {
        let g = match cx.api("PatchGroup::select_next_patches", || PatchGroup::select_next_patches(fr.clone(), s)) {
            Some(Ok(g)) => g,
            Some(Err(_)) => {
                cx.count("ift.select_err");
                continue;
            }
            None => continue,
        };
        cx.count("ift.select_ok");
        let uris: Vec<String> = cx.api("PatchGroup::uris", || (g.has_uris(), g.uris().map(|u| u.to_string()).collect::<Vec<_>>())).map(|x| x.1).unwrap_or_default();
        // patch data: fixture patches (mutated) per uri; sometimes missing / already applied
        let mut data: HashMap<String, UriStatus> = HashMap::new();
        for u in &uris {
            let k = rng.below(12);
            if k == 0 {
                continue;
            }
            if k == 1 {
                data.insert(u.clone(), UriStatus::Applied);
                continue;
            }
            let (_, p) = mutate_bytes(&patches[rng.below(patches.len() as u64) as usize], rng.below(3) as usize, rng);
            data.insert(u.clone(), UriStatus::Pending(p));
        }
        let mode = rng.below(9) as u8;
        let r = if mode == 8 {
            cx.api("PatchGroup::apply_next_patches", || g.apply_next_patches_with_decoder(&mut data, &BuiltInBrotliDecoder).map(|v| v.len()))
        } else {
            let dec = HostileDecoder { mode, seed: rng.next_u64() };
            cx.api("PatchGroup::apply_next_patches", || g.apply_next_patches_with_decoder(&mut data, &dec).map(|v| v.len()))
        };
        match r {
            Some(Ok(_)) => cx.count("ift.apply_ok"),
            Some(Err(_)) => cx.count("ift.apply_err"),
            None => {}
        }
        let _ = si;
    }
}

// ---- exhaustive scratch-memory sweep: every buffer length 0..=required+8 at every misalignment 0..7 ----
fn exercise_mem(cx: &mut Ctx, data: &[u8], gid: u32, thorough: bool) {
    use skrifa::instance::{LocationRef, Size};
    use skrifa::outline::{DrawSettings, Engine, HintingInstance, HintingOptions};
    use skrifa::raw::types::F2Dot14;
    use skrifa::MetadataProvider;
    let Ok(font) = skrifa::FontRef::new(data) else { return };
    let og = font.outline_glyphs();
    let Some(glyph) = og.get(skrifa::GlyphId::new(gid)) else {
        cx.count("mem.no_glyph");
        return;
    };
    let naxes = font.axes().len();
    let coords: Vec<F2Dot14> = (0..naxes).map(|_| F2Dot14::from_f32(0.5)).collect();
    let cap = if thorough { 12000 } else { 2600 };
    // an instance with history: created at one size, reconfigured twice (size, then size + location)
    let inst = cx
        .api("HintingInstance::new", || {
            let mut inst = HintingInstance::new(&og, Size::new(11.0), LocationRef::default(), HintingOptions { engine: Engine::Interpreter, target: Default::default() }).ok()?;
            inst.reconfigure(&og, Size::new(13.0), LocationRef::default(), HintingOptions { engine: Engine::Interpreter, target: Default::default() }).ok()?;
            inst.reconfigure(&og, Size::new(16.0), LocationRef::new(&coords), HintingOptions { engine: Engine::Interpreter, target: Default::default() }).ok()?;
            Some(inst)
        })
        .flatten();
    for mode in 0..4u8 {
        // 0 unhinted FreeType style, 1 unhinted HarfBuzz style, 2 hinted non-pedantic, 3 hinted pedantic
        let hinting = if mode >= 2 { skrifa::outline::Hinting::Embedded } else { skrifa::outline::Hinting::None };
        if mode >= 2 && inst.is_none() {
            continue;
        }
        let req = glyph.draw_memory_size(hinting);
        if req > cap {
            cx.count("mem.skipped_large");
            continue;
        }
        cx.group(&format!("draw.mem.mode{}", mode));
        let mut big = vec![0u8; req + 8 + 16];
        let base = big.as_ptr() as usize;
        let (mut ok, mut err) = (0u64, 0u64);
        for mis in 0..8usize {
            let off = (8 - base % 8) % 8 + mis; // (base + off) % 8 == mis
            for len in 0..=req + 8 {
                let mem = Some(&mut big[off..off + len]);
                let r = cx.api("draw.with_memory", || match mode {
                    0 => glyph.draw(DrawSettings::unhinted(Size::new(16.0), LocationRef::new(&coords)).with_memory(mem), &mut NullPen).is_ok(),
                    1 => glyph
                        .draw(DrawSettings::unhinted(Size::new(16.0), LocationRef::new(&coords)).with_memory(mem).with_path_style(skrifa::outline::pen::PathStyle::HarfBuzz), &mut NullPen)
                        .is_ok(),
                    2 => glyph.draw(DrawSettings::hinted(inst.as_ref().unwrap(), false).with_memory(mem), &mut NullPen).is_ok(),
                    _ => glyph.draw(DrawSettings::hinted(inst.as_ref().unwrap(), true).with_memory(mem), &mut NullPen).is_ok(),
                });
                match r {
                    Some(true) => ok += 1,
                    Some(false) => err += 1,
                    None => {}
                }
                // documented contract: a buffer of the required size (any alignment slack included) suffices
                if len >= req + 8 && r == Some(false) && mode < 2 {
                    cx.count("mem.large_buffer_refused");
                }
            }
        }
        *cx.counters.entry("mem.draw_ok".into()).or_insert(0) += ok;
        *cx.counters.entry("mem.draw_err".into()).or_insert(0) += err;
        cx.count(&format!("mem.sweeps.mode{}", mode));
    }
}

// ---- IFT format 1 maps built field by field (glyph map + feature map), boundary-rich ----
#[derive(Clone, Debug)]
struct F1 {
    maxe: u16,
    maxg: u16,
    first: u16,
    gentries: Vec<u16>,
    bitmap: Vec<u8>,
    pf: u8,
    recs: Option<Vec<(u32, u16, u16)>>, // (tag, first_new_entry_index, entry_map_count)
    data: Vec<u8>,                       // entry_map_data
    feats: Option<Vec<u32>>,             // None = FeatureSet::All
    cps: Vec<u32>,
    what: String,
}
const F1_GLYPHS: u32 = 15;
fn f1_width(maxe: u16) -> usize {
    if maxe < 256 {
        1
    } else {
        2
    }
}
fn put_w(v: &mut Vec<u8>, w: usize, x: u16) {
    if w == 1 {
        v.push(x as u8)
    } else {
        v.extend_from_slice(&x.to_be_bytes())
    }
}
fn build_f1(c: &F1) -> Vec<u8> {
    let w = f1_width(c.maxe);
    let mut t = vec![1u8, 0, 0, 0, 0];
    t.extend_from_slice(&[0, 0, 0, 1, 0, 0, 0, 2, 0, 0, 0, 3, 0, 0, 0, 4]);
    t.extend_from_slice(&c.maxe.to_be_bytes());
    t.extend_from_slice(&c.maxg.to_be_bytes());
    t.extend_from_slice(&F1_GLYPHS.to_be_bytes()[1..]);
    let gm_off_pos = t.len();
    t.extend_from_slice(&[0; 4]);
    let fm_off_pos = t.len();
    t.extend_from_slice(&[0; 4]);
    t.extend_from_slice(&c.bitmap);
    t.extend_from_slice(&4u16.to_be_bytes());
    t.extend_from_slice(b"{id}");
    t.push(c.pf);
    let gm = t.len() as u32;
    t[gm_off_pos..gm_off_pos + 4].copy_from_slice(&gm.to_be_bytes());
    t.extend_from_slice(&c.first.to_be_bytes());
    for e in &c.gentries {
        put_w(&mut t, w, *e);
    }
    if let Some(recs) = &c.recs {
        let fm = t.len() as u32;
        t[fm_off_pos..fm_off_pos + 4].copy_from_slice(&fm.to_be_bytes());
        t.extend_from_slice(&(recs.len() as u16).to_be_bytes());
        for (tag, first_new, count) in recs {
            t.extend_from_slice(&tag.to_be_bytes());
            put_w(&mut t, w, *first_new);
            put_w(&mut t, w, *count);
        }
        t.extend_from_slice(&c.data);
    }
    t
}
fn cmap12_identity() -> Vec<u8> {
    // cp 0x41 + i -> gid i for i in 0..20 (gids 15..19 are beyond maxp.numGlyphs on purpose)
    let mut t = vec![0u8, 0, 0, 1, 0, 3, 0, 10, 0, 0, 0, 12];
    t.extend_from_slice(&12u16.to_be_bytes());
    t.extend_from_slice(&0u16.to_be_bytes());
    t.extend_from_slice(&28u32.to_be_bytes());
    t.extend_from_slice(&0u32.to_be_bytes());
    t.extend_from_slice(&1u32.to_be_bytes());
    t.extend_from_slice(&0x41u32.to_be_bytes());
    t.extend_from_slice(&(0x41u32 + 19).to_be_bytes());
    t.extend_from_slice(&0u32.to_be_bytes());
    t
}
fn f1_font(table: &[u8]) -> Vec<u8> {
    let glyf: Vec<u8> = vec![1, 2, 3, 4, 5, 0, 6, 7, 8, 0, 9, 10, 11, 12];
    let offs: [u16; 16] = [0, 3, 5, 5, 5, 5, 5, 5, 5, 7, 7, 7, 7, 7, 7, 7];
    let loca: Vec<u8> = offs.iter().flat_map(|o| o.to_be_bytes()).collect();
    let mut head = head_table();
    head[50..52].copy_from_slice(&be16(0));
    build_sfnt(&[
        (b"head", head),
        (b"maxp", maxp_table(F1_GLYPHS as u16, 16, 0)),
        (b"loca", loca),
        (b"glyf", glyf),
        (b"cmap", cmap12_identity()),
        (b"IFT ", table.to_vec()),
    ])
}
fn tag4(s: &[u8; 4]) -> u32 {
    u32::from_be_bytes(*s)
}
fn f1_cases(seed: u64, thorough: bool) -> Vec<F1> {
    let mut rng = Rng::new(seed ^ 0x4946_5431);
    let mut v: Vec<F1> = vec![];
    let tags = [tag4(b"aalt"), tag4(b"dlig"), tag4(b"liga"), tag4(b"null"), tag4(b"smcp"), tag4(b"zero")];
    let n = if thorough { 2500 } else { 520 };
    for i in 0..n {
        let maxe: u16 = *rng.pick(&[0u16, 1, 3, 20, 254, 255, 256, 257, 400, 65534, 65535]);
        let w = f1_width(maxe);
        let maxg: u16 = match rng.below(6) {
            0 => 0,
            1 => maxe,
            2 => maxe.saturating_sub(1),
            3 if maxe < 65535 && i % 7 == 0 => maxe + 1, // invalid: maxg > maxe
            _ => rng.below(maxe as u64 + 1) as u16,
        };
        let first = *rng.pick(&[0u16, 0, 1, 2, 14, 15]);
        let wmax: u64 = if w == 1 { 255 } else { 65535 };
        let gentries: Vec<u16> = (0..(F1_GLYPHS as u16 - first))
            .map(|_| match rng.below(6) {
                0 => 0,
                1 => maxg,
                2 => (maxg as u64 + 1).min(wmax) as u16,
                3 => maxe.min(wmax as u16),
                _ => rng.below(maxg.min(8) as u64 + 1) as u16,
            })
            .collect();
        let blen = (maxe as usize + 1).div_ceil(8);
        let mut bitmap = vec![0u8; blen];
        for _ in 0..rng.below(3) {
            let e = rng.below(maxe.min(12) as u64 + 1) as usize;
            bitmap[e / 8] |= 1 << (e % 8);
        }
        let pf = if i % 11 == 0 { *rng.pick(&[0u8, 4, 255]) } else { *rng.pick(&[1u8, 2, 3, 3]) };
        // feature records
        let recs_and_data = if rng.chance(1, 8) {
            None
        } else {
            let nrec = rng.below(4) as usize;
            let mut recs = vec![];
            let mut used: Vec<u32> = vec![];
            for _ in 0..nrec {
                let tag = if rng.chance(1, 6) && !used.is_empty() { *rng.pick(&used) } else { *rng.pick(&tags) };
                used.push(tag);
                let first_new = match rng.below(7) {
                    0 => (maxg as u64 + 1).min(wmax) as u16,
                    1 => maxe.min(wmax as u16),
                    2 => wmax as u16,
                    3 => (wmax - 1) as u16,
                    4 => maxg,
                    _ => rng.below(maxe as u64 + 2).min(wmax) as u16,
                };
                let count = *rng.pick(&[0u16, 1, 1, 2, 2, 3, 5]);
                recs.push((tag, first_new, count));
            }
            if rng.chance(2, 3) {
                recs.sort_by_key(|r| r.0);
            }
            let total: usize = recs.iter().map(|r| r.2 as usize).sum();
            let mut data = vec![];
            for _ in 0..total {
                let a = match rng.below(5) {
                    0 => 0,
                    1 => maxg.min(wmax as u16),
                    2 => (maxg as u64 + 1).min(wmax) as u16,
                    _ => rng.below(maxg.min(8) as u64 + 1) as u16,
                };
                let b = match rng.below(5) {
                    0 => a,
                    1 => maxg.min(wmax as u16),
                    2 => a.saturating_sub(1),
                    _ => (a as u64 + rng.below(3)).min(wmax) as u16,
                };
                put_w(&mut data, w, a);
                put_w(&mut data, w, b);
            }
            // the records end exactly at the table end, or one byte short, or have a tail
            match rng.below(8) {
                0 if !data.is_empty() => {
                    data.pop();
                }
                1 => {
                    let k = 1 + rng.below(4) as usize;
                    data.extend(rng.bytes(k));
                }
                _ => {}
            }
            Some((recs, data))
        };
        let feats = match rng.below(5) {
            0 | 1 => None,
            2 => Some(vec![]),
            _ => {
                let mut f: Vec<u32> = (0..1 + rng.below(4)).map(|_| if rng.chance(1, 5) { tag4(b"kern") } else { *rng.pick(&tags) }).collect();
                f.sort();
                f.dedup();
                Some(f)
            }
        };
        let cps: Vec<u32> = match rng.below(4) {
            0 => vec![],
            1 => (0x41..0x41 + 15).collect(),
            2 => (0x41..0x41 + 20).collect(),
            _ => (0..1 + rng.below(5)).map(|_| 0x41 + rng.below(16) as u32).collect(),
        };
        let (recs, data) = match recs_and_data {
            Some((r, d)) => (Some(r), d),
            None => (None, vec![]),
        };
        v.push(F1 { maxe, maxg, first, gentries, bitmap, pf, recs, data, feats, cps, what: "random".into() });
    }
    // directed: the field-width boundary with records that end at the table end
    for maxe in [254u16, 255, 256] {
        for nrec in [1usize, 2, 3] {
            for feats in [None, Some(vec![tag4(b"dlig"), tag4(b"liga"), tag4(b"smcp")])] {
                let w = f1_width(maxe);
                let recs: Vec<(u32, u16, u16)> = (0..nrec).map(|k| ([tag4(b"dlig"), tag4(b"liga"), tag4(b"smcp")][k], maxe - k as u16 * 3, 3)).collect();
                let mut data = vec![];
                for _ in 0..nrec * 3 {
                    put_w(&mut data, w, 1);
                    put_w(&mut data, w, 2);
                }
                v.push(F1 { maxe, maxg: 10, first: 0, gentries: (0..15).map(|g| g % 4).collect(), bitmap: vec![0; (maxe as usize + 1).div_ceil(8)], pf: 3,
                    recs: Some(recs), data, feats, cps: (0x41..0x41 + 15).collect(), what: format!("width-boundary-{}", maxe) });
            }
        }
    }
    // directed: first_new_entry_index + i beyond u16
    for feats in [None, Some(vec![tag4(b"liga")])] {
        v.push(F1 { maxe: 65535, maxg: 10, first: 0, gentries: (0..15).map(|g| g % 4).collect(), bitmap: vec![0; 8192], pf: 3,
            recs: Some(vec![(tag4(b"liga"), 65535, 2)]), data: vec![0, 1, 0, 2, 0, 1, 0, 2], feats, cps: (0x41..0x41 + 15).collect(), what: "first-new-add-overflow".into() });
    }
    // directed: u16 arithmetic on hostile counts (large tables: implementation-only, not sent to Coq)
    for (maxe, count, what) in [(65535u16, 16385u16, "index-mul-overflow"), (65535, 40000, "cumulative-overflow"), (300, 20000, "index-mul-overflow-300")] {
        let mut data = vec![];
        for _ in 0..count as usize * 2 {
            data.extend_from_slice(&[0, 1, 0, 2]);
        }
        v.push(F1 { maxe, maxg: 10, first: 0, gentries: (0..15).map(|g| g % 4).collect(), bitmap: vec![0; (maxe as usize + 1).div_ceil(8)], pf: 3,
            recs: Some(vec![(tag4(b"dlig"), 100, count), (tag4(b"liga"), 200, count)]), data, feats: None, cps: (0x41..0x41 + 15).collect(), what: what.into() });
    }
    v
}
fn exec_f1(cx: &mut Ctx, c: &F1) -> (i64, Vec<i64>) {
    let table = build_f1(c);
    let font = f1_font(&table);
    let Ok(fr) = skrifa::FontRef::new(&font) else { return (7, vec![]) };
    let feats = match &c.feats {
        None => FeatureSet::All,
        Some(f) => FeatureSet::Set(f.iter().map(|t| skrifa::Tag::from_be_bytes(t.to_be_bytes())).collect()),
    };
    let subset = SubsetDefinition::new(c.cps.iter().copied().collect(), feats, Default::default());
    match cx.api("patchmap::intersecting_patches", || incremental_font_transfer::patchmap::intersecting_patches(&fr, &subset)) {
        None => (2, vec![]),
        Some(Err(_)) => (1, vec![]),
        Some(Ok(uris)) => {
            let ids = uris
                .iter()
                .map(|u| {
                    let d = format!("{:?}", u);
                    d.split("Numeric(").nth(1).and_then(|r| r.split(')').next()).and_then(|n| n.parse::<i64>().ok()).unwrap_or(-1)
                })
                .collect();
            (0, ids)
        }
    }
}

// ---- IFT format 2 maps: hostile entry streams ----
struct F2 {
    default_fmt: u8,
    entry_count: u32,
    data: Vec<u8>,
    what: String,
}
fn build_f2(c: &F2) -> (Vec<u8>, usize) {
    let mut t = vec![2u8, 0, 0, 0, 0];
    t.extend_from_slice(&[0, 0, 0, 1, 0, 0, 0, 2, 0, 0, 0, 3, 0, 0, 0, 4]);
    t.push(c.default_fmt);
    t.extend_from_slice(&c.entry_count.to_be_bytes()[1..]);
    let off_pos = t.len();
    t.extend_from_slice(&[0; 4]);
    t.extend_from_slice(&[0; 4]); // no id string data
    t.extend_from_slice(&4u16.to_be_bytes());
    t.extend_from_slice(b"{id}");
    let off = t.len();
    t[off_pos..off_pos + 4].copy_from_slice(&(off as u32).to_be_bytes());
    t.extend_from_slice(&c.data);
    (t, off)
}
fn f2_random_entry(rng: &mut Rng, nprior: usize) -> Vec<u8> {
    use read_fonts::collections::IntSet;
    let mut flags: u8 = 0;
    for bit in [1u8, 2, 4, 8, 16, 32, 64] {
        if rng.chance(1, 3) {
            flags |= bit;
        }
    }
    if rng.chance(1, 40) {
        flags |= 128;
    }
    let mut e = vec![flags];
    if flags & 1 != 0 {
        let fc = rng.below(3) as u8;
        e.push(fc);
        for _ in 0..fc {
            let tg: [u8; 4] = *rng.pick(&[*b"liga", *b"smcp", *b"dlig"]);
            e.extend_from_slice(&tg);
        }
        let dc = rng.below(3) as u16;
        e.extend_from_slice(&dc.to_be_bytes());
        for _ in 0..dc {
            let tg: [u8; 4] = *rng.pick(&[*b"wght", *b"wdth"]);
            e.extend_from_slice(&tg);
            let a = *rng.pick(&[0i32, 100 << 16, -(5 << 16), i32::MIN, i32::MAX]);
            let b = if rng.chance(1, 8) { a.wrapping_sub(1) } else { *rng.pick(&[a, a.saturating_add(1 << 16), i32::MAX]) };
            e.extend_from_slice(&a.to_be_bytes());
            e.extend_from_slice(&b.max(if rng.chance(1, 10) { i32::MIN } else { a }).to_be_bytes());
        }
    }
    if flags & 2 != 0 {
        let cnt = rng.below(4) as u8;
        e.push(cnt | if rng.chance(1, 2) { 0x80 } else { 0 });
        for _ in 0..cnt {
            let idx: u32 = if nprior > 0 && rng.chance(7, 8) { rng.below(nprior as u64) as u32 } else { *rng.pick(&[nprior as u32, nprior as u32 + 1, 0xFFFFFF]) };
            e.extend_from_slice(&idx.to_be_bytes()[1..]);
        }
    }
    if flags & 4 != 0 {
        let d: i32 = *rng.pick(&[0i32, 1, 2, -1, -2, -3, 5, 100, 8388607, -8388608, -100]);
        e.extend_from_slice(&d.to_be_bytes()[1..]);
    }
    if flags & 8 != 0 {
        e.push(*rng.pick(&[1u8, 2, 3, 3, 3, 0, 4, 255]));
    }
    let fmt = flags & 0x30;
    if fmt != 0 {
        let bias: u32 = if fmt == 0x20 { *rng.pick(&[0u32, 5, 65535]) } else if fmt == 0x30 { *rng.pick(&[0u32, 70000, 0x10FFFF, 0xFFFFFF]) } else { 0 };
        if fmt == 0x20 {
            e.extend_from_slice(&(bias as u16).to_be_bytes());
        } else if fmt == 0x30 {
            e.extend_from_slice(&bias.to_be_bytes()[1..]);
        }
        let mut set = IntSet::<u32>::empty();
        for _ in 0..rng.below(5) {
            set.insert(*rng.pick(&[0u32, 1, 7, 8, 63, 64, 300, 5000]) + rng.below(3) as u32);
        }
        let mut sbs = set.to_sparse_bit_set();
        if rng.chance(1, 12) && !sbs.is_empty() {
            let k = rng.below(sbs.len() as u64) as usize;
            sbs[k] = rng.next_u32() as u8;
        }
        e.extend_from_slice(&sbs);
    }
    e
}
fn f2_cases(seed: u64, thorough: bool) -> Vec<F2> {
    let mut rng = Rng::new(seed ^ 0x4946_5432);
    let mut v = vec![];
    let n = if thorough { 3000 } else { 600 };
    for i in 0..n {
        let ne = rng.below(6) as usize;
        let mut data = vec![];
        for k in 0..ne {
            data.extend(f2_random_entry(&mut rng, k));
        }
        let mut count = ne as u32;
        match rng.below(10) {
            0 => count += 1 + rng.below(3) as u32,         // more entries announced than present
            1 => count = count.saturating_sub(1),          // trailing data ignored
            2 => count = *rng.pick(&[0xFFFFFFu32, 0x800000, 1000]),
            3 if !data.is_empty() => {
                let l = rng.below(data.len() as u64) as usize;
                data.truncate(l);
            }
            4 => data.extend(rng.bytes(3)),
            _ => {}
        }
        let default_fmt = if i % 13 == 0 { *rng.pick(&[0u8, 4, 200]) } else { *rng.pick(&[1u8, 2, 3]) };
        v.push(F2 { default_fmt, entry_count: count, data, what: "random".into() });
    }
    // directed: entry_count far beyond the data; every entry a bare flags byte
    v.push(F2 { default_fmt: 3, entry_count: 0xFFFFFF, data: vec![0; 40], what: "count-beyond-data".into() });
    v.push(F2 { default_fmt: 3, entry_count: 40, data: vec![0; 40], what: "bare-flags".into() });
    v.push(F2 { default_fmt: 3, entry_count: 41, data: vec![0; 40], what: "bare-flags-plus-one".into() });
    // id arithmetic: deltas that drive the id below zero / above u32::MAX
    let mut d = vec![];
    for _ in 0..3 {
        d.extend_from_slice(&[4u8, 0x80, 0x00, 0x00]); // delta -8388608
    }
    v.push(F2 { default_fmt: 3, entry_count: 3, data: d, what: "id-negative".into() });
    let mut d = vec![];
    for _ in 0..520 {
        d.extend_from_slice(&[4u8, 0x7F, 0xFF, 0xFF]); // 520 * 8388608 > u32::MAX
    }
    v.push(F2 { default_fmt: 3, entry_count: 520, data: d.clone(), what: "id-above-u32".into() });
    v.push(F2 { default_fmt: 3, entry_count: 511, data: d, what: "id-near-u32-max".into() });
    // implementation-only: a long chain of ignored entries, each the child of its predecessor, then one
    // live entry (recursion depth of EntryIntersectionCache::intersects)
    for nchain in [20_000u32, 400_000] {
        let mut d = vec![0u8]; // entry 0: bare
        for k in 1..nchain {
            d.push(0x42); // CHILD_INDICES | IGNORED
            d.push(1);
            d.extend_from_slice(&(k - 1).to_be_bytes()[1..]);
        }
        d.push(0x02);
        d.push(1);
        d.extend_from_slice(&(nchain - 1).to_be_bytes()[1..]);
        v.push(F2 { default_fmt: 3, entry_count: nchain + 1, data: d, what: format!("ignored-child-chain-{}", nchain) });
    }
    v
}
fn exec_f2(cx: &mut Ctx, c: &F2) -> (i64, Vec<(i64, i64, i64)>, usize) {
    use incremental_font_transfer::patchmap::PatchFormat;
    let (table, off) = build_f2(c);
    let font = f1_font(&table);
    let Ok(fr) = skrifa::FontRef::new(&font) else { return (7, vec![], off) };
    let subset = SubsetDefinition::all();
    match cx.api("patchmap::intersecting_patches", || incremental_font_transfer::patchmap::intersecting_patches(&fr, &subset)) {
        None => (2, vec![], off),
        Some(Err(_)) => (1, vec![], off),
        Some(Ok(uris)) => {
            let es = uris
                .iter()
                .map(|u| {
                    let d = format!("{:?}", u);
                    let num = |key: &str, close: char| d.split(key).nth(1).and_then(|r| r.split(close).next()).and_then(|n| n.trim().parse::<i64>().ok()).unwrap_or(-1);
                    let pf = match u.encoding() {
                        PatchFormat::TableKeyed { fully_invalidating: true } => 1,
                        PatchFormat::TableKeyed { fully_invalidating: false } => 2,
                        PatchFormat::GlyphKeyed => 3,
                    };
                    (num("Numeric(", ')'), num("application_flag_bit_index: ", ','), pf)
                })
                .collect();
            (0, es, off)
        }
    }
}

// ---- hand-assembled CFF fonts: hint map capacity sweep ----
fn cs_num(out: &mut Vec<u8>, v: i32) {
    match v {
        -107..=107 => out.push((v + 139) as u8),
        108..=1131 => {
            let v = v - 108;
            out.push((v >> 8) as u8 + 247);
            out.push((v & 0xFF) as u8);
        }
        -1131..=-108 => {
            let v = -v - 108;
            out.push((v >> 8) as u8 + 251);
            out.push((v & 0xFF) as u8);
        }
        _ => {
            out.push(28);
            out.extend_from_slice(&(v as i16).to_be_bytes());
        }
    }
}
/// variant: 0 hstem, 1 vstem, 2 hstemhm, 3 vstemhm, 4 hstemhm + hintmask(all), 5 hstemhm + cntrmask + hintmask(alternating),
/// 6 hstem and vstem interleaved (both stem lists)
fn cff_charstring(stems: &[(i32, i32)], variant: u8) -> Vec<u8> {
    let mut cs = vec![];
    let op = |variant: u8, k: usize| -> u8 {
        match variant {
            0 => 1,
            1 => 3,
            2 | 4 | 5 => 18,
            3 => 23,
            _ => {
                if k % 2 == 0 {
                    1
                } else {
                    3
                }
            }
        }
    };
    let mut nstems = 0usize;
    for (k, chunk) in stems.chunks(24).enumerate() {
        let mut prev = 0;
        for (min, max) in chunk {
            cs_num(&mut cs, min - prev);
            cs_num(&mut cs, max - min);
            prev = *max;
            nstems += 1;
        }
        cs.push(op(variant, k));
    }
    if variant == 4 || variant == 5 {
        let nbytes = nstems.div_ceil(8);
        if variant == 5 {
            cs.push(20); // cntrmask
            cs.extend(std::iter::repeat(0xFF).take(nbytes));
        }
        cs.push(19); // hintmask
        cs.extend(std::iter::repeat(if variant == 4 { 0xFF } else { 0xAA }).take(nbytes));
    }
    cs_num(&mut cs, 100);
    cs_num(&mut cs, 20);
    cs.push(21); // rmoveto
    for v in [50, 0, 0, 50, -50, 0] {
        cs_num(&mut cs, v);
    }
    cs.push(5); // rlineto
    if variant == 5 {
        let nbytes = nstems.div_ceil(8);
        cs.push(19); // a second hintmask mid-path
        cs.extend(std::iter::repeat(0x55).take(nbytes));
        for v in [10, 10] {
            cs_num(&mut cs, v);
        }
        cs.push(5);
    }
    cs.push(14); // endchar
    cs
}
fn cff_table_with(glyph1: &[u8], private_dict: &[u8]) -> Vec<u8> {
    let notdef: &[u8] = &[14];
    let mut cff = vec![1u8, 0, 4, 1];
    cff.extend_from_slice(&[0, 1, 1, 1, 2, b'A']); // Name INDEX
    const TOP: usize = 17;
    cff.extend_from_slice(&[0, 1, 1, 1, 1 + TOP as u8]);
    let top_pos = cff.len();
    cff.extend_from_slice(&[0; TOP]);
    cff.extend_from_slice(&[0, 0]); // String INDEX
    cff.extend_from_slice(&[0, 0]); // Global Subr INDEX
    let cs_off = cff.len();
    cff.extend_from_slice(&[0, 2, 2]);
    let off1 = 1 + notdef.len() as u16;
    let off2 = off1 + glyph1.len() as u16;
    for off in [1u16, off1, off2] {
        cff.extend_from_slice(&off.to_be_bytes());
    }
    cff.extend_from_slice(notdef);
    cff.extend_from_slice(glyph1);
    let priv_off = cff.len();
    cff.extend_from_slice(private_dict);
    let mut top = vec![];
    let dict_int = |out: &mut Vec<u8>, v: i32| {
        out.push(29);
        out.extend_from_slice(&v.to_be_bytes());
    };
    dict_int(&mut top, cs_off as i32);
    top.push(17);
    dict_int(&mut top, private_dict.len() as i32);
    dict_int(&mut top, priv_off as i32);
    top.push(18);
    cff[top_pos..top_pos + TOP].copy_from_slice(&top);
    cff
}
fn cff_font(charstring: &[u8], private_dict: &[u8]) -> Vec<u8> {
    let mut hmtx = vec![];
    for _ in 0..2 {
        hmtx.extend_from_slice(&be16(500));
        hmtx.extend_from_slice(&be16(10));
    }
    let mut f = build_sfnt(&[
        (b"head", head_table()),
        (b"hhea", hhea_table(2)),
        (b"maxp", vec![0, 0, 0x50, 0, 0, 2]),
        (b"hmtx", hmtx),
        (b"CFF ", cff_table_with(charstring, private_dict)),
    ]);
    f[0..4].copy_from_slice(b"OTTO");
    f
}
fn cff_cases() -> Vec<(String, Vec<u8>)> {
    let mut v = vec![];
    for variant in 0..7u8 {
        for pairs in 44..=52i32 {
            for ghost in [0i32, -20, -21] {
                let mut stems: Vec<(i32, i32)> = vec![];
                if ghost != 0 {
                    stems.push((0, ghost));
                }
                for k in 1..=pairs {
                    stems.push((10 * k, 10 * k + 4));
                }
                // a trailing ghost stem as well for the odd fill from the other side
                if ghost == -21 && pairs % 2 == 0 {
                    stems.push((10 * pairs + 30, 10 * pairs + 30 - 20));
                }
                v.push((format!("synthetic-cff-stems-v{}-p{}-g{}", variant, pairs, -ghost), cff_font(&cff_charstring(&stems, variant), &[50u8 + 139, 10])));
            }
        }
    }
    v
}
/// Private DICT with the given numbers of zone pairs per blue array (counts may exceed the spec maxima 7/5/7/5)
fn cff_private_dict(nbv: usize, nob: usize, nfb: usize, nfo: usize, lang: u8, height: i32, snaps: usize) -> Vec<u8> {
    let mut d = vec![];
    let blues = |d: &mut Vec<u8>, n: usize, start: i32, op: u8| {
        if n == 0 {
            return;
        }
        let mut prev = 0;
        for i in 0..n as i32 {
            let bottom = start + 40 * i;
            let top = bottom + height;
            cs_num(d, bottom - prev);
            cs_num(d, top - bottom);
            prev = top;
        }
        d.push(op);
    };
    blues(&mut d, nbv, 0, 6); // BlueValues
    blues(&mut d, nob, -900, 7); // OtherBlues
    blues(&mut d, nfb, 5, 8); // FamilyBlues
    blues(&mut d, nfo, -895, 9); // FamilyOtherBlues
    cs_num(&mut d, 7);
    d.extend_from_slice(&[12, 10]); // BlueShift
    cs_num(&mut d, 1);
    d.extend_from_slice(&[12, 11]); // BlueFuzz
    cs_num(&mut d, 50);
    d.push(10); // StdHW
    cs_num(&mut d, 60);
    d.push(11); // StdVW
    if snaps > 0 {
        for _ in 0..snaps {
            cs_num(&mut d, 5);
        }
        d.extend_from_slice(&[12, 12]); // StemSnapH
    }
    cs_num(&mut d, lang as i32);
    d.extend_from_slice(&[12, 17]); // LanguageGroup
    d
}
/// structure-aware Private DICT sweep: zone counts up to and beyond the spec maxima
fn cff_private_cases() -> Vec<(String, Vec<u8>)> {
    let mut v = vec![];
    let stems: Vec<(i32, i32)> = (1..=6).map(|k| (40 * k, 40 * k + 10)).collect();
    let cs = cff_charstring(&stems, 0);
    for nbv in [0usize, 1, 5, 6, 7, 8, 12] {
        for nob in [0usize, 1, 4, 5, 6, 7, 8, 12] {
            for lang in [0u8, 1] {
                for fam in [false, true] {
                    for height in [10i32, 0] {
                        if height == 0 && (fam || lang == 1) {
                            continue;
                        }
                        let (nfb, nfo) = if fam { (nbv, nob) } else { (0, 0) };
                        let snaps = if fam { 13 } else { 2 };
                        v.push((
                            format!("synthetic-cff-private-bv{}-ob{}-fam{}-lang{}-h{}", nbv, nob, fam as u8, lang, height),
                            cff_font(&cs, &cff_private_dict(nbv, nob, nfb, nfo, lang, height, snaps)),
                        ));
                    }
                }
            }
        }
    }
    v
}
fn exercise_cff(cx: &mut Ctx, data: &[u8]) {
    use skrifa::instance::{LocationRef, Size};
    use skrifa::outline::{DrawSettings, Engine, HintingInstance, HintingOptions, SmoothMode, Target};
    use skrifa::MetadataProvider;
    let Ok(font) = skrifa::FontRef::new(data) else {
        cx.count("cff.font_rejected");
        return;
    };
    let og = font.outline_glyphs();
    for gid in [1u32, 0] {
        let Some(glyph) = og.get(skrifa::GlyphId::new(gid)) else {
            cx.count("cff.no_glyph");
            continue;
        };
        cx.group("draw.unhinted");
        for ppem in [0.0f32, 8.0, 16.0, 137.0, 1000.0] {
            let r = cx.api("draw.unhinted", || glyph.draw(DrawSettings::unhinted(Size::new(ppem), LocationRef::default()), &mut NullPen).is_ok());
            cx.count(if r == Some(true) { "cff.draw_ok" } else { "cff.draw_err" });
        }
        for (ei, engine) in [Engine::Interpreter, Engine::AutoFallback, Engine::Auto(None)].into_iter().enumerate() {
            for target in [Target::Mono, Target::Smooth { mode: SmoothMode::Normal, symmetric_rendering: true, preserve_linear_metrics: false }, Target::Smooth { mode: SmoothMode::Lcd, symmetric_rendering: false, preserve_linear_metrics: true }] {
                for ppem in [8.0f32, 16.0, 137.0, 1000.0] {
                    cx.group(&format!("draw.hinted.engine{}", ei));
                    let Some(Ok(inst)) = cx.api("HintingInstance::new", || HintingInstance::new(&og, Size::new(ppem), LocationRef::default(), HintingOptions { engine: engine.clone(), target })) else {
                        continue;
                    };
                    let mut inst = inst;
                    for pass in 0..2 {
                        if pass == 1 {
                            // same instance after a reconfiguration to another size and back
                            cx.api("HintingInstance::reconfigure", || {
                                inst.reconfigure(&og, Size::new(ppem + 3.0), LocationRef::default(), HintingOptions { engine: engine.clone(), target }).is_ok()
                                    && inst.reconfigure(&og, Size::new(ppem), LocationRef::default(), HintingOptions { engine: engine.clone(), target }).is_ok()
                            });
                        }
                        for ped in [false, true] {
                            let r = cx.api("draw.hinted", || glyph.draw(DrawSettings::hinted(&inst, ped), &mut NullPen).is_ok());
                            cx.count(if r == Some(true) { "cff.hinted_ok" } else { "cff.hinted_err" });
                        }
                    }
                }
            }
        }
    }
}

// ---- the REAL brotli decoder on hand-built valid streams of uncompressed meta-blocks (RFC 7932) ----
struct BitW {
    out: Vec<u8>,
    nbits: usize,
}
impl BitW {
    fn put(&mut self, v: u32, n: usize) {
        for i in 0..n {
            if self.nbits % 8 == 0 {
                self.out.push(0);
            }
            if (v >> i) & 1 != 0 {
                *self.out.last_mut().unwrap() |= 1 << (self.nbits % 8);
            }
            self.nbits += 1;
        }
    }
    fn align(&mut self) {
        self.nbits = self.out.len() * 8;
    }
}
/// valid brotli stream: window header + one uncompressed meta-block per chunk (<= 2^20 bytes each) + empty last block
fn stored_brotli(wbits: u32, payload: &[u8], chunk: usize) -> Vec<u8> {
    let mut w = BitW { out: vec![], nbits: 0 };
    match wbits {
        16 => w.put(0, 1),
        17 => {
            w.put(1, 1);
            w.put(0, 3);
            w.put(0, 3);
        }
        18..=24 => {
            w.put(1, 1);
            w.put(wbits - 17, 3);
        }
        _ => {
            // 10..=15
            w.put(1, 1);
            w.put(0, 3);
            w.put(wbits - 8, 3);
        }
    }
    for c in payload.chunks(chunk.clamp(1, 1 << 20)) {
        w.put(0, 1); // ISLAST
        let (mn, nib) = if c.len() <= 1 << 16 { (0, 4) } else { (1, 5) };
        w.put(mn, 2);
        w.put((c.len() - 1) as u32, nib * 4);
        w.put(1, 1); // ISUNCOMPRESSED
        w.align();
        w.out.extend_from_slice(c);
        w.nbits = w.out.len() * 8;
    }
    w.put(1, 1); // ISLAST
    w.put(1, 1); // ISLASTEMPTY
    w.out
}
struct BrCase {
    wbits: u32,
    len: usize,
    chunk: usize,
}
fn brotli_cases(thorough: bool) -> Vec<BrCase> {
    let mut v = vec![];
    for wbits in 10..=16u32 {
        let win = (1usize << wbits) - 16;
        let mut lens = vec![1usize, 10, 1000, win - 1, win, win + 1, 1 << wbits, (1 << wbits) + 1, 8192, 3 * (1 << wbits) + 5];
        if thorough {
            lens.extend([win / 2, 2 * win, 65536, 200_000]);
        }
        lens.sort();
        lens.dedup();
        for len in lens {
            v.push(BrCase { wbits, len, chunk: 1 << 16 });
            if len > 3000 {
                v.push(BrCase { wbits, len, chunk: 1000 });
            }
        }
    }
    v
}
fn tk_patch(stream: &[u8], max_len: u32, tag: &[u8; 4]) -> Vec<u8> {
    let mut p = vec![];
    p.extend_from_slice(b"iftk");
    p.extend_from_slice(&0u32.to_be_bytes());
    for v in [1u32, 2, 3, 4] {
        p.extend_from_slice(&v.to_be_bytes());
    }
    p.extend_from_slice(&1u16.to_be_bytes());
    let first = (p.len() + 8) as u32;
    let end = first + 9 + stream.len() as u32;
    p.extend_from_slice(&first.to_be_bytes());
    p.extend_from_slice(&end.to_be_bytes());
    p.extend_from_slice(tag);
    p.push(1); // REPLACE_TABLE
    p.extend_from_slice(&max_len.to_be_bytes());
    p.extend_from_slice(stream);
    p
}
fn exercise_brotli(cx: &mut Ctx, c: &BrCase) {
    use font_test_data::ift as t;
    let payload: Vec<u8> = (0..c.len as u32).map(|i| (i % 251) as u8).collect();
    let stream = stored_brotli(c.wbits, &payload, c.chunk);
    let maxes: Vec<usize> = {
        let mut m = vec![0usize, 1, 10, c.len.saturating_sub(1), c.len, c.len + 1, 1 << 20];
        m.sort();
        m.dedup();
        m
    };
    // (1) the decoder itself, with and without a dictionary
    for &max in &maxes {
        cx.group(&format!("BuiltInBrotliDecoder::decode(max{}len)", if max < c.len { "<" } else if max == c.len { "=" } else { ">" }));
        let r = cx.api("BuiltInBrotliDecoder::decode", || BuiltInBrotliDecoder.decode(&stream, None, max));
        match &r {
            Some(Ok(out)) => {
                cx.count("brotli.decode_ok");
                if out.len() > max {
                    cx.fail("BuiltInBrotliDecoder::decode", "brotli:output-exceeds-max".into(), &format!("decoded {} bytes with max {}", out.len(), max));
                }
                if *out != payload {
                    cx.fail("BuiltInBrotliDecoder::decode", "brotli:stored-stream-roundtrip".into(), "decoded bytes differ from the stored payload");
                }
            }
            Some(Err(_)) => {
                cx.count("brotli.decode_err");
                if max >= c.len {
                    cx.fail("BuiltInBrotliDecoder::decode", "brotli:valid-stream-rejected".into(), &format!("wbits {} len {} max {}", c.wbits, c.len, max));
                }
            }
            None => {}
        }
        let dict = vec![7u8; 100];
        cx.api("BuiltInBrotliDecoder::decode(dict)", || BuiltInBrotliDecoder.decode(&stream, Some(&dict), max).map(|v| v.len()));
    }
    // truncated / trailing input
    cx.group("BuiltInBrotliDecoder::decode(truncated)");
    for cut in [1usize, 2, stream.len() / 2, stream.len() - 1] {
        let cut = cut.min(stream.len());
        cx.api("BuiltInBrotliDecoder::decode", || BuiltInBrotliDecoder.decode(&stream[..cut], None, c.len).map(|v| v.len()));
    }
    let mut extra = stream.clone();
    extra.extend_from_slice(&[1, 2, 3]);
    cx.api("BuiltInBrotliDecoder::decode", || BuiltInBrotliDecoder.decode(&extra, None, c.len).map(|v| v.len()));
    // (2) table keyed patch through the default apply path
    let tk_font = ift_base_font(&t::table_keyed_format2(), None, 0);
    if let Ok(fr) = skrifa::FontRef::new(&tk_font) {
        let subset = SubsetDefinition::codepoints([5u32].into_iter().collect());
        for &max in &maxes {
            cx.group("PatchGroup::apply_next_patches(table-keyed)");
            let Some(Ok(g)) = cx.api("PatchGroup::select_next_patches", || PatchGroup::select_next_patches(fr.clone(), &subset)) else { continue };
            let uris: Vec<String> = g.uris().map(|u| u.to_string()).collect();
            let mut data: HashMap<String, UriStatus> = uris.iter().map(|u| (u.clone(), UriStatus::Pending(tk_patch(&stream, max as u32, b"tab1")))).collect();
            let r = cx.api("PatchGroup::apply_next_patches", || g.apply_next_patches(&mut data).map(|v| v.len()));
            match r {
                Some(Ok(_)) => cx.count("brotli.tk_apply_ok"),
                Some(Err(_)) => cx.count("brotli.tk_apply_err"),
                None => {}
            }
            if let (Some(Ok(_)), true) = (&r, max < c.len) {
                cx.fail("PatchGroup::apply_next_patches", "brotli:table-keyed-exceeds-max".into(), "patch larger than maxUncompressedLength was applied");
            }
        }
    }
    // (3) glyph keyed patch through the default apply path: payload = a real glyph patches block padded to len
    let mut ift = t::table_keyed_format2();
    ift.write_at("encoding", 3u8);
    ift.write_at("compat_id[0]", 6u32);
    ift.write_at("compat_id[1]", 7u32);
    ift.write_at("compat_id[2]", 8u32);
    ift.write_at("compat_id[3]", 9u32);
    let gk_font = ift_base_font(&ift, None, 0);
    if let Ok(fr) = skrifa::FontRef::new(&gk_font) {
        let subset = SubsetDefinition::codepoints([5u32].into_iter().collect());
        let mut gp = t::glyf_u16_glyph_patches().to_vec();
        if gp.len() < c.len {
            gp.resize(c.len, 0);
        }
        let gstream = stored_brotli(c.wbits, &gp, c.chunk);
        for &max in &[0usize, 10, gp.len().saturating_sub(1), gp.len(), gp.len() + 1] {
            cx.group("PatchGroup::apply_next_patches(glyph-keyed)");
            let Some(Ok(g)) = cx.api("PatchGroup::select_next_patches", || PatchGroup::select_next_patches(fr.clone(), &subset)) else { continue };
            let uris: Vec<String> = g.uris().map(|u| u.to_string()).collect();
            let mut h = t::glyph_keyed_patch_header();
            h.write_at("max_uncompressed_length", max as u32);
            let mut patch = h.to_vec();
            patch.extend_from_slice(&gstream);
            let mut data: HashMap<String, UriStatus> = uris.iter().map(|u| (u.clone(), UriStatus::Pending(patch.clone()))).collect();
            let r = cx.api("PatchGroup::apply_next_patches", || g.apply_next_patches(&mut data).map(|v| v.len()));
            match r {
                Some(Ok(_)) => cx.count("brotli.gk_apply_ok"),
                Some(Err(_)) => cx.count("brotli.gk_apply_err"),
                None => {}
            }
        }
    }
}

// ---- glyph keyed patches against fonts whose offset arrays (gvar / loca) are non-monotone in structured ways ----
struct GkCase {
    long_loca: bool,
    long_gvar: bool,
    loca: Vec<u32>,
    gvar: Option<Vec<u32>>,
    gids: Vec<u16>,
    tables: Vec<[u8; 4]>,
    what: String,
}
const GK_GLYPHS: usize = 15;
const GK_DATA: u32 = 120;
/// n+1 offsets: sorted base, then 0..3 structured violations
fn hostile_offsets(rng: &mut Rng, hostile: bool) -> (String, Vec<u32>) {
    let n = GK_GLYPHS;
    let mut off: Vec<u32> = (0..=n).map(|_| (rng.below(GK_DATA as u64 / 2 + 1) * 2) as u32).collect();
    off.sort();
    if rng.chance(1, 3) {
        off[0] = 0;
    }
    let mut desc = String::from("sorted");
    if !hostile {
        return (desc, off);
    }
    for _ in 0..1 + rng.below(3) {
        let i = 1 + rng.below(n as u64) as usize; // 1..=n
        match rng.below(9) {
            0 | 1 => {
                // dip that stays at or above the first offset
                let lo = off[0];
                let hi = off[i - 1];
                if hi > lo {
                    off[i] = lo + (rng.below(((hi - lo) / 2) as u64) * 2) as u32;
                    desc.push_str(&format!("+dip-above-first@{}", i));
                }
            }
            2 => {
                if off[0] >= 2 {
                    off[i] = (rng.below((off[0] / 2) as u64) * 2) as u32;
                    desc.push_str(&format!("+dip-below-first@{}", i));
                }
            }
            3 => {
                let j = (i + 1 + rng.below(4) as usize).min(n);
                let v = off[i];
                for k in i..=j {
                    off[k] = v;
                }
                desc.push_str(&format!("+equal-run@{}..{}", i, j));
            }
            4 => {
                off[n] = if off[0] >= 2 && rng.chance(1, 2) { off[0] - 2 } else { 0 };
                desc.push_str("+last-below-first");
            }
            5 => {
                off[i] = GK_DATA + (rng.below(4) * 2) as u32 + if rng.chance(1, 4) { 60000 } else { 0 };
                desc.push_str(&format!("+spike@{}", i));
            }
            6 => {
                off.swap(i - 1, i);
                desc.push_str(&format!("+swap@{}", i));
            }
            7 => {
                let v = off[i];
                for o in off.iter_mut() {
                    *o = v;
                }
                desc.push_str("+all-equal");
            }
            _ => {
                off.reverse();
                desc.push_str("+reversed");
            }
        }
    }
    (desc, off)
}
fn gk_gvar_table(offsets: &[u32], long: bool) -> Vec<u8> {
    let n = offsets.len() - 1;
    let mut t = vec![0u8, 1, 0, 0, 0, 1, 0, 0];
    let entry = if long { 4 } else { 2 };
    let data_off = 20 + entry * (n + 1);
    t.extend_from_slice(&(data_off as u32).to_be_bytes()); // shared tuples offset (none)
    t.extend_from_slice(&(n as u16).to_be_bytes());
    t.extend_from_slice(&(long as u16).to_be_bytes());
    t.extend_from_slice(&(data_off as u32).to_be_bytes());
    for o in offsets {
        if long {
            t.extend_from_slice(&o.to_be_bytes());
        } else {
            t.extend_from_slice(&((o / 2) as u16).to_be_bytes());
        }
    }
    t.extend((0..GK_DATA).map(|i| (i % 200) as u8 + 1));
    t
}
fn gk_font(c: &GkCase) -> Vec<u8> {
    use font_test_data::ift as t;
    let mut ift = t::table_keyed_format2();
    ift.write_at("encoding", 3u8);
    ift.write_at("compat_id[0]", 6u32);
    ift.write_at("compat_id[1]", 7u32);
    ift.write_at("compat_id[2]", 8u32);
    ift.write_at("compat_id[3]", 9u32);
    let mut head = head_table();
    head[50..52].copy_from_slice(&be16(c.long_loca as u16));
    let mut loca = vec![];
    for o in &c.loca {
        if c.long_loca {
            loca.extend_from_slice(&o.to_be_bytes());
        } else {
            loca.extend_from_slice(&((o / 2) as u16).to_be_bytes());
        }
    }
    let glyf: Vec<u8> = (0..GK_DATA).map(|i| (i % 100) as u8 + 100).collect();
    let mut tabs: Vec<(&[u8; 4], Vec<u8>)> = vec![(b"head", head), (b"maxp", maxp_table(GK_GLYPHS as u16, 16, 0)), (b"loca", loca), (b"glyf", glyf), (b"IFT ", ift.to_vec())];
    if let Some(g) = &c.gvar {
        tabs.push((b"gvar", gk_gvar_table(g, c.long_gvar)));
    }
    build_sfnt(&tabs)
}
fn gk_payload(gids: &[u16], tables: &[[u8; 4]]) -> Vec<u8> {
    let n = gids.len();
    let mut p = vec![];
    p.extend_from_slice(&(n as u32).to_be_bytes());
    p.push(tables.len() as u8);
    for g in gids {
        p.extend_from_slice(&g.to_be_bytes());
    }
    for t in tables {
        p.extend_from_slice(t);
    }
    let header = p.len() + 4 * (n * tables.len() + 1);
    let mut off = header as u32;
    let mut data = vec![];
    for ti in 0..tables.len() {
        for (k, _) in gids.iter().enumerate() {
            p.extend_from_slice(&off.to_be_bytes());
            let l = 2 * ((k + ti) % 4) as u32; // even lengths (short loca), some empty
            data.extend((0..l).map(|x| b'a' + (x as u8 + k as u8) % 26));
            off += l;
        }
    }
    p.extend_from_slice(&off.to_be_bytes());
    p.extend_from_slice(&data);
    p
}
fn gk_cases(seed: u64, thorough: bool) -> Vec<GkCase> {
    let mut rng = Rng::new(seed ^ 0x474b_4f46);
    let mut v = vec![];
    let n = if thorough { 4000 } else { 700 };
    for i in 0..n {
        let which = rng.below(4); // 0 both sorted, 1 hostile gvar, 2 hostile loca, 3 both hostile
        let (d1, loca) = hostile_offsets(&mut rng, which == 2 || which == 3);
        let with_gvar = i % 5 != 0;
        let (d2, gv) = hostile_offsets(&mut rng, which == 1 || which == 3);
        let mut gids: Vec<u16> = if rng.chance(1, 4) { vec![2, 7, 8] } else { (0..1 + rng.below(4)).map(|_| { let extra = if rng.chance(1, 10) { 2 } else { 0 }; rng.below(GK_GLYPHS as u64 + extra) as u16 }).collect() };
        gids.sort();
        gids.dedup();
        let tables: Vec<[u8; 4]> = match rng.below(4) {
            0 => vec![*b"glyf"],
            1 => vec![*b"gvar"],
            _ => vec![*b"glyf", *b"gvar"],
        };
        v.push(GkCase { long_loca: rng.chance(1, 2), long_gvar: rng.chance(1, 2), loca, gvar: with_gvar.then_some(gv), gids, tables, what: format!("loca:{} gvar:{}", d1, d2) });
    }
    v
}
fn exercise_gk(cx: &mut Ctx, c: &GkCase) {
    use font_test_data::ift as t;
    let font = gk_font(c);
    let Ok(fr) = skrifa::FontRef::new(&font) else { return };
    let subset = SubsetDefinition::codepoints([5u32].into_iter().collect());
    cx.group("PatchGroup::apply_next_patches(glyph-keyed)");
    let Some(Ok(g)) = cx.api("PatchGroup::select_next_patches", || PatchGroup::select_next_patches(fr.clone(), &subset)) else {
        cx.count("gk.select_err");
        return;
    };
    let uris: Vec<String> = g.uris().map(|u| u.to_string()).collect();
    let payload = gk_payload(&c.gids, &c.tables);
    let mut h = t::glyph_keyed_patch_header();
    h.write_at("max_uncompressed_length", payload.len() as u32);
    let mut patch = h.to_vec();
    patch.extend_from_slice(&stored_brotli(16, &payload, 1 << 16));
    let mut data: HashMap<String, UriStatus> = uris.iter().map(|u| (u.clone(), UriStatus::Pending(patch.clone()))).collect();
    match cx.api("PatchGroup::apply_next_patches", || g.apply_next_patches(&mut data)) {
        Some(Ok(newfont)) => {
            cx.count("gk.apply_ok");
            // the patched font must parse and its offset arrays be usable
            cx.api("patched-font.outline_glyphs", || {
                use skrifa::MetadataProvider;
                if let Ok(f) = skrifa::FontRef::new(&newfont) {
                    let og = f.outline_glyphs();
                    for gid in 0..GK_GLYPHS as u32 + 1 {
                        let _ = og.get(skrifa::GlyphId::new(gid));
                    }
                }
            });
        }
        Some(Err(_)) => cx.count("gk.apply_err"),
        None => {}
    }
}

// ---- big outlines: the point-count limit must hold for every draw configuration ----
fn big_outline_fonts() -> Vec<(String, Vec<u8>)> {
    let mut v = vec![];
    let instr = vec![0xB0u8, 0x00, 0x21]; // PUSHB[0] 0; POP
    for (points, contours) in [(10000usize, 1usize), (22000, 3), (33000, 1), (40000, 2), (65535, 1), (65536, 7)] {
        let glyphs = vec![
            GK::Big { points, contours, instr: vec![] },                // 0 plain big simple
            GK::Big { points, contours, instr: instr.clone() },         // 1 big simple with instructions
            GK::CompositeI(vec![0], instr.clone()),                      // 2 instructed composite of one
            GK::Composite(vec![0, 2]),                                   // 3 nested instructed composite in non-first position
            GK::Composite(vec![2, 0]),                                   // 4 ... in first position
            GK::CompositeI(vec![0, 2], instr.clone()),                   // 5 instructed, nesting an instructed one
            GK::Composite(vec![3, 3]),                                   // 6 three deep
            GK::CompositeI(vec![4, 1, 2], instr.clone()),                // 7 three deep, instructed, mixed
            GK::Composite(vec![0, 0, 0]),                                // 8 flat triple
            GK::Composite(vec![1, 5]),                                   // 9 instructed simple + instructed composite
            GK::Simple,                                                  // 10 small
            GK::Composite(vec![10, 6]),                                  // 11 small first, then a deep big one
        ];
        // with and without font-level programs (AutoFallback picks the interpreter only with them)
        let fdef = assemble(&[AI::Fdef(0), AI::Endf]);
        v.push((format!("synthetic-bigoutline-p{}-c{}-programs", points, contours), glyf_font(&glyphs, &[], &fdef, &[0x18], 2, 16, 2)));
        v.push((format!("synthetic-bigoutline-p{}-c{}-plain", points, contours), glyf_font(&glyphs, &[], &[], &[], 0, 16, 0)));
    }
    v
}
/// one glyph through EVERY draw configuration: unhinted x both path styles x sizes, every hinting engine x target x
/// pedantic, with internal and caller memory.  Sibling-constructor oracle: when any configuration reports
/// TooManyPoints no other configuration may succeed in drawing the same glyph.
fn exercise_all_configs(cx: &mut Ctx, data: &[u8]) {
    use skrifa::instance::{LocationRef, Size};
    use skrifa::outline::{pen::PathStyle, DrawError, DrawSettings, Engine, HintingInstance, HintingOptions, SmoothMode, Target};
    use skrifa::MetadataProvider;
    let Ok(font) = skrifa::FontRef::new(data) else { return };
    let og = font.outline_glyphs();
    let targets = [
        Target::Mono,
        Target::Smooth { mode: SmoothMode::Normal, symmetric_rendering: true, preserve_linear_metrics: false },
        Target::Smooth { mode: SmoothMode::Light, symmetric_rendering: false, preserve_linear_metrics: false },
        Target::Smooth { mode: SmoothMode::Lcd, symmetric_rendering: true, preserve_linear_metrics: true },
        Target::Smooth { mode: SmoothMode::VerticalLcd, symmetric_rendering: false, preserve_linear_metrics: false },
    ];
    let mut instances: Vec<(String, HintingInstance)> = vec![];
    cx.group("HintingInstance::new");
    for (en, engine) in [("interpreter", Engine::Interpreter), ("autofallback", Engine::AutoFallback), ("auto", Engine::Auto(None))] {
        for (ti, target) in targets.iter().enumerate() {
            if en != "interpreter" && ti > 1 {
                continue;
            }
            if let Some(Ok(inst)) = cx.api("HintingInstance::new", || HintingInstance::new(&og, Size::new(16.0), LocationRef::default(), HintingOptions { engine: engine.clone(), target: *target })) {
                instances.push((format!("{}#{}", en, ti), inst));
            }
        }
    }
    let nglyphs = { use skrifa::raw::TableProvider; font.maxp().map(|m| m.num_glyphs()).unwrap_or(0) };
    for gid in 0..nglyphs.min(16) as u32 {
        let Some(Some(glyph)) = cx.api("outline_glyphs.get", || og.get(skrifa::GlyphId::new(gid))) else { continue };
        let mut too_many = 0u32;
        let mut ok = 0u32;
        let mut hint_failed_nonped = 0u32;
        let mut unhinted_scaled_ok = false;
        let mut nonped_interp_err = 0u32;
        let mut record = |r: Option<Result<(), DrawError>>| match r {
            Some(Ok(())) => ok += 1,
            Some(Err(DrawError::TooManyPoints(_))) => too_many += 1,
            _ => {}
        };
        let req = glyph.draw_memory_size(skrifa::outline::Hinting::Embedded).min(1 << 26);
        let mut buf = vec![0u8; req + 16];
        for style in [PathStyle::FreeType, PathStyle::HarfBuzz] {
            for size in [Size::unscaled(), Size::new(16.0)] {
                cx.group(&format!("draw.unhinted.{:?}", style));
                let r0 = cx.api("draw.unhinted", || glyph.draw(DrawSettings::unhinted(size, LocationRef::default()).with_path_style(style), &mut NullPen).map(|_| ()));
                if matches!(style, PathStyle::FreeType) && size.ppem().is_some() && matches!(r0, Some(Ok(()))) {
                    unhinted_scaled_ok = true;
                }
                record(r0);
                record(cx.api("draw.unhinted", || glyph.draw(DrawSettings::unhinted(size, LocationRef::default()).with_path_style(style).with_memory(Some(&mut buf[1..])), &mut NullPen).map(|_| ())));
            }
        }
        for (name, inst) in &instances {
            cx.group(&format!("draw.hinted.{}", name));
            for ped in [false, true] {
                let r = cx.api("draw.hinted", || glyph.draw(DrawSettings::hinted(inst, ped), &mut NullPen).map(|_| ()));
                if !ped {
                    if let Some(Err(e)) = &r {
                        if matches!(e, DrawError::HintingFailed(_)) {
                            hint_failed_nonped += 1;
                        }
                        if name.starts_with("interpreter") {
                            nonped_interp_err += 1;
                        }
                    }
                }
                record(r);
            }
            record(cx.api("draw.hinted", || glyph.draw(DrawSettings::hinted(inst, false).with_memory(Some(&mut buf[..])), &mut NullPen).map(|_| ())));
        }
        cx.count(if too_many > 0 { "big.too_many_points" } else { "big.drawn" });
        if too_many > 0 && ok > 0 {
            cx.fail("draw", "limit:TooManyPoints-not-enforced-by-every-configuration".into(), &format!("gid {}: {} configurations refuse with TooManyPoints, {} draw it", gid, too_many, ok));
        }
        // a failing glyph program is ignored unless the caller asked for pedantic hinting
        if hint_failed_nonped > 0 {
            cx.fail("draw.hinted", "hinting:error-surfaced-in-non-pedantic-mode".into(), &format!("gid {}: {} non-pedantic hinted draws returned HintingFailed", gid, hint_failed_nonped));
        }
        if unhinted_scaled_ok && nonped_interp_err > 0 && too_many == 0 {
            cx.fail("draw.hinted", "hinting:non-pedantic-draw-fails-where-unhinted-succeeds".into(), &format!("gid {}: unhinted scaled draw Ok, {} non-pedantic interpreter draws Err", gid, nonped_interp_err));
        }
        cx.count(if nonped_interp_err > 0 { "cfg.nonped_interp_err" } else { "cfg.nonped_interp_ok" });
    }
}

// ---- instructed composites: nesting depth x position x glyph programs (valid / empty / failing in k ways) ----
fn glyph_programs() -> Vec<(&'static str, Vec<u8>)> {
    vec![
        ("valid", vec![0xB0, 0x00, 0x21]),                    // PUSHB 0; POP
        ("empty", vec![]),
        ("lone-endf", vec![0x2D]),                            // ENDF outside a call: CallStackUnderflow
        ("bad-point", vec![0xB8, 0x75, 0x30, 0x2E]),          // PUSHW 30000; MDAP[0]: InvalidPointIndex
        ("invalid-opcode", vec![0x28]),                       // unassigned opcode
        ("undefined-call", vec![0xB0, 0x09, 0x2B]),           // CALL 9
        ("budget-loop", vec![0xB8, 0xFF, 0xFD, 0x1C]),        // PUSHW -3; JMPR
        ("truncated-push", vec![0xB9, 0x00]),                 // decode error
        ("div-zero", vec![0xB1, 0x40, 0x00, 0x62]),           // PUSHB 64 0; DIV
    ]
}
fn instructed_composite_fonts() -> Vec<(String, Vec<u8>)> {
    let progs = glyph_programs();
    let mut v = vec![];
    for (iname, inner) in &progs {
        for (oname, outer) in [&progs[0], &progs[2], &progs[1]] {
            // one font per (inner program, outer program): glyph chains for depth 1..4 x position
            let mut glyphs = vec![GK::Simple]; // gid 0: three points
            let mut roots = vec![];
            for nonfirst in [false, true] {
                for depth in 1..=4usize {
                    let mut prev: u16 = 0;
                    for level in 1..=depth {
                        let prog = if level == 1 { inner.clone() } else { outer.clone() };
                        let comps = if nonfirst { vec![0, prev] } else { vec![prev, 0] };
                        glyphs.push(GK::CompositeI(comps, prog));
                        prev = glyphs.len() as u16 - 1;
                    }
                    roots.push(prev);
                }
            }
            // a plain (uninstructed) wrapper around every chain, in non-first position
            for r in roots {
                glyphs.push(GK::Composite(vec![0, r]));
            }
            let fdef = assemble(&[AI::Fdef(0), AI::Endf]);
            v.push((format!("synthetic-instructed-composite-{}-{}", iname, oname), glyf_font(&glyphs, &[0xB0, 0x00, 0x21], &fdef, &[0x18], 2, 16, 2)));
        }
    }
    v
}

// ---- COLR v1: deep ACYCLIC chains through every child slot of every paint format that has children ----
/// (format, slot): the paint formats with children; slot 0 = the only / source child, 1 = backdrop
const COLR_CHAIN_SLOTS: &[(u8, u8)] = &[
    (1, 0), (10, 0), (11, 0), (12, 0), (13, 0), (14, 0), (15, 0), (16, 0), (17, 0), (18, 0), (19, 0), (20, 0), (21, 0), (22, 0), (23, 0),
    (24, 0), (25, 0), (26, 0), (27, 0), (28, 0), (29, 0), (30, 0), (31, 0), (32, 0), (32, 1),
];
fn colr_chain_font(format: u8, slot: u8, n: usize) -> Vec<u8> {
    let solid = [2u8, 0, 0, 0x40, 0]; // PaintSolid palette 0 alpha 1.0
    let o24 = |v: usize| -> [u8; 3] { [(v >> 16) as u8, (v >> 8) as u8, v as u8] };
    let mut bgl: Vec<u8> = vec![]; // BaseGlyphList
    let mut layer_list: Vec<u8> = vec![];
    match format {
        11 => {
            // base glyph i paints PaintColrGlyph(i + 1); the last one paints a solid
            let n = n.min(65000);
            bgl.extend_from_slice(&((n + 1) as u32).to_be_bytes());
            let recs_end = 4 + 6 * (n + 1);
            for i in 0..=n {
                bgl.extend_from_slice(&(i as u16).to_be_bytes());
                bgl.extend_from_slice(&((recs_end + 3 * i) as u32).to_be_bytes());
            }
            for i in 0..n {
                bgl.push(11);
                bgl.extend_from_slice(&((i + 1) as u16).to_be_bytes());
            }
            bgl.extend_from_slice(&solid[..3]); // 3 byte slot; complete the solid below
            bgl.extend_from_slice(&solid[3..]);
        }
        1 => {
            // root PaintColrLayers(1, 0); layer i -> PaintColrLayers(1, i + 1); the last layer -> solid
            bgl.extend_from_slice(&1u32.to_be_bytes());
            bgl.extend_from_slice(&0u16.to_be_bytes());
            bgl.extend_from_slice(&10u32.to_be_bytes());
            bgl.extend_from_slice(&[1, 1, 0, 0, 0, 0]); // PaintColrLayers numLayers 1, first 0
            layer_list.extend_from_slice(&(n as u32).to_be_bytes());
            let paints_start = 4 + 4 * n;
            for i in 0..n {
                layer_list.extend_from_slice(&((paints_start + 6 * i) as u32).to_be_bytes());
            }
            for i in 0..n.saturating_sub(1) {
                layer_list.push(1);
                layer_list.push(1);
                layer_list.extend_from_slice(&((i + 1) as u32).to_be_bytes());
            }
            layer_list.extend_from_slice(&solid);
            layer_list.push(0);
        }
        _ => {
            bgl.extend_from_slice(&1u32.to_be_bytes());
            bgl.extend_from_slice(&0u16.to_be_bytes());
            bgl.extend_from_slice(&10u32.to_be_bytes());
            for _ in 0..n {
                let is_var = format >= 13 && format % 2 == 1 && format != 32;
                match format {
                    10 => {
                        bgl.push(10);
                        bgl.extend_from_slice(&o24(6));
                        bgl.extend_from_slice(&0u16.to_be_bytes());
                    }
                    12 | 13 => {
                        // paint, then the transform record, then the child
                        let tlen = if format == 13 { 28 } else { 24 };
                        bgl.push(format);
                        bgl.extend_from_slice(&o24(7 + tlen));
                        bgl.extend_from_slice(&o24(7));
                        let mut t = vec![0u8; tlen];
                        t[0..4].copy_from_slice(&0x10000u32.to_be_bytes());
                        t[12..16].copy_from_slice(&0x10000u32.to_be_bytes());
                        bgl.extend_from_slice(&t);
                    }
                    32 => {
                        // [composite 8][solid 5]: the chained slot goes to the next node, the other one to the own solid
                        bgl.push(32);
                        let (src, bck) = if slot == 0 { (13, 8) } else { (8, 13) };
                        bgl.extend_from_slice(&o24(src));
                        bgl.push(3); // SRC_OVER
                        bgl.extend_from_slice(&o24(bck));
                        bgl.extend_from_slice(&solid);
                    }
                    _ => {
                        // translate / scale / rotate / skew families: format, Offset24, k F2Dot14 / FWORD fields [, varIndexBase]
                        let nfields = match format {
                            14 | 15 | 16 | 17 | 28 | 29 => 2,
                            18 | 19 | 30 | 31 => 4,
                            20 | 21 | 24 | 25 => 1,
                            _ => 3, // 22 23 26 27
                        };
                        let size = 4 + 2 * nfields + if is_var { 4 } else { 0 };
                        bgl.push(format);
                        bgl.extend_from_slice(&o24(size));
                        for _ in 0..nfields {
                            bgl.extend_from_slice(&0x0100u16.to_be_bytes());
                        }
                        if is_var {
                            bgl.extend_from_slice(&0xFFFF_FFFFu32.to_be_bytes()); // NO_VARIATION_INDEX
                        }
                    }
                }
            }
            bgl.extend_from_slice(&solid);
        }
    }
    let mut colr = vec![0u8; 34];
    colr[1] = 1;
    colr[14..18].copy_from_slice(&34u32.to_be_bytes());
    if !layer_list.is_empty() {
        colr[18..22].copy_from_slice(&((34 + bgl.len()) as u32).to_be_bytes());
    }
    colr.extend_from_slice(&bgl);
    colr.extend_from_slice(&layer_list);
    let g = simple_glyph(&[]);
    let mut loca = vec![0u8, 0, 0, 0];
    loca.extend_from_slice(&(g.len() as u32).to_be_bytes());
    let mut hmtx = vec![];
    hmtx.extend_from_slice(&be16(500));
    hmtx.extend_from_slice(&be16(10));
    build_sfnt(&[(b"head", head_table()), (b"hhea", hhea_table(1)), (b"maxp", maxp_table(1, 16, 0)), (b"hmtx", hmtx), (b"loca", loca), (b"glyf", g), (b"COLR", colr)])
}
struct ColrChain {
    format: u8,
    slot: u8,
    n: usize,
}
fn colr_chain_cases(thorough: bool) -> Vec<ColrChain> {
    let mut v = vec![];
    for (format, slot) in COLR_CHAIN_SLOTS {
        let mut ns = vec![1usize, 10, 20, 63, 64, 65, 70, 100, 1000, 100_000];
        if thorough {
            ns.extend([2, 24, 66, 300, 10_000]);
        }
        for n in ns {
            v.push(ColrChain { format: *format, slot: *slot, n });
        }
    }
    v
}
/// paint + bounding_box on a thread with a small explicit stack: unbounded recursion overflows it and kills the
/// worker, which the parent reports as `abort:` for this case
fn exercise_colr_chain(cx: &mut Ctx, c: &ColrChain) {
    use skrifa::instance::LocationRef;
    use skrifa::MetadataProvider;
    let data = colr_chain_font(c.format, c.slot, c.n);
    cx.group("color.paint(512KiB-stack)");
    let res = cx.api("color.paint", || {
        std::thread::Builder::new()
            .stack_size(512 << 10)
            .spawn(move || {
                let font = skrifa::FontRef::new(&data).ok()?;
                let glyph = font.color_glyphs().get(skrifa::GlyphId::new(0))?;
                let r = glyph.paint(LocationRef::default(), &mut NullPainter).is_ok();
                let _ = glyph.bounding_box(LocationRef::default(), skrifa::instance::Size::new(16.0));
                Some(r)
            })
            .unwrap()
            .join()
            .ok()
            .flatten()
    });
    match res {
        Some(Some(true)) => {
            cx.count("colr_chain.ok");
            // depth is bounded: nothing nested deeper than the traversal limit may be painted
            if c.n >= 70 {
                cx.fail("color.paint", format!("limit:colr-depth-not-bounded:format{}:slot{}", c.format, c.slot), &format!("an acyclic chain of {} paints was traversed without DepthLimitExceeded", c.n));
            }
        }
        Some(Some(false)) => {
            cx.count("colr_chain.err");
            if c.n <= 30 {
                cx.fail("color.paint", format!("colr-chain:shallow-chain-rejected:format{}:slot{}", c.format, c.slot), &format!("a well formed chain of {} paints was rejected", c.n));
            }
        }
        _ => cx.count("colr_chain.no_glyph"),
    }
}

// ---- graphics-state family: every state-setting instruction x boundary operands x every consumer of that state ----
/// (name, opcode, number of operands)
const STATE_SETTERS: &[(&str, u8, u8)] = &[
    ("sds", 0x5F, 1), ("sdb", 0x5E, 1), ("sloop", 0x17, 1), ("smd", 0x1A, 1), ("scvtci", 0x1D, 1), ("ssw", 0x1F, 1), ("sswci", 0x1E, 1),
    ("sround", 0x76, 1), ("s45round", 0x77, 1), ("szp0", 0x13, 1), ("szp1", 0x14, 1), ("szp2", 0x15, 1), ("szps", 0x16, 1),
    ("srp0", 0x10, 1), ("srp1", 0x11, 1), ("srp2", 0x12, 1), ("scanctrl", 0x85, 1), ("scantype", 0x8D, 1),
    ("instctrl", 0x8E, 2), ("spvfs", 0x0A, 2), ("sfvfs", 0x0B, 2), ("ws", 0x42, 2), ("wcvtp", 0x44, 2), ("wcvtf", 0x70, 2),
];
const STATE_VALUES: &[i64] = &[0, 1, -1, 2, 6, 7, -7, 63, 64, 255, 256, 1000, 32767, -32768, 2_097_088_000, -2_097_088_000];
fn push_value(v: i64) -> Vec<u8> {
    if (-32768..=32767).contains(&v) {
        let mut b = vec![0xB8];
        b.extend_from_slice(&(v as i16).to_be_bytes());
        b
    } else {
        let mut b = huge_count_code();
        if v < 0 {
            b.push(0x65); // NEG
        }
        b
    }
}
/// instructions that consume graphics state, each with plausible operands for the 3-point glyph / cvt of 4
fn state_consumers() -> Vec<(String, Vec<u8>)> {
    let mut v: Vec<(String, Vec<u8>)> = vec![];
    // DELTAPn / DELTACn with one exception for each of the 16 relative ppem values (one of them is taken)
    for (name, op) in [("deltap1", 0x5Du8), ("deltap2", 0x71), ("deltap3", 0x72), ("deltac1", 0x73), ("deltac2", 0x74), ("deltac3", 0x75)] {
        let mut b = vec![0x40u8, 33];
        for nib in 0..16u8 {
            b.push((nib << 4) | 0x0F);
            b.push(1);
        }
        b.push(16);
        b.push(op);
        v.push((name.into(), b));
    }
    let pb = |vals: &[u8], ops: &[u8]| -> Vec<u8> {
        let mut b = vec![0xB0 + vals.len() as u8 - 1];
        b.extend_from_slice(vals);
        b.extend_from_slice(ops);
        b
    };
    let simple: &[(&str, Vec<u8>)] = &[
        ("shp0", pb(&[1, 2, 0], &[0x32])), ("shp1", pb(&[1, 2, 0], &[0x33])), ("ip", pb(&[1, 2, 0], &[0x39])), ("alignrp", pb(&[1, 2, 0], &[0x3C])),
        ("flippt", pb(&[1, 2, 0], &[0x80])), ("shpix", pb(&[1, 2, 64], &[0x38])), ("mdap0", pb(&[1], &[0x2E])), ("mdap1", pb(&[1], &[0x2F])),
        ("miap0", pb(&[1, 1], &[0x3E])), ("miap1", pb(&[1, 1], &[0x3F])), ("mdrp-c0", pb(&[1], &[0xC0])), ("mdrp-c4", pb(&[2], &[0xC4])),
        ("mdrp-c8", pb(&[1], &[0xC8])), ("mdrp-df", pb(&[2], &[0xDF])), ("mirp-e0", pb(&[1, 1], &[0xE0])), ("mirp-e4", pb(&[2, 1], &[0xE4])),
        ("mirp-e8", pb(&[1, 2], &[0xE8])), ("mirp-ff", pb(&[2, 3], &[0xFF])), ("msirp0", pb(&[1, 64], &[0x3A])), ("msirp1", pb(&[2, 64], &[0x3B])),
        ("round", pb(&[33], &[0x68])), ("nround", pb(&[33], &[0x6C])), ("alignpts", pb(&[1, 2], &[0x27])), ("isect", pb(&[0, 1, 2, 1, 0], &[0x0F])),
        ("shc0", pb(&[0], &[0x34])), ("shc1", pb(&[0], &[0x35])), ("shz0", pb(&[1], &[0x36])), ("shz1", pb(&[0], &[0x37])), ("iup-y", vec![0x30]), ("iup-x", vec![0x31]),
        ("gc0", pb(&[1], &[0x46])), ("gc1", pb(&[1], &[0x47])), ("md0", pb(&[1, 2], &[0x49])), ("md1", pb(&[1, 2], &[0x4A])), ("scfs", pb(&[1, 64], &[0x48])),
        ("mppem-mps", vec![0x4B, 0x4C]), ("getinfo", pb(&[255], &[0x88])), ("utp", pb(&[1], &[0x29])), ("rs", pb(&[1], &[0x43])), ("rcvt", pb(&[1], &[0x45])),
        ("gpv-gfv", vec![0x0C, 0x0D]), ("sfvtpv-mdrp", pb(&[1], &[0x0E, 0xC0])), ("fliprgon", pb(&[0, 2], &[0x81])), ("odd-even", pb(&[33, 33], &[0x56, 0x57])),
    ];
    v.extend(simple.iter().map(|(n, b)| (n.to_string(), b.clone())));
    v
}
fn setter_programs(name: &str, op: u8, nargs: u8, v: i64) -> Vec<(String, Vec<u8>)> {
    if nargs == 1 {
        let mut b = push_value(v);
        b.push(op);
        vec![(format!("{}({})", name, v), b)]
    } else {
        let mut out = vec![];
        for w in [1i64, 2, 3] {
            for first in [true, false] {
                let mut b = if first { push_value(v) } else { push_value(w) };
                b.extend(if first { push_value(w) } else { push_value(v) });
                b.push(op);
                out.push((format!("{}({},{})", name, if first { v } else { w }, if first { w } else { v }), b));
            }
        }
        out
    }
}
/// (font name, bytes): placement A = setter and consumer in one glyph program (one font per setter, one glyph per
/// value x consumer); placement B = setter in prep (retained state), consumers in the glyph programs (one font per
/// setter x value)
fn state_family_fonts(thorough: bool) -> Vec<(String, Vec<u8>)> {
    let consumers = state_consumers();
    let fdef = assemble(&[AI::Fdef(0), AI::Endf]);
    let mut out = vec![];
    for (name, op, nargs) in STATE_SETTERS {
        let mut glyphs = vec![GK::Simple];
        for v in STATE_VALUES {
            for (_, sp) in setter_programs(name, *op, *nargs, *v).into_iter().take(if thorough { 6 } else { 2 }) {
                for (_, c) in &consumers {
                    let mut prog = sp.clone();
                    prog.extend_from_slice(c);
                    glyphs.push(GK::SimpleI(prog));
                }
            }
        }
        out.push((format!("synthetic-state-{}-in-glyph", name), glyf_font(&glyphs, &[], &fdef, &[0x18], 4, 64, 2)));
        for v in STATE_VALUES {
            for (k, (_, sp)) in setter_programs(name, *op, *nargs, *v).into_iter().take(if thorough { 6 } else { 1 }).enumerate() {
                let mut glyphs = vec![GK::Simple];
                for (_, c) in &consumers {
                    glyphs.push(GK::SimpleI(c.clone()));
                }
                out.push((format!("synthetic-state-{}-in-prep-v{}-{}", name, v, k), glyf_font(&glyphs, &[], &fdef, &sp, 4, 64, 2)));
            }
        }
    }
    out
}
/// every glyph hinted with the interpreter at several sizes / targets, pedantic and not
fn exercise_hinted_glyphs(cx: &mut Ctx, data: &[u8]) {
    use skrifa::instance::{LocationRef, Size};
    use skrifa::outline::{DrawSettings, Engine, HintingInstance, HintingOptions, SmoothMode, Target};
    use skrifa::raw::TableProvider;
    use skrifa::MetadataProvider;
    let Ok(font) = skrifa::FontRef::new(data) else { return };
    let og = font.outline_glyphs();
    let n = font.maxp().map(|m| m.num_glyphs()).unwrap_or(0) as u32;
    let mut instances = vec![];
    cx.group("HintingInstance::new");
    for ppem in [12.0f32, 16.0, 20.0] {
        for target in [Target::Mono, Target::Smooth { mode: SmoothMode::Normal, symmetric_rendering: true, preserve_linear_metrics: false }] {
            if let Some(Ok(i)) = cx.api("HintingInstance::new", || HintingInstance::new(&og, Size::new(ppem), LocationRef::default(), HintingOptions { engine: Engine::Interpreter, target })) {
                instances.push(i);
            } else {
                cx.count("state.instance_err");
            }
        }
    }
    cx.group("draw.hinted");
    let (mut ok, mut err) = (0u64, 0u64);
    for gid in 0..n {
        let Some(glyph) = og.get(skrifa::GlyphId::new(gid)) else { continue };
        for inst in &instances {
            for ped in [false, true] {
                match cx.api("draw.hinted", || glyph.draw(DrawSettings::hinted(inst, ped), &mut NullPen).is_ok()) {
                    Some(true) => ok += 1,
                    Some(false) => err += 1,
                    None => {}
                }
            }
        }
    }
    *cx.counters.entry("state.draw_ok".into()).or_insert(0) += ok;
    *cx.counters.entry("state.draw_err".into()).or_insert(0) += err;
}

// ---- `name` table builder stream ----
fn name_font(name: &[u8], with_fvar: bool) -> Vec<u8> {
    let mut hmtx = vec![];
    hmtx.extend_from_slice(&be16(500));
    hmtx.extend_from_slice(&be16(10));
    let g = simple_glyph(&[]);
    let mut loca = vec![0u8, 0, 0, 0];
    loca.extend_from_slice(&(g.len() as u32).to_be_bytes());
    let mut t: Vec<(&[u8; 4], Vec<u8>)> = vec![
        (b"head", head_table()),
        (b"hhea", hhea_table(1)),
        (b"maxp", maxp_table(1, 16, 0)),
        (b"hmtx", hmtx),
        (b"loca", loca),
        (b"glyf", g),
        (b"name", name.to_vec()),
    ];
    if with_fvar {
        // 1 axis (name id 256), 2 instances (subfamily 257 / 258, postscript 258 / 0xFFFF)
        let mut f = vec![0u8, 1, 0, 0, 0, 16, 0, 2, 0, 1, 0, 20, 0, 2, 0, 10];
        f.extend_from_slice(b"wght");
        for v in [100i32, 400, 900] {
            f.extend_from_slice(&(v << 16).to_be_bytes());
        }
        f.extend_from_slice(&[0, 0, 1, 0]); // flags, axisNameID 256
        for (sub, ps) in [(257u16, 258u16), (258, 0xFFFF)] {
            f.extend_from_slice(&sub.to_be_bytes());
            f.extend_from_slice(&[0, 0]);
            f.extend_from_slice(&(400i32 << 16).to_be_bytes());
            f.extend_from_slice(&ps.to_be_bytes());
        }
        t.push((b"fvar", f));
    }
    build_sfnt(&t)
}
fn name_cases(seed: u64, thorough: bool) -> Vec<(String, Vec<u8>, bool)> {
    let mut rng = Rng::new(seed ^ 0x4e41_4d45);
    let mut v = vec![];
    let n = if thorough { 6000 } else { 900 };
    let tag_char_lens = [0usize, 1, 2, 5, 29, 30, 31, 32, 33, 64, 200, 400];
    for i in 0..n {
        let version: u16 = if i % 3 == 0 { 0 } else { 1 };
        let ntags = if version == 1 { rng.below(4) as usize } else { 0 };
        let nrec = 1 + rng.below(7) as usize;
        let mut storage: Vec<u8> = vec![];
        let mut put_string = |rng: &mut Rng, storage: &mut Vec<u8>, kind: u64, chars: usize| -> (u16, u16) {
            let off = storage.len();
            match kind {
                0 => {
                    // ASCII UTF-16BE
                    for k in 0..chars {
                        storage.extend_from_slice(&[0, b'a' + (k % 26) as u8]);
                    }
                }
                1 => {
                    // non-ASCII / surrogates / private use UTF-16BE
                    for k in 0..chars {
                        let u: u16 = *rng.pick(&[0x00E9u16, 0x4E2D, 0xD800, 0xDC00, 0xFFFF, 0x0041, 0xD83D, 0xDE00, 0x0000]);
                        storage.extend_from_slice(&(u.wrapping_add(k as u16 & 1)).to_be_bytes());
                    }
                }
                2 => {
                    // single bytes (Mac Roman), incl. high half
                    for k in 0..chars {
                        storage.push(if k % 3 == 0 { 0x80 + (k % 128) as u8 } else { b'A' + (k % 26) as u8 });
                    }
                }
                _ => {
                    // odd byte length UTF-16
                    for k in 0..chars {
                        storage.extend_from_slice(&[0, b'x' + (k % 3) as u8]);
                    }
                    storage.push(0);
                }
            }
            ((storage.len() - off) as u16, off as u16)
        };
        // language tags
        let mut tags: Vec<(u16, u16)> = vec![];
        for _ in 0..ntags {
            let chars = *rng.pick(&tag_char_lens);
            let kind = *rng.pick(&[0u64, 0, 0, 1, 3]);
            let (mut len, mut off) = put_string(&mut rng, &mut storage, kind, chars);
            match rng.below(12) {
                0 => off = off.wrapping_add(40000),   // beyond storage
                1 => len = len.wrapping_add(7),       // runs past its data / odd
                2 => len = 0xFFFF,
                _ => {}
            }
            tags.push((len, off));
        }
        // name records
        let mut recs: Vec<[u16; 6]> = vec![];
        for _ in 0..nrec {
            let platform = *rng.pick(&[0u16, 1, 3, 3, 3, 2, 4, 0xFFFF]);
            let encoding = *rng.pick(&[0u16, 1, 3, 4, 10, 6, 99]);
            let language = match rng.below(6) {
                0 => 0,
                1 => 0x409,
                2 => 0x8000 + rng.below(ntags as u64 + 3) as u16,
                3 => (0x8000 + ntags as u16).wrapping_sub(1),
                4 => 0xFFFF,
                _ => *rng.pick(&[0x407u16, 0x411, 1, 11, 0x7FFF]),
            };
            let name_id = *rng.pick(&[0u16, 1, 1, 2, 4, 6, 16, 17, 25, 256, 257, 258, 0xFFFF]);
            let chars = *rng.pick(&[0usize, 1, 2, 3, 7, 30, 31, 64, 300]);
            let kind = if platform == 1 { 2 } else { rng.below(4) };
            let (mut len, mut off) = put_string(&mut rng, &mut storage, kind, chars);
            match rng.below(14) {
                0 => off = off.wrapping_add(50000),
                1 => len = 0xFFFF,
                2 => len = len.wrapping_add(1),
                3 => len = 0,
                _ => {}
            }
            recs.push([platform, encoding, language, name_id, len, off]);
        }
        if rng.chance(2, 3) {
            recs.sort();
        }
        let header = 6 + 12 * recs.len() + if version == 1 { 2 + 4 * tags.len() } else { 0 };
        let mut t = vec![];
        t.extend_from_slice(&version.to_be_bytes());
        t.extend_from_slice(&(recs.len() as u16).to_be_bytes());
        let storage_off = match rng.below(12) {
            0 => 0u16,
            1 => header as u16 + 3,
            2 => 0xFFFF,
            _ => header as u16,
        };
        t.extend_from_slice(&storage_off.to_be_bytes());
        for r in &recs {
            for x in r {
                t.extend_from_slice(&x.to_be_bytes());
            }
        }
        if version == 1 {
            let declared = match rng.below(10) {
                0 => tags.len() as u16 + 2, // more tags announced than present
                _ => tags.len() as u16,
            };
            t.extend_from_slice(&declared.to_be_bytes());
            for (l, o) in &tags {
                t.extend_from_slice(&l.to_be_bytes());
                t.extend_from_slice(&o.to_be_bytes());
            }
        }
        t.extend_from_slice(&storage);
        if rng.chance(1, 15) && t.len() > 8 {
            let l = 6 + rng.below(t.len() as u64 - 6) as usize;
            t.truncate(l);
        }
        v.push((format!("synthetic-name-v{}", version), name_font(&t, i % 2 == 0), i % 2 == 0));
    }
    v
}
fn exercise_name_font(cx: &mut Ctx, data: &[u8]) {
    use skrifa::MetadataProvider;
    let Ok(font) = skrifa::FontRef::new(data) else { return };
    cx.group("strings");
    exercise_names(cx, &font);
    cx.group("metadata");
    cx.api("attributes", || {
        let a = font.attributes();
        (a.weight.value(), a.stretch.ratio(), a.style)
    });
    cx.api("axes", || font.axes().iter().map(|a| font.localized_strings(a.name_id()).english_or_first().map(|s| s.to_string().len()).unwrap_or(0)).sum::<usize>());
    cx.api("named_instances", || {
        font.named_instances()
            .iter()
            .map(|i| {
                let a = font.localized_strings(i.subfamily_name_id()).english_or_first().map(|s| s.to_string().len()).unwrap_or(0);
                let b = i.postscript_name_id().and_then(|p| font.localized_strings(p).english_or_first()).map(|s| s.chars().count()).unwrap_or(0);
                a + b
            })
            .sum::<usize>()
    });
    cx.api("glyph_names", || font.glyph_names().iter().take(10).count());
    cx.count("name.fonts");
}

// ---- task list (identical in every process) ----
#[derive(Clone)]
enum Task {
    Run(usize),
    Comp(usize),
    Fuzz { font: usize, m: usize },
    Ift { fix: usize, m: usize },
    Mem { font: usize, gid: u32 },
    Ift1(usize),
    Ift2(usize),
    Cff(usize),
    Brotli(usize),
    Gk(usize),
    Big(usize),
    Name(usize),
    ColrChain(usize),
    State(usize),
}

struct World {
    seed: u64,
    thorough: bool,
    runs: Vec<RunCase>,
    comps: Vec<CompCase>,
    fonts: Vec<(String, Vec<u8>)>,
    ift: Vec<(&'static str, Vec<u8>)>,
    f1: Vec<F1>,
    f2: Vec<F2>,
    cffs: Vec<(String, Vec<u8>)>,
    brs: Vec<BrCase>,
    gks: Vec<GkCase>,
    bigs: Vec<(String, Vec<u8>)>,
    names: Vec<(String, Vec<u8>, bool)>,
    chains: Vec<ColrChain>,
    states: Vec<(String, Vec<u8>)>,
    tasks: Vec<Task>,
}

fn build_world(seed: u64, thorough: bool) -> World {
    let runs = run_cases(seed, thorough);
    let comps = comp_cases(seed, thorough);
    let mut fonts = synthetic_fonts();
    fonts.extend(corpus_fonts());
    let ift = ift_fixtures();
    let mut tasks = vec![];
    // heavy run cases first so that they do not sit at the tail
    for (i, r) in runs.iter().enumerate() {
        if r.heavy {
            tasks.push(Task::Run(i));
        }
    }
    let nm = if thorough { 18000 } else { 1800 };
    let nsyn = synthetic_fonts().len();
    // interleave: mutation index major, font minor (balances slow fonts across workers)
    for m in 0..nm {
        for f in 0..fonts.len() {
            if f < nsyn && m > 0 {
                continue; // synthetic fonts are run unmutated only
            }
            tasks.push(Task::Fuzz { font: f, m });
        }
        if m == 0 {
            for (i, r) in runs.iter().enumerate() {
                if !r.heavy {
                    tasks.push(Task::Run(i));
                }
            }
            for i in 0..comps.len() {
                tasks.push(Task::Comp(i));
            }
        }
    }
    // exhaustive scratch-memory sweeps
    for (f, (name, _)) in fonts.iter().enumerate() {
        if ["synthetic-mem-plain", "synthetic-mem-hinted", "vazirmatn_var_trimmed.ttf", "tthint_subset.ttf", "glyf_components.ttf", "cvar.ttf"].contains(&name.as_str()) {
            for gid in [0u32, 1, 2, 3, 5] {
                tasks.push(Task::Mem { font: f, gid });
            }
        }
    }
    let f1 = f1_cases(seed, thorough);
    for i in 0..f1.len() {
        tasks.push(Task::Ift1(i));
    }
    let f2 = f2_cases(seed, thorough);
    for i in 0..f2.len() {
        tasks.push(Task::Ift2(i));
    }
    let mut cffs = cff_cases();
    cffs.extend(cff_private_cases());
    for i in 0..cffs.len() {
        tasks.push(Task::Cff(i));
    }
    let brs = brotli_cases(thorough);
    for i in 0..brs.len() {
        tasks.push(Task::Brotli(i));
    }
    let gks = gk_cases(seed, thorough);
    for i in 0..gks.len() {
        tasks.push(Task::Gk(i));
    }
    let mut bigs = big_outline_fonts();
    bigs.extend(instructed_composite_fonts());
    for i in 0..bigs.len() {
        tasks.push(Task::Big(i));
    }
    let names = name_cases(seed, thorough);
    for i in 0..names.len() {
        tasks.push(Task::Name(i));
    }
    let chains = colr_chain_cases(thorough);
    for i in 0..chains.len() {
        tasks.push(Task::ColrChain(i));
    }
    let states = state_family_fonts(thorough);
    for i in 0..states.len() {
        tasks.push(Task::State(i));
    }
    let nim = if thorough { 60000 } else { 8000 };
    for m in 0..nim {
        for fix in 0..ift.len() {
            tasks.push(Task::Ift { fix, m });
        }
    }
    World { seed, thorough, runs, comps, fonts, ift, f1, f2, cffs, brs, gks, bigs, names, chains, states, tasks }
}

fn run_task(w: &World, idx: usize, totals: &mut std::collections::BTreeMap<String, u64>, evals: &mut u64) {
    match &w.tasks[idx] {
        Task::Run(i) => {
            let c = &w.runs[*i];
            wline(&format!("B {} run-{}:#{}", idx, c.what, i));
            wline("A HintingInstance::new");
            let obs = exec_run_case(c);
            *evals += 1;
            *totals.entry(format!("run.{}.status{}.kind{}", c.what, obs.0, obs.3)).or_insert(0) += 1;
            if obs.0 != 0 {
                wline(&format!("N run {} {:?}", i, obs));
            }
            wline(&format!(
                "C {} {}CaseRun {} {} {} {} {} ({}, {}, {}, {})",
                idx,
                if c.heavy { "(*H*)" } else { "" },
                c.cvt_len,
                c.max_stack as u32 + 32,
                c.fdefs,
                cbytes(&c.fpgm),
                cbytes(&c.prep),
                obs.0,
                obs.1,
                obs.2,
                obs.3
            ));
            if *i < 3 {
                wline(&format!("J {}", json!({"run_case": c.what, "prep": c.prep, "observed(status,program,pc,kind)": format!("{:?}", obs)})));
            }
        }
        Task::Comp(i) => {
            let c = &w.comps[*i];
            wline(&format!("B {} comp-{}:#{}", idx, c.what, i));
            wline("A outline_glyphs.get+draw");
            let obs = exec_comp_case(c);
            *evals += 1;
            *totals.entry(format!("comp.get{}.draw{}", obs.0, obs.1)).or_insert(0) += 1;
            if obs != (0, 0) {
                wline(&format!("N comp {} {:?}", i, obs));
            }
            wline(&format!("C {} CaseComp {} {} {} {}", idx, clist(c.glyphs.iter(), gk_term), c.gid, obs.0, obs.1));
        }
        Task::Fuzz { font, m } => {
            let (name, bytes) = &w.fonts[*font];
            let mut rng = Rng::new(w.seed ^ fnv(name.as_bytes()) ^ (*m as u64).wrapping_mul(0x9E3779B97F4A7C15));
            let (mid, data) = mutate_font(bytes, *m, &mut rng);
            let key = format!("{}:{}", name, mid);
            wline(&format!("B {} {}", idx, key));
            let mut cx = Ctx { task: idx, key, counters: Default::default(), evals: 0, failures: 0, sites: vec![] };
            cx.count(&format!("mut.{}", mid.split(|c| c == '@' || c == '#').next().unwrap_or("?")));
            exercise_font(&mut cx, &data, &mut rng, w.thorough);
            if cx.counters.contains_key("fuzz.font_accepted") && *m > 0 {
                wline(&format!("N {}", cx.key));
            }
            *evals += cx.evals;
            for (k, v) in cx.counters {
                *totals.entry(k).or_insert(0) += v;
            }
        }
        Task::Mem { font, gid } => {
            let (name, bytes) = &w.fonts[*font];
            let key = format!("{}:mem-sweep-gid{}", name, gid);
            wline(&format!("B {} {}", idx, key));
            let mut cx = Ctx { task: idx, key, counters: Default::default(), evals: 0, failures: 0, sites: vec![] };
            exercise_mem(&mut cx, bytes, *gid, w.thorough);
            *evals += cx.evals;
            for (k, v) in cx.counters {
                *totals.entry(k).or_insert(0) += v;
            }
        }
        Task::Ift1(i) => {
            let c = &w.f1[*i];
            let key = format!("ift-format1-{}:#{}", c.what, i);
            wline(&format!("B {} {}", idx, key));
            wline("A patchmap::intersecting_patches");
            let mut cx = Ctx { task: idx, key, counters: Default::default(), evals: 0, failures: 0, sites: vec![] };
            let obs = exec_f1(&mut cx, c);
            cx.count(&format!("f1.status{}", obs.0));
            if !obs.1.is_empty() {
                cx.count("f1.nonempty_result");
                wline(&format!("N f1 {} {:?}", i, obs));
            }
            if c.data.len() <= 600 {
                wline(&format!(
                    "C {} CaseF1 {} {} {} {} {} {} {} {} {} {} ({}, {})",
                    idx,
                    c.maxe,
                    c.maxg,
                    c.first,
                    czlist(c.gentries.iter().map(|v| *v as i128)),
                    // Charmap::map never returns glyph 0 (cp 0x41 -> .notdef is treated as unmapped)
                    czlist(c.cps.iter().filter(|cp| **cp != 0x41).map(|cp| (*cp - 0x41) as i128)),
                    cbytes(&c.bitmap),
                    c.pf,
                    copt(c.recs.as_ref().map(|r| clist(r.iter(), |(t, f, n)| format!("({}, {}, {})", t, f, n)))),
                    cbytes(&c.data),
                    copt(c.feats.as_ref().map(|f| czlist(f.iter().map(|t| *t as i128)))),
                    obs.0,
                    czlist(obs.1.iter().map(|v| *v as i128))
                ));
            }
            *evals += cx.evals;
            for (k, v) in cx.counters {
                *totals.entry(k).or_insert(0) += v;
            }
        }
        Task::Cff(i) => {
            let (name, bytes) = &w.cffs[*i];
            let key = format!("{}:id", name);
            wline(&format!("B {} {}", idx, key));
            let mut cx = Ctx { task: idx, key, counters: Default::default(), evals: 0, failures: 0, sites: vec![] };
            exercise_cff(&mut cx, bytes);
            *evals += cx.evals;
            for (k, v) in cx.counters {
                *totals.entry(k).or_insert(0) += v;
            }
        }
        Task::Big(i) => {
            let (name, bytes) = &w.bigs[*i];
            let key = format!("{}:id", name);
            wline(&format!("B {} {}", idx, key));
            let mut cx = Ctx { task: idx, key, counters: Default::default(), evals: 0, failures: 0, sites: vec![] };
            exercise_all_configs(&mut cx, bytes);
            *evals += cx.evals;
            for (k, v) in cx.counters {
                *totals.entry(k).or_insert(0) += v;
            }
        }
        Task::State(i) => {
            let (name, bytes) = &w.states[*i];
            let key = format!("{}:id", name);
            wline(&format!("B {} {}", idx, key));
            let mut cx = Ctx { task: idx, key, counters: Default::default(), evals: 0, failures: 0, sites: vec![] };
            exercise_hinted_glyphs(&mut cx, bytes);
            *evals += cx.evals;
            for (k, v) in cx.counters {
                *totals.entry(k).or_insert(0) += v;
            }
        }
        Task::ColrChain(i) => {
            let c = &w.chains[*i];
            let key = format!("synthetic-colr-chain-format{}-slot{}-n{}:id", c.format, c.slot, c.n);
            wline(&format!("B {} {}", idx, key));
            let mut cx = Ctx { task: idx, key, counters: Default::default(), evals: 0, failures: 0, sites: vec![] };
            exercise_colr_chain(&mut cx, c);
            *evals += cx.evals;
            for (k, v) in cx.counters {
                *totals.entry(k).or_insert(0) += v;
            }
        }
        Task::Name(i) => {
            let (name, bytes, _) = &w.names[*i];
            let key = format!("{}:#{}", name, i);
            wline(&format!("B {} {}", idx, key));
            let mut cx = Ctx { task: idx, key, counters: Default::default(), evals: 0, failures: 0, sites: vec![] };
            exercise_name_font(&mut cx, bytes);
            *evals += cx.evals;
            for (k, v) in cx.counters {
                *totals.entry(k).or_insert(0) += v;
            }
        }
        Task::Gk(i) => {
            let c = &w.gks[*i];
            let key = format!("ift-glyph-keyed-offsets:#{} {} gids={:?} tables={}", i, c.what, c.gids, c.tables.len());
            wline(&format!("B {} {}", idx, key));
            let mut cx = Ctx { task: idx, key, counters: Default::default(), evals: 0, failures: 0, sites: vec![] };
            exercise_gk(&mut cx, c);
            *evals += cx.evals;
            for (k, v) in cx.counters {
                *totals.entry(k).or_insert(0) += v;
            }
        }
        Task::Brotli(i) => {
            let c = &w.brs[*i];
            let key = format!("brotli-stored-w{}-len{}-chunk{}:#{}", c.wbits, c.len, c.chunk, i);
            wline(&format!("B {} {}", idx, key));
            let mut cx = Ctx { task: idx, key, counters: Default::default(), evals: 0, failures: 0, sites: vec![] };
            exercise_brotli(&mut cx, c);
            *evals += cx.evals;
            for (k, v) in cx.counters {
                *totals.entry(k).or_insert(0) += v;
            }
        }
        Task::Ift2(i) => {
            let c = &w.f2[*i];
            let key = format!("ift-format2-{}:#{}", c.what, i);
            wline(&format!("B {} {}", idx, key));
            wline("A patchmap::intersecting_patches");
            let mut cx = Ctx { task: idx, key, counters: Default::default(), evals: 0, failures: 0, sites: vec![] };
            let obs = exec_f2(&mut cx, c);
            cx.count(&format!("f2.status{}", obs.0));
            if !obs.1.is_empty() {
                cx.count("f2.nonempty_result");
                wline(&format!("N f2 {} {:?}", i, obs.1));
            }
            if c.data.len() <= 2200 {
                wline(&format!(
                    "C {} CaseF2 {} {} {} {} ({}, {})",
                    idx,
                    c.default_fmt,
                    c.entry_count,
                    obs.2,
                    cbytes(&c.data),
                    obs.0,
                    clist(obs.1.iter(), |e| format!("({}, {}, {})", e.0, e.1, e.2))
                ));
            }
            *evals += cx.evals;
            for (k, v) in cx.counters {
                *totals.entry(k).or_insert(0) += v;
            }
        }
        Task::Ift { fix, m } => {
            let (name, bytes) = &w.ift[*fix];
            let mut rng = Rng::new(w.seed ^ fnv(name.as_bytes()) ^ (*m as u64).wrapping_mul(0xD1B54A32D192ED03));
            let (mid, table) = mutate_bytes(bytes, *m, &mut rng);
            let iftx = if rng.chance(1, 3) {
                let other = &w.ift[rng.below(w.ift.len() as u64) as usize].1;
                let mut o = other.clone();
                // distinct compatibility id (bytes 8..24 of either format)
                if o.len() > 24 {
                    o[23] ^= 0x55;
                }
                Some(o)
            } else {
                None
            };
            let gv = rng.below(5);
            let key = format!("ift-{}:{}{}", name, mid, if iftx.is_some() { "+iftx" } else { "" });
            wline(&format!("B {} {}", idx, key));
            let font = ift_base_font(&table, iftx.as_deref(), gv);
            let mut cx = Ctx { task: idx, key, counters: Default::default(), evals: 0, failures: 0, sites: vec![] };
            exercise_ift(&mut cx, &font, &mut rng, w.thorough);
            if cx.counters.contains_key("ift.select_ok") && *m > 0 {
                wline(&format!("N {}", cx.key));
            }
            *evals += cx.evals;
            for (k, v) in cx.counters {
                *totals.entry(k).or_insert(0) += v;
            }
        }
    }
    wline(&format!("E {}", idx));
}

fn worker_main(args: &[String]) {
    let thorough = args.get(2).map(|s| s == "thorough").unwrap_or(false);
    let part: usize = args.get(3).and_then(|s| s.parse().ok()).unwrap_or(0);
    let n: usize = args.get(4).and_then(|s| s.parse().ok()).unwrap_or(1);
    let start: usize = args.get(5).and_then(|s| s.parse().ok()).unwrap_or(0);
    let seed = seed_from_env();
    install_loc_hook();
    // run on a thread with a known stack size: runaway recursion overflows it and aborts the process,
    // which the parent observes
    let h = std::thread::Builder::new()
        .stack_size(16 << 20)
        .spawn(move || {
            let w = build_world(seed, thorough);
            let mut totals = std::collections::BTreeMap::new();
            let mut evals = 0u64;
            let only: Option<usize> = std::env::var("C02_ONLY").ok().and_then(|s| s.parse().ok());
            for idx in start..w.tasks.len() {
                if idx % n != part {
                    continue;
                }
                if let Some(o) = only {
                    if o != idx {
                        continue;
                    }
                }
                run_task(&w, idx, &mut totals, &mut evals);
            }
            for (k, v) in totals {
                wline(&format!("S {} {}", k, v));
            }
            wline(&format!("V {}", evals));
            wline("Q");
        })
        .unwrap();
    let _ = h.join();
}

// ------------------------------------------------------------------------------------------
// parent: worker pool with watchdog
// ------------------------------------------------------------------------------------------
struct WorkerState {
    child: std::process::Child,
    part: usize,
    cur: Option<(usize, String, Instant)>, // task index, key, start
    last_api: String,
    done: bool,
    killed: bool,
}

fn spawn_worker(tier: &str, slot: usize, part: usize, n: usize, start: usize, tx: &mpsc::Sender<(usize, Option<String>)>) -> WorkerState {
    let exe = std::env::current_exe().unwrap();
    let mut child = Command::new(exe)
        .args(["worker", tier, &part.to_string(), &n.to_string(), &start.to_string()])
        .stdin(Stdio::null())
        .stdout(Stdio::piped())
        .stderr(Stdio::null())
        .spawn()
        .expect("spawn worker");
    let out = child.stdout.take().unwrap();
    let tx = tx.clone();
    std::thread::spawn(move || {
        let rd = BufReader::new(out);
        for line in rd.lines() {
            match line {
                Ok(l) => {
                    if tx.send((slot, Some(l))).is_err() {
                        return;
                    }
                }
                Err(_) => break,
            }
        }
        let _ = tx.send((slot, None));
    });
    WorkerState { child, part, cur: None, last_api: String::new(), done: false, killed: false }
}

fn run_workers(tier: &str, thorough: bool, st: &mut Stats, cw_font: &mut Vec<(usize, String)>) {
    let n = 16usize;
    let budget = Duration::from_secs(if thorough { 40 } else { 20 });
    let (tx, rx) = mpsc::channel::<(usize, Option<String>)>();
    let mut ws: Vec<WorkerState> = vec![];
    for k in 0..n {
        let w = spawn_worker(tier, k, k, n, 0, &tx);
        ws.push(w);
    }
    let mut active = n;
    let mut restarts = 0usize;
    let mut fails: Vec<serde_json::Value> = vec![];
    while active > 0 {
        match rx.recv_timeout(Duration::from_millis(500)) {
            Ok((k, Some(line))) => {
                let w = &mut ws[k];
                let (tag, rest) = line.split_at(line.len().min(2));
                match tag {
                    "B " => {
                        let mut it = rest.splitn(2, ' ');
                        let idx: usize = it.next().unwrap_or("0").parse().unwrap_or(0);
                        w.cur = Some((idx, it.next().unwrap_or("").to_string(), Instant::now()));
                        w.last_api.clear();
                    }
                    "A " => w.last_api = rest.to_string(),
                    "E " => {
                        w.cur = None;
                        st.count("fuzz.tasks_done");
                    }
                    "F " => {
                        if let Ok(v) = serde_json::from_str::<serde_json::Value>(rest) {
                            fails.push(v);
                        }
                    }
                    "C " => {
                        let mut it = rest.splitn(2, ' ');
                        let idx: usize = it.next().unwrap_or("0").parse().unwrap_or(0);
                        cw_font.push((idx, it.next().unwrap_or("").to_string()));
                    }
                    "S " => {
                        let mut it = rest.rsplitn(2, ' ');
                        let cnt: u64 = it.next().unwrap_or("0").parse().unwrap_or(0);
                        st.add(it.next().unwrap_or("?"), cnt);
                    }
                    "N " => st.nontrivial(rest),
                    "V " => st.evaluations += rest.trim().parse::<u64>().unwrap_or(0),
                    "J " => {
                        if let Ok(v) = serde_json::from_str::<serde_json::Value>(rest) {
                            st.sample(v);
                        }
                    }
                    "Q" | "Q " => w.done = true,
                    _ => {}
                }
            }
            Ok((k, None)) => {
                // stdout closed: worker exited
                let status = ws[k].child.wait().ok();
                if ws[k].killed {
                    // handled by the watchdog
                } else if ws[k].done {
                    active -= 1;
                } else {
                    // abnormal exit while a task was in progress
                    let cur = ws[k].cur.take();
                    let why = match status {
                        Some(s) => {
                            use std::os::unix::process::ExitStatusExt;
                            match s.signal() {
                                Some(sig) => format!("abort(signal {})", sig),
                                None => format!("exit({})", s.code().unwrap_or(-1)),
                            }
                        }
                        None => "abort".to_string(),
                    };
                    let inst = cur.as_ref().map(|c| c.1.clone()).unwrap_or_else(|| "worker-startup".into());
                    let tnum = cur.as_ref().map(|c| c.0).unwrap_or(usize::MAX);
                    fails.push(json!({"key": format!("abort:{}:{}", ws[k].last_api, base_font(&inst)),
                        "what": format!("worker process died ({}) while running this task (stack exhaustion / abort)", why),
                        "api": ws[k].last_api, "instance": inst, "task": tnum, "repro": repro_cmd(tnum)}));
                    st.count("fuzz.worker_aborts");
                    match cur {
                        Some((idx, _, _)) if restarts < 400 => {
                            restarts += 1;
                            let slot = ws.len();
                            let w = spawn_worker(tier, slot, ws[k].part, n, idx + 1, &tx);
                            ws.push(w);
                        }
                        _ => active -= 1,
                    }
                }
            }
            Err(mpsc::RecvTimeoutError::Timeout) => {}
            Err(mpsc::RecvTimeoutError::Disconnected) => break,
        }
        // watchdog
        for k in 0..ws.len() {
            if ws[k].killed || ws[k].done {
                continue;
            }
            if let Some((idx, key, t0)) = ws[k].cur.clone() {
                if t0.elapsed() > budget {
                    ws[k].killed = true;
                    let _ = ws[k].child.kill();
                    fails.push(json!({"key": format!("budget:{}:{}", ws[k].last_api, base_font(&key)),
                        "what": format!("wall-clock budget of {}s exceeded (unbounded loop / runaway work)", budget.as_secs()),
                        "api": ws[k].last_api, "instance": key, "task": idx, "repro": repro_cmd(idx)}));
                    st.count("fuzz.budget_overruns");
                    if restarts < 400 {
                        restarts += 1;
                        let slot = ws.len();
                        let w = spawn_worker(tier, slot, ws[k].part, n, idx + 1, &tx);
                        ws.push(w);
                    } else {
                        active -= 1;
                    }
                }
            }
        }
    }
    // one report per key (= per defect): the failing input with the smallest task index (deterministic)
    fails.sort_by_key(|v| v.get("task").and_then(|t| t.as_u64()).unwrap_or(u64::MAX));
    let mut seen: std::collections::BTreeMap<String, u64> = Default::default();
    for v in fails {
        let site = v.get("key").and_then(|s| s.as_str()).unwrap_or("?").to_string();
        let c = seen.entry(site.clone()).or_insert(0);
        *c += 1;
        if *c == 1 {
            st.oracle_failure(v);
        }
    }
    st.v.insert("panic_sites".into(), json!(seen));
    st.v.insert("worker_restarts".into(), restarts.into());
}

fn main() {
    install_loc_hook();
    let args: Vec<String> = std::env::args().collect();
    if args.get(1).map(|s| s == "worker").unwrap_or(false) {
        worker_main(&args);
        return;
    }
    let thorough = tier_is_thorough(&args);
    let tier = if thorough { "thorough" } else { "quick" };
    let seed = seed_from_env();
    let dir = out_dir(&args, "C02");
    let mut rng = Rng::new(seed);
    let mut st = Stats::new();
    let mut cw = CaseWriter::new(
        &dir,
        "From Coq Require Import ZArith List. Import ListNotations. Open Scope Z_scope.\nFrom FV Require Import Lib.Cases C02.Model.",
        "ccase",
        "check_case",
        400,
    );
    part_a(&mut rng, thorough, &mut st, &mut cw);
    let mut font_cases: Vec<(usize, String)> = vec![];
    run_workers(tier, thorough, &mut st, &mut font_cases);
    font_cases.sort();
    // heavy (million-step) run-loop cases go last, one per shard, so they evaluate in parallel
    let (heavy, light): (Vec<_>, Vec<_>) = font_cases.into_iter().partition(|(_, t)| t.starts_with("(*H*)"));
    for (_, t) in light {
        cw.push(t);
    }
    let nlight = cw.len();
    let pad = (400 - nlight % 400) % 400;
    for _ in 0..pad {
        cw.push("CaseDec [] []".into());
    }
    for (_, t) in heavy {
        cw.push(t);
        for _ in 0..399 {
            cw.push("CaseDec [] []".into());
        }
    }
    let shards = cw.finish();
    st.v.insert("shards".into(), shards.into());
    st.v.insert("model_cases".into(), (nlight as u64).into());
    st.write(&dir, "op sequences (boundary-rich operands around len/capacity, i32 extremes; capacities 0,1,2,3,8; both pedantic modes) against the real ValueStack/CallStack/Decycler; crafted fpgm/prep programs and composite graphs through the public API; totality search: every font of font-test-data x structure-aware mutations x public API surface in watchdogged sub-processes; non-trivial = at least one error/rejection outcome or a mutated font accepted by FontRef");
    println!("cases={} shards={} oracle_failures={}", cw.len(), shards, st.oracle_failures.len());
}
