//! C15 (float clauses) harness: runs font-types float conversions and write-fonts OtRound on
//! boundary-dense and random inputs and records (op, arg, result) with floats as IEEE bit patterns
//! for the Flocq model (coq/C15/FloatModel.v `check_case`); the implementation-only oracle checks
//! round-trip identity, exactness and nearest rounding directly.
use font_types::{F26Dot6, F2Dot14, F4Dot12, F6Dot10, Fixed};
use serde_json::json;
use vh::*;
use write_fonts::OtRound;

fn main() {
    silence_panics();
    let args: Vec<String> = std::env::args().collect();
    let thorough = tier_is_thorough(&args);
    let mut rng = Rng::new(seed_from_env() ^ 0xF10A7);
    let dir = out_dir(&args, "C15F");
    let mut st = Stats::new();
    let mut cw = CaseWriter::new(
        &dir,
        "From Coq Require Import ZArith List. Import ListNotations. Open Scope Z_scope.\nFrom FV Require Import Lib.Cases C15.FloatModel.",
        "Z * Z * Z",
        "check_case",
        250,
    );
    let push = |cw: &mut CaseWriter, st: &mut Stats, op: i64, a: i128, r: i128| {
        st.evaluations += 1;
        st.count(&format!("op{}", op));
        st.nontrivial(&format!("{} {}", op, a));
        st.sample(json!({"op": op, "arg": a.to_string(), "impl": r.to_string()}));
        cw.push(format!("({}, {}, {})", op, cz(a), cz(r)));
    };
    // ---- raw -> float (ops 1,3,5,7,9) and round trip oracle
    let mut raws32: Vec<i32> = boundary_i32().into_iter().step_by(if thorough { 1 } else { 3 }).collect();
    for _ in 0..(if thorough { 600 } else { 150 }) {
        raws32.push(rng.next_u32() as i32);
    }
    for &x in &raws32 {
        let f = Fixed::from_bits(x).to_f64();
        push(&mut cw, &mut st, 1, x as i128, f.to_bits() as i128);
        if Fixed::from_f64(f).to_bits() != x || f != x as f64 / 65536.0 {
            st.oracle_failure(json!({"key": format!("fixed-f64-roundtrip:{}", x), "raw": x}));
        }
        let g = F26Dot6::from_bits(x).to_f64();
        push(&mut cw, &mut st, 3, x as i128, g.to_bits() as i128);
        if F26Dot6::from_f64(g).to_bits() != x || g != x as f64 / 64.0 {
            st.oracle_failure(json!({"key": format!("f26dot6-f64-roundtrip:{}", x), "raw": x}));
        }
    }
    let mut raws16: Vec<i16> = vec![];
    for k in 0..16 {
        for d in -2i32..=2 {
            for s in [-1i32, 1] {
                let v = s * (1 << k) + d;
                if (-32768..=32767).contains(&v) {
                    raws16.push(v as i16);
                }
            }
        }
    }
    raws16.extend([i16::MIN, i16::MAX, 0]);
    for _ in 0..(if thorough { 400 } else { 60 }) {
        raws16.push(rng.next_u32() as i16);
    }
    raws16.sort();
    raws16.dedup();
    for &x in &raws16 {
        let a = F2Dot14::from_bits(x).to_f32();
        push(&mut cw, &mut st, 5, x as i128, a.to_bits() as i128);
        let b = F4Dot12::from_bits(x).to_f32();
        push(&mut cw, &mut st, 7, x as i128, b.to_bits() as i128);
        let c = F6Dot10::from_bits(x).to_f32();
        push(&mut cw, &mut st, 9, x as i128, c.to_bits() as i128);
    }
    // exhaustive 16-bit round trip + exactness (implementation only)
    for x in i16::MIN..=i16::MAX {
        st.evaluations += 3;
        if F2Dot14::from_f32(F2Dot14::from_bits(x).to_f32()).to_bits() != x
            || F2Dot14::from_bits(x).to_f32() as f64 != x as f64 / 16384.0
        {
            st.oracle_failure(json!({"key": format!("f2dot14-f32-roundtrip:{}", x)}));
        }
        if F4Dot12::from_f32(F4Dot12::from_bits(x).to_f32()).to_bits() != x
            || F4Dot12::from_bits(x).to_f32() as f64 != x as f64 / 4096.0
        {
            st.oracle_failure(json!({"key": format!("f4dot12-f32-roundtrip:{}", x)}));
        }
        if F6Dot10::from_f32(F6Dot10::from_bits(x).to_f32()).to_bits() != x
            || F6Dot10::from_bits(x).to_f32() as f64 != x as f64 / 1024.0
        {
            st.oracle_failure(json!({"key": format!("f6dot10-f32-roundtrip:{}", x)}));
        }
    }
    st.count("exhaustive_16bit_roundtrips");
    // ---- float -> raw (ops 2,4,6,8,10) on arbitrary floats
    let mut f64s: Vec<f64> = vec![
        0.0, -0.0, 0.5, -0.5, 1.0, -1.0, f64::NAN, f64::INFINITY, f64::NEG_INFINITY, f64::MIN_POSITIVE,
        5e-324, -5e-324, 32767.99999, 32768.0, -32768.0, -32768.00001, 1e10, -1e10, 1e300, -1e300,
        f64::from_bits(0x3EDFFFFFFFFFFFFF), // F-3 knife edge 0.49999999999999994/65536
        -f64::from_bits(0x3EDFFFFFFFFFFFFF),
        0.49999999999999994 / 64.0,
        1.5 / 65536.0, 2.5 / 65536.0, -1.5 / 65536.0, -2.5 / 65536.0, 0.5 / 65536.0, -0.5 / 65536.0,
    ];
    for &x in raws32.iter().take(if thorough { 400 } else { 120 }) {
        let base = x as f64 / 65536.0;
        for ulp in [-0.5f64, -0.49, -0.3, 0.0, 0.3, 0.49, 0.5] {
            f64s.push(base + ulp / 65536.0);
        }
        f64s.push(f64::from_bits((base.to_bits()).wrapping_add(1)));
        f64s.push(f64::from_bits((base.to_bits()).wrapping_sub(1)));
    }
    for _ in 0..(if thorough { 400 } else { 100 }) {
        f64s.push(f64::from_bits(rng.next_u64()));
        f64s.push((rng.next_u32() as i32) as f64 / 65536.0 + (rng.below(1000) as f64 - 500.0) / 65536000.0);
    }
    for &v in &f64s {
        let r = Fixed::from_f64(v).to_bits();
        push(&mut cw, &mut st, 2, v.to_bits() as i128, r as i128);
        let r6 = F26Dot6::from_f64(v).to_bits();
        push(&mut cw, &mut st, 4, v.to_bits() as i128, r6 as i128);
        // nearest oracle (exact: v * 65536 is exact in f64 unless overflow; compare with round-half-away
        // computed on the exact value, ties excluded)
        for (scale, got, name) in [(65536.0f64, r as f64, "fixed"), (64.0, r6 as f64, "f26dot6")] {
            let y = v * scale;
            if y.is_finite() && y.abs() < 2147483000.0 {
                let fl = y.floor();
                let frac = y - fl; // exact for |y| < 2^52
                let tie = frac == 0.5;
                if !tie {
                    let nearest = if frac < 0.5 { fl } else { fl + 1.0 };
                    if got != nearest {
                        let key = if v.abs().to_bits() == 0x3EDFFFFFFFFFFFFF && name == "fixed" {
                            "F-3:from_f64-knife-edge-0.49999999999999994".to_string()
                        } else if y.abs() == 0.49999999999999994 {
                            format!("F-3:{}-from_f64-knife-edge", name)
                        } else {
                            format!("{}-from_f64-not-nearest:{:016x}", name, v.to_bits())
                        };
                        st.oracle_failure(json!({"key": key, "v_bits": format!("{:016x}", v.to_bits()), "y": y, "got": got, "nearest": nearest}));
                    }
                }
            }
        }
    }
    let mut f32s: Vec<f32> = vec![0.0, -0.0, 0.5, -0.5, 1.0, -1.0, 1.99993896484375, 2.0, -2.0, -2.1, 7.9, 8.0, 31.9, 32.0, f32::NAN, f32::INFINITY, f32::NEG_INFINITY, 1e30, -1e30, f32::MIN_POSITIVE, 0.49999997 / 16384.0];
    for &x in raws16.iter().take(200) {
        for (sc, _) in [(16384.0f32, 0), (4096.0, 0), (1024.0, 0)] {
            let b = x as f32 / sc;
            f32s.push(b);
            f32s.push(b + 0.3 / sc);
            f32s.push(b - 0.3 / sc);
            f32s.push(f32::from_bits(b.to_bits().wrapping_add(1)));
        }
    }
    for _ in 0..(if thorough { 300 } else { 60 }) {
        f32s.push(f32::from_bits(rng.next_u32()));
    }
    for &v in &f32s {
        push(&mut cw, &mut st, 6, v.to_bits() as i128, F2Dot14::from_f32(v).to_bits() as i128);
        push(&mut cw, &mut st, 8, v.to_bits() as i128, F4Dot12::from_f32(v).to_bits() as i128);
        push(&mut cw, &mut st, 10, v.to_bits() as i128, F6Dot10::from_f32(v).to_bits() as i128);
    }
    // ---- OtRound (ops 11..16)
    let mut ots: Vec<f64> = vec![0.0, -0.0, 0.5, -0.5, 1.5, -1.5, 2.5, -2.5, 0.49999999999999994, -0.49999999999999994, 0.49999997019767761, -0.49999997019767761, 0.24999999999999997, 8388609.0, 8388607.5, 8388606.5, 4503599627370495.5, 32767.4, 32767.5, 32768.0, -32768.5, -32769.0, 65535.4, 65535.5, 70000.0, -1.0, f64::NAN, f64::INFINITY, f64::NEG_INFINITY, 1e300, 4503599627370497.0];
    for _ in 0..(if thorough { 300 } else { 80 }) {
        ots.push((rng.range(-70000, 70000) as f64) + [0.0, 0.25, 0.5, 0.75][rng.below(4) as usize]);
        ots.push(f64::from_bits(rng.next_u64()));
    }
    for &v in &ots {
        let r: f64 = v.ot_round();
        push(&mut cw, &mut st, 11, v.to_bits() as i128, r.to_bits() as i128);
        let r16: i16 = v.ot_round();
        push(&mut cw, &mut st, 12, v.to_bits() as i128, r16 as i128);
        let ru16: u16 = v.ot_round();
        push(&mut cw, &mut st, 13, v.to_bits() as i128, ru16 as i128);
        let w = v as f32;
        let rf: f32 = w.ot_round();
        push(&mut cw, &mut st, 14, w.to_bits() as i128, rf.to_bits() as i128);
        let rf16: i16 = w.ot_round();
        push(&mut cw, &mut st, 15, w.to_bits() as i128, rf16 as i128);
        let rfu16: u16 = w.ot_round();
        push(&mut cw, &mut st, 16, w.to_bits() as i128, rfu16 as i128);
        // exact half-up oracle: floor(v + 1/2) computed without the rounding of `v + 0.5`
        // (fl = floor(v) and v - fl are exact; the answer is fl or fl + 1)
        for (name, x, got, lim) in [("f64", v, r, 9007199254740992.0f64), ("f32", w as f64, rf as f64, 16777216.0f64)] {
            if !x.is_finite() || x.abs() >= lim {
                continue;
            }
            let fl = x.floor();
            let frac = x - fl;
            let exact = if frac >= 0.5 { fl + 1.0 } else { fl };
            if got != exact {
                let key = if x > 0.0 && x < 0.5 {
                    format!("F-25:ot_round-{}-pred-half", name)
                } else if frac == 0.0 && x.abs() >= lim / 2.0 {
                    format!("F-25:ot_round-{}-odd-integer-above-2^(prec-1)", name)
                } else {
                    format!("ot_round-{}-not-half-up:{:016x}", name, x.to_bits())
                };
                st.oracle_failure(json!({"key": key, "x": x, "got": got, "exact": exact}));
            }
        }
        // i16 / u16 forms saturate the same exact value
        if v.is_finite() && v.abs() < 4.0e15 && !(v > 0.0 && v < 0.5) {
            let fl = v.floor();
            let exact = if v - fl >= 0.5 { fl + 1.0 } else { fl };
            if (r16 as f64) != exact.clamp(-32768.0, 32767.0) || (ru16 as f64) != exact.clamp(0.0, 65535.0) {
                st.oracle_failure(json!({"key": format!("ot_round-f64-int-not-half-up:{:016x}", v.to_bits())}));
            }
        }
    }
    // kurbo Point / Vec2 forms must agree with the scalar f64 forms component-wise (and so with the model)
    {
        let mut comps: Vec<f64> = vec![0.0, -0.0, 0.5, -0.5, 1.5, -1.5, 2.5, -2.5, -3.5, 0.25, -0.25, 0.75, -0.75, 32767.5, -32768.5, 32767.49, -32768.51, 65535.5, 1e9, -1e9];
        for _ in 0..200 {
            comps.push((rng.range(-40000, 40000) as f64) + [0.0, 0.25, 0.5, 0.75][rng.below(4) as usize]);
        }
        for (i, &x) in comps.iter().enumerate() {
            let y = comps[(i * 7 + 3) % comps.len()];
            st.evaluations += 1;
            let p: (i16, i16) = kurbo::Point::new(x, y).ot_round();
            let (ex, ey): (i16, i16) = (x.ot_round(), y.ot_round());
            if p != (ex, ey) {
                st.oracle_failure(json!({"key": format!("ot_round-Point-differs-from-scalar:{:016x}:{:016x}", x.to_bits(), y.to_bits()), "x": x, "y": y, "got": [p.0, p.1], "scalar": [ex, ey]}));
            }
            let v: kurbo::Vec2 = kurbo::Vec2::new(x, y).ot_round();
            let (fx, fy): (f64, f64) = (x.ot_round(), y.ot_round());
            if v.x.to_bits() != fx.to_bits() || v.y.to_bits() != fy.to_bits() {
                st.oracle_failure(json!({"key": format!("ot_round-Vec2-differs-from-scalar:{:016x}:{:016x}", x.to_bits(), y.to_bits()), "x": x, "y": y, "got": [v.x, v.y], "scalar": [fx, fy]}));
            }
        }
        st.count("ot_round_kurbo");
    }
    let shards = cw.finish();
    st.v.insert("shards".into(), shards.into());
    st.v.insert("model_cases".into(), cw.len().into());
    st.write(&dir, "float conversions on boundary-dense raw values (0, +-2^k +-d, MIN, MAX), +-0.5/0.49/0.3-ulp neighbours of k/2^f, special values (NaN, inf, subnormals, huge), random bit patterns; compared bit-exactly with the Flocq model; all 65536 values of the three 16-bit types round-tripped on the implementation");
    println!("cases={} shards={} oracle_failures={}", cw.len(), shards, st.oracle_failures.len());
}
