use read_fonts::FontRead;
use vh::*;
use write_fonts::tables::glyf::{Bbox, Contour, SimpleGlyph};
use read_fonts::tables::glyf::CurvePoint;
fn main() {
    silence_panics();
    for n in [255usize, 256, 257, 600] {
        let pts: Vec<CurvePoint> = (0..n).map(|i| CurvePoint::new(i as i16 + 1, 0, true)).collect();
        let g = SimpleGlyph { bbox: Bbox::default(), contours: vec![Contour::from(pts.clone())], instructions: vec![] };
        let bytes = write_fonts::dump_table(&g).unwrap();
        let r = catch(move || {
            let rg = read_fonts::tables::glyf::SimpleGlyph::read(bytes.as_slice().into()).unwrap();
            rg.points().collect::<Vec<_>>()
        });
        println!("{} -> {:?}", n, r.map(|v| v == pts));
    }
}
