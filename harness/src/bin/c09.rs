//! C09 harness: glyf/loca writer (write-fonts) vs reader (read-fonts) vs drawing (skrifa).
//!
//! Case kinds written for the Coq model (coq/C09/Model.v `eval_case`):
//!   1 simple glyph  -> dump_table bytes + Glyph::read view of those bytes
//!   2 arbitrary (mutated / random) bytes -> Glyph::read view
//!   3 composite glyph -> bytes + view
//!   4 Loca::new(offsets) -> format, bytes, get_raw of every index
//!   5 glyph sequence -> GlyfLocaBuilder -> glyf, format, loca, get_glyf slice of every gid
//! plus implementation-only oracles: decode(real encode(g)) == g, encoded length <= an independently
//! computed canonical length, builder glyph i == i-th added glyph, unscaled skrifa drawing of a
//! glyph built from a line/quad BezPath is geometrically that path.
use read_fonts::tables::glyf as rg;
use read_fonts::tables::glyf::CurvePoint;
use read_fonts::types::{F2Dot14, GlyphId, GlyphId16};
use read_fonts::{FontData, FontRead, FontRef, TableProvider};
use serde_json::json;
use vh::*;
use write_fonts::tables::glyf::{
    Anchor, Bbox, Component, ComponentFlags, CompositeGlyph, Contour, GlyfLocaBuilder, Glyph, SimpleGlyph, Transform,
};
use write_fonts::tables::loca::{Loca, LocaFormat};

type Pt = (i16, i16, bool);

#[derive(Clone, Debug)]
struct SG {
    bbox: [i16; 4],
    contours: Vec<Vec<Pt>>,
    instr: Vec<u8>,
}
#[derive(Clone, Debug, PartialEq)]
struct Comp {
    gid: u16,
    akind: u8, // 0 offset, 1 point
    a: i32,
    b: i32,
    uflags: u8, // bits: round, use_my_metrics, scaled, unscaled, overlap
    tr: [i16; 4],
}
#[derive(Clone, Debug)]
struct CG {
    bbox: [i16; 4],
    comps: Vec<Comp>,
    instr: Vec<u8>,
}
#[derive(Clone, Debug)]
enum G {
    Empty,
    Simple(SG),
    Comp(CG),
}

fn bbox(b: [i16; 4]) -> Bbox {
    Bbox { x_min: b[0], y_min: b[1], x_max: b[2], y_max: b[3] }
}
fn to_simple(g: &SG) -> SimpleGlyph {
    SimpleGlyph {
        bbox: bbox(g.bbox),
        contours: g
            .contours
            .iter()
            .map(|c| Contour::from(c.iter().map(|p| CurvePoint::new(p.0, p.1, p.2)).collect::<Vec<_>>()))
            .collect(),
        instructions: g.instr.clone(),
    }
}
fn to_component(c: &Comp) -> Component {
    let anchor = if c.akind == 0 {
        Anchor::Offset { x: c.a as i16, y: c.b as i16 }
    } else {
        Anchor::Point { base: c.a as u16, component: c.b as u16 }
    };
    let f = ComponentFlags {
        round_xy_to_grid: c.uflags & 1 != 0,
        use_my_metrics: c.uflags & 2 != 0,
        scaled_component_offset: c.uflags & 4 != 0,
        unscaled_component_offset: c.uflags & 8 != 0,
        overlap_compound: c.uflags & 16 != 0,
    };
    let t = Transform {
        xx: F2Dot14::from_bits(c.tr[0]),
        yx: F2Dot14::from_bits(c.tr[1]),
        xy: F2Dot14::from_bits(c.tr[2]),
        yy: F2Dot14::from_bits(c.tr[3]),
    };
    Component::new(GlyphId16::new(c.gid), anchor, t, f)
}
/// Builds the write-fonts composite. `_instructions` is private, so a composite with instructions
/// can only be obtained by reading one: we compile the instruction-less glyph, patch the bytes by
/// hand (WE_HAVE_INSTRUCTIONS on the last component + length + bytes) and read that back.
fn to_composite(g: &CG) -> Result<CompositeGlyph, String> {
    let mut it = g.comps.iter();
    let first = it.next().ok_or("no components")?;
    let mut cg = CompositeGlyph::new(to_component(first), bbox(g.bbox));
    for c in it {
        cg.add_component(to_component(c), bbox(g.bbox));
    }
    cg.bbox = bbox(g.bbox);
    if g.instr.is_empty() {
        return Ok(cg);
    }
    let mut bytes = write_fonts::dump_table(&cg).map_err(|e| format!("{e:?}"))?;
    // find the last component's flag word by walking the components
    let mut pos = 10usize;
    loop {
        let fl = u16::from_be_bytes([bytes[pos], bytes[pos + 1]]);
        let mut n = 4 + if fl & 1 != 0 { 4 } else { 2 };
        if fl & 0x8 != 0 {
            n += 2
        } else if fl & 0x40 != 0 {
            n += 4
        } else if fl & 0x80 != 0 {
            n += 8
        }
        if fl & 0x20 == 0 {
            bytes[pos] |= 0x01; // 0x0100 WE_HAVE_INSTRUCTIONS
            bytes.truncate(pos + n);
            break;
        }
        pos += n;
    }
    bytes.extend_from_slice(&(g.instr.len() as u16).to_be_bytes());
    bytes.extend_from_slice(&g.instr);
    CompositeGlyph::read(FontData::new(&bytes)).map_err(|e| format!("{e:?}"))
}

// ---------- Coq printing: chunked lists ----------
fn chunks(v: &[i128]) -> String {
    let mut out: Vec<String> = vec![];
    let mut lit: Vec<i128> = vec![];
    let mut i = 0;
    while i < v.len() {
        let mut j = i;
        while j < v.len() && v[j] == v[i] {
            j += 1;
        }
        if j - i >= 8 {
            if !lit.is_empty() {
                out.push(format!("B {}", czlist(lit.drain(..))));
            }
            out.push(format!("R {} {}", j - i, cz(v[i])));
        } else {
            lit.extend_from_slice(&v[i..j]);
        }
        i = j;
    }
    if !lit.is_empty() {
        out.push(format!("B {}", czlist(lit.drain(..))));
    }
    format!("[{}]", out.join("; "))
}
fn zll(v: &[Vec<i128>]) -> String {
    format!("[{}]", v.iter().map(|l| chunks(l)).collect::<Vec<_>>().join("; "))
}
fn b2z(b: &[u8]) -> Vec<i128> {
    b.iter().map(|x| *x as i128).collect()
}

// ---------- input serialisation (mirrors mk_simple / mk_composite in Model.v) ----------
fn ser_simple_in(g: &SG) -> Vec<Vec<i128>> {
    let mut dxs = vec![];
    let mut dys = vec![];
    let mut ons = vec![];
    let (mut lx, mut ly) = (0i128, 0i128);
    for c in &g.contours {
        for p in c {
            dxs.push(p.0 as i128 - lx);
            dys.push(p.1 as i128 - ly);
            ons.push(p.2 as i128);
            lx = p.0 as i128;
            ly = p.1 as i128;
        }
    }
    vec![
        g.bbox.iter().map(|v| *v as i128).collect(),
        g.contours.iter().map(|c| c.len() as i128).collect(),
        dxs,
        dys,
        ons,
        b2z(&g.instr),
    ]
}
fn ser_comp_in(g: &CG) -> Vec<Vec<i128>> {
    let mut cs = vec![];
    for c in &g.comps {
        cs.extend_from_slice(&[c.gid as i128, c.akind as i128, c.a as i128, c.b as i128, c.uflags as i128]);
        cs.extend(c.tr.iter().map(|v| *v as i128));
    }
    vec![g.bbox.iter().map(|v| *v as i128).collect(), cs, b2z(&g.instr)]
}

// ---------- read_points_fast on the real code (mirrors ser_fast_glyph / dirty_flags in Model.v) ----------
fn dirty_flag(bits: u8) -> rg::PointFlags {
    // every bit except 0x40 is reachable through the public API: from_bits keeps 0x81, markers give 0x3e
    let mut f = rg::PointFlags::from_bits(bits);
    for (m, mk) in [
        (0x02u8, rg::PointMarker::WEAK_INTERPOLATION),
        (0x04, rg::PointMarker::HAS_DELTA),
        (0x08, rg::PointMarker::NEAR),
        (0x10, rg::PointMarker::TOUCHED_X),
        (0x20, rg::PointMarker::TOUCHED_Y),
    ] {
        if bits & m != 0 {
            f.set_marker(mk);
        }
    }
    f
}
fn fast_tag(r: &Result<Result<(), read_fonts::ReadError>, String>) -> i128 {
    match r {
        Err(_) => 0,
        Ok(Ok(())) => 4,
        Ok(Err(read_fonts::ReadError::InvalidArrayLen)) => 1,
        Ok(Err(read_fonts::ReadError::OutOfBounds)) => 2,
        Ok(Err(_)) => 3,
    }
}
fn ser_fast_glyph(s: &rg::SimpleGlyph, total_len: usize) -> Vec<Vec<i128>> {
    const PAT: [u8; 5] = [0, 54, 18, 36, 191];
    let n = s.num_points();
    let fl0: Vec<rg::PointFlags> = (0..n).map(|i| dirty_flag(PAT[(i + total_len) % 5])).collect();
    // garbage in the points slice too: the result must not depend on it
    let mut p32 = vec![read_fonts::types::Point::<i32>::new(0x5a5a5a5a, -77); n];
    let mut fl = fl0.clone();
    let s2 = s.clone();
    let r = catch(move || {
        let r = s2.read_points_fast(&mut p32, &mut fl);
        (r, p32, fl)
    });
    let (tag, pts) = match r {
        Err(e) => (fast_tag(&Err(e)), None),
        Ok((r, p, f)) => {
            let ok = r.is_ok();
            (fast_tag(&Ok(r)), if ok { Some((p, f)) } else { None })
        }
    };
    let (mut dxs, mut dys, mut fs) = (vec![], vec![], vec![]);
    if let Some((p, f)) = pts {
        let (mut lx, mut ly) = (0i128, 0i128);
        for (pt, fl) in p.iter().zip(&f) {
            dxs.push(pt.x as i128 - lx);
            dys.push(pt.y as i128 - ly);
            lx = pt.x as i128;
            ly = pt.y as i128;
            // all 8 bits of the flag byte as the public API shows them
            let mut bits = 0i128;
            if fl.is_on_curve() {
                bits |= 1;
            }
            if fl.is_off_curve_cubic() {
                bits |= 0x80;
            }
            for (m, mk) in [
                (0x02i128, rg::PointMarker::WEAK_INTERPOLATION),
                (0x04, rg::PointMarker::HAS_DELTA),
                (0x08, rg::PointMarker::NEAR),
                (0x10, rg::PointMarker::TOUCHED_X),
                (0x20, rg::PointMarker::TOUCHED_Y),
            ] {
                if fl.has_marker(mk) {
                    bits |= m;
                }
            }
            fs.push(bits);
        }
    }
    // wrong output slice length
    let mut p_bad = vec![read_fonts::types::Point::<i32>::default(); n + 1];
    let mut fl_bad = fl0.clone();
    let s3 = s.clone();
    let r2 = catch(move || s3.read_points_fast(&mut p_bad, &mut fl_bad));
    vec![vec![tag], dxs, dys, fs, vec![fast_tag(&r2)]]
}

// ---------- the read-fonts view of a byte string (mirrors ser_decode in Model.v) ----------
fn ser_decode(bytes: &[u8]) -> Vec<Vec<i128>> {
    let b = bytes.to_vec();
    let r = catch(move || {
        let g = match rg::Glyph::read(FontData::new(&b)) {
            Ok(g) => g,
            Err(_) => return vec![vec![1]],
        };
        match g {
            rg::Glyph::Simple(s) => {
                let mut hdr = vec![s.number_of_contours() as i128];
                hdr.extend([s.x_min(), s.y_min(), s.x_max(), s.y_max()].iter().map(|v| *v as i128));
                let ends: Vec<i128> = s.end_pts_of_contours().iter().map(|e| e.get() as i128).collect();
                let ins = b2z(s.instructions());
                let s2 = s.clone();
                match catch(move || s2.points().collect::<Vec<_>>()) {
                    Err(_) => vec![vec![2], hdr, ends, ins, vec![0], vec![], vec![], vec![]],
                    Ok(pts) => {
                        let (mut dxs, mut dys, mut ons) = (vec![], vec![], vec![]);
                        let (mut lx, mut ly) = (0i128, 0i128);
                        for p in pts {
                            dxs.push(p.x as i128 - lx);
                            dys.push(p.y as i128 - ly);
                            ons.push(p.on_curve as i128);
                            lx = p.x as i128;
                            ly = p.y as i128;
                        }
                        let mut v = vec![vec![2], hdr, ends, ins, vec![1], dxs, dys, ons];
                        v.extend(ser_fast_glyph(&s, b.len()));
                        v
                    }
                }
            }
            rg::Glyph::Composite(c) => {
                let bb: Vec<i128> = [c.x_min(), c.y_min(), c.x_max(), c.y_max()].iter().map(|v| *v as i128).collect();
                let mut cs = vec![];
                for comp in c.components() {
                    cs.push(comp.flags.bits() as i128);
                    cs.push(comp.glyph.to_u16() as i128);
                    match comp.anchor {
                        rg::Anchor::Offset { x, y } => cs.extend([0, x as i128, y as i128]),
                        rg::Anchor::Point { base, component } => cs.extend([1, base as i128, component as i128]),
                    }
                    let t = comp.transform;
                    cs.extend([t.xx, t.yx, t.xy, t.yy].iter().map(|v| v.to_bits() as i128));
                }
                match c.instructions() {
                    None => vec![vec![3], bb, cs, vec![0], vec![]],
                    Some(i) => vec![vec![3], bb, cs, vec![1], b2z(i)],
                }
            }
        }
    });
    r.unwrap_or_else(|_| vec![vec![0]])
}

fn ser_enc(res: &Result<Result<Vec<u8>, String>, String>) -> Vec<Vec<i128>> {
    match res {
        Err(_) => vec![vec![0]],
        Ok(Err(_)) => vec![vec![2]],
        Ok(Ok(b)) if b.is_empty() => vec![vec![1], vec![]],
        Ok(Ok(b)) => {
            let mut v = vec![vec![1], b2z(b)];
            v.extend(ser_decode(b));
            v
        }
    }
}

// ---------- independent canonical-length computation (oracle) ----------
fn canon_coord_len(d: i32) -> usize {
    if d == 0 {
        0
    } else if d.abs() <= 255 {
        1
    } else {
        2
    }
}
fn canon_flag(dx: i32, dy: i32, on: bool) -> u8 {
    let mut f = on as u8;
    f |= if dx == 0 {
        0x10
    } else if dx.abs() <= 255 {
        0x02 | if dx > 0 { 0x10 } else { 0 }
    } else {
        0
    };
    f |= if dy == 0 {
        0x20
    } else if dy.abs() <= 255 {
        0x04 | if dy > 0 { 0x20 } else { 0 }
    } else {
        0
    };
    f
}
/// shortest flags+coordinate encoding: per coordinate the shortest representable form, per maximal
/// run of k identical flags 2*(k/256) + min(2, k%256) bytes.
fn canonical_len(g: &SG) -> usize {
    let nc = g.contours.len();
    if nc == 0 {
        return 0;
    }
    let mut n = 10 + 2 * nc + 2 + g.instr.len();
    let (mut lx, mut ly) = (0i32, 0i32);
    let mut flags = vec![];
    for c in &g.contours {
        for p in c {
            let (dx, dy) = (p.0 as i32 - lx, p.1 as i32 - ly);
            n += canon_coord_len(dx) + canon_coord_len(dy);
            flags.push(canon_flag(dx, dy, p.2));
            lx = p.0 as i32;
            ly = p.1 as i32;
        }
    }
    let mut i = 0;
    while i < flags.len() {
        let mut j = i;
        while j < flags.len() && flags[j] == flags[i] {
            j += 1;
        }
        let k = j - i;
        n += 2 * (k / 256) + (k % 256).min(2);
        i = j;
    }
    n + (n & 1)
}

/// inputs the writer must accept (anything else may legitimately panic in the checked profile)
fn expected_accept(g: &SG) -> bool {
    if g.contours.len() >= i16::MAX as usize || g.instr.len() >= u16::MAX as usize {
        return false;
    }
    let mut cur = 0usize;
    for c in &g.contours {
        cur += c.len();
        if cur == 0 || cur > 65535 {
            return false;
        }
    }
    let (mut lx, mut ly) = (0i32, 0i32);
    for c in &g.contours {
        for p in c {
            let (dx, dy) = (p.0 as i32 - lx, p.1 as i32 - ly);
            if !(-32768..=32767).contains(&dx) || !(-32768..=32767).contains(&dy) {
                return false;
            }
            lx = p.0 as i32;
            ly = p.1 as i32;
        }
    }
    true
}

/// decode(real encode(g)) == g, directly on the implementation. Returns a description on failure.
fn oracle_simple_bytes(g: &SG, bytes: &[u8]) -> Option<String> {
    if g.contours.is_empty() {
        return (!bytes.is_empty()).then(|| "glyph without contours wrote bytes".to_string());
    }
    if bytes.len() % 2 != 0 {
        return Some("odd length".into());
    }
    let b = bytes.to_vec();
    let g2 = g.clone();
    let r = catch(move || -> Option<String> {
        let s = match rg::Glyph::read(FontData::new(&b)) {
            Ok(rg::Glyph::Simple(s)) => s,
            Ok(_) => return Some("read back as composite".into()),
            Err(e) => return Some(format!("read error {e:?}")),
        };
        if s.number_of_contours() as usize != g2.contours.len() {
            return Some("contour count differs".into());
        }
        if [s.x_min(), s.y_min(), s.x_max(), s.y_max()] != g2.bbox {
            return Some("bbox differs".into());
        }
        let mut cur = 0usize;
        let ends: Vec<u16> = g2
            .contours
            .iter()
            .map(|c| {
                cur += c.len();
                (cur - 1) as u16
            })
            .collect();
        let rends: Vec<u16> = s.end_pts_of_contours().iter().map(|e| e.get()).collect();
        if ends != rends {
            return Some("end points differ".into());
        }
        if s.instructions() != g2.instr.as_slice() {
            return Some("instructions differ".into());
        }
        let flat: Vec<Pt> = g2.contours.iter().flatten().cloned().collect();
        let pts: Vec<Pt> = s.points().map(|p| (p.x, p.y, p.on_curve)).collect();
        if pts != flat {
            return Some(format!("points() differ ({} vs {})", pts.len(), flat.len()));
        }
        // the reader skrifa uses
        let n = s.num_points();
        let mut p32 = vec![read_fonts::types::Point::<i32>::default(); n];
        let mut fl = vec![rg::PointFlags::default(); n];
        if let Err(e) = s.read_points_fast(&mut p32, &mut fl) {
            return Some(format!("read_points_fast error {e:?}"));
        }
        let fast: Vec<Pt> = p32.iter().zip(&fl).map(|(p, f)| (p.x as i16, p.y as i16, f.is_on_curve())).collect();
        if fast != flat || p32.iter().any(|p| p.x != p.x as i16 as i32 || p.y != p.y as i16 as i32) {
            return Some("read_points_fast differs".into());
        }
        // write-fonts' own reader: whole-struct equality (contours split by end points)
        match SimpleGlyph::read(FontData::new(&b)) {
            Ok(w) => {
                if w != to_simple(&g2) {
                    return Some("write_fonts::SimpleGlyph::read(bytes) != glyph".into());
                }
            }
            Err(e) => return Some(format!("write-fonts read error {e:?}")),
        }
        None
    });
    match r {
        Ok(x) => x,
        Err(p) => Some(format!("reader panicked: {p}")),
    }
}

fn oracle_comp_bytes(g: &CG, bytes: &[u8]) -> Option<String> {
    if bytes.len() % 2 != 0 {
        return Some("odd length".into());
    }
    let b = bytes.to_vec();
    let g2 = g.clone();
    let r = catch(move || -> Option<String> {
        let c = match rg::Glyph::read(FontData::new(&b)) {
            Ok(rg::Glyph::Composite(c)) => c,
            Ok(_) => return Some("read back as simple".into()),
            Err(e) => return Some(format!("read error {e:?}")),
        };
        if [c.x_min(), c.y_min(), c.x_max(), c.y_max()] != g2.bbox {
            return Some("bbox differs".into());
        }
        let comps: Vec<rg::Component> = c.components().collect();
        if comps.len() != g2.comps.len() {
            return Some(format!("component count {} vs {}", comps.len(), g2.comps.len()));
        }
        for (i, (r, w)) in comps.iter().zip(&g2.comps).enumerate() {
            let wc = to_component(w);
            let last = i + 1 == g2.comps.len();
            if r.glyph != wc.glyph || r.anchor != wc.anchor || r.transform != wc.transform {
                return Some(format!("component {i} differs"));
            }
            if ComponentFlags::from(r.flags) != wc.flags {
                return Some(format!("component {i} user flags differ"));
            }
            if r.flags.contains(rg::CompositeGlyphFlags::MORE_COMPONENTS) == last {
                return Some(format!("component {i} MORE_COMPONENTS wrong"));
            }
        }
        let ins = c.instructions().unwrap_or_default();
        if ins != g2.instr.as_slice() {
            return Some("instructions differ".into());
        }
        if c.count_and_instructions().0 != g2.comps.len() {
            return Some("count_and_instructions count differs".into());
        }
        // minimal length: header + per component 4 + shortest anchor + shortest transform
        let mut n = 10;
        for w in &g2.comps {
            let two = if w.akind == 0 { !(-128..=127).contains(&w.a) || !(-128..=127).contains(&w.b) } else { w.a > 255 || w.b > 255 };
            n += 4 + if two { 4 } else { 2 };
            n += if w.tr[1] != 0 || w.tr[2] != 0 {
                8
            } else if w.tr[0] != w.tr[3] {
                4
            } else if w.tr[0] != 16384 {
                2
            } else {
                0
            };
        }
        if !g2.instr.is_empty() {
            n += 2 + g2.instr.len();
        }
        n += n & 1;
        if b.len() > n {
            return Some(format!("composite longer than canonical: {} > {}", b.len(), n));
        }
        None
    });
    match r {
        Ok(x) => x,
        Err(p) => Some(format!("reader panicked: {p}")),
    }
}

// ---------- generators ----------
fn pick_delta(rng: &mut Rng) -> i32 {
    let mag = match rng.below(14) {
        0 | 1 => 0,
        2 => 1,
        3 => rng.range(2, 254) as i32,
        4 => 254,
        5 => 255,
        6 => 256,
        7 => 257,
        8 => rng.range(258, 2000) as i32,
        9 => rng.range(2000, 32766) as i32,
        10 => 32767,
        11 => 32768,
        12 => rng.range(1, 30) as i32,
        _ => rng.range(32769, 65535) as i32, // not representable as an i16 difference
    };
    if rng.chance(1, 2) {
        -mag
    } else {
        mag
    }
}
fn gen_bbox(rng: &mut Rng) -> [i16; 4] {
    let mut b = [0i16; 4];
    for v in b.iter_mut() {
        *v = match rng.below(6) {
            0 => i16::MIN,
            1 => i16::MAX,
            2 => -1,
            3 => 0,
            _ => rng.range(-32768, 32767) as i16,
        };
    }
    b
}
fn gen_instr(rng: &mut Rng) -> Vec<u8> {
    match rng.below(5) {
        0 | 1 => vec![],
        2 => rng.bytes(1),
        3 => { let n = rng.range(1, 12) as usize; rng.bytes(n) },
        _ => vec![rng.next_u32() as u8; rng.range(8, 40) as usize],
    }
}
/// point sequence generator: deltas by class, clamped into the i16 range (out-of-range deltas
/// between in-range points are produced on purpose with low probability)
fn gen_simple(rng: &mut Rng, allow_bad: bool) -> SG {
    let nc = match rng.below(12) {
        0 => 0,
        1..=5 => 1,
        6..=8 => 2,
        9 => 3,
        10 => rng.range(4, 9) as usize,
        _ => rng.range(1, 3) as usize,
    };
    let mut contours = vec![];
    let (mut x, mut y) = (0i32, 0i32);
    for ci in 0..nc {
        let mut n = match rng.below(8) {
            0 => 1,
            1 => 2,
            2 | 3 => rng.range(3, 6) as usize,
            4 => rng.range(6, 14) as usize,
            _ => rng.range(1, 4) as usize,
        };
        if rng.chance(1, 40) && (ci > 0 || allow_bad) {
            n = 0; // empty contour: in the middle harmless, first = `0u16 - 1` trap
        }
        let mut c = vec![];
        let mut i = 0;
        while i < n {
            // a run of identical steps -> identical flags
            let run = match rng.below(10) {
                0 => 2,
                1 => 3,
                2 => rng.range(2, 5) as usize,
                _ => 1,
            };
            let mut dx = pick_delta(rng);
            let mut dy = pick_delta(rng);
            if !allow_bad || !rng.chance(1, 12) {
                // keep representable
                dx = dx.clamp(-32768, 32767);
                dy = dy.clamp(-32768, 32767);
            }
            let on = rng.chance(2, 3);
            for _ in 0..run.min(n - i) {
                let nx = (x + dx).clamp(-32768, 32767);
                let ny = (y + dy).clamp(-32768, 32767);
                // deltas that do not fit in i16 only arise from x,y at opposite ends
                c.push((nx as i16, ny as i16, on));
                x = nx;
                y = ny;
                i += 1;
            }
        }
        contours.push(c);
    }
    SG { bbox: gen_bbox(rng), contours, instr: gen_instr(rng) }
}
/// glyphs made of long runs of identical flags (run lengths around the 255/256 repeat cap)
fn gen_runs(rng: &mut Rng, lens: &[usize]) -> SG {
    let mut c = vec![];
    let (mut x, mut y) = (0i32, 0i32);
    let mut prev_kind = 99;
    for &k in lens {
        // step kinds chosen so that coordinates stay in range for thousands of points
        let mut kind = rng.below(6);
        if kind == prev_kind {
            kind = (kind + 1) % 6;
        }
        prev_kind = kind;
        let (dx, dy, on) = match kind {
            0 => (0, 0, true),
            1 => (1, 0, true),
            2 => (0, -1, false),
            3 => (if x > 0 { -3 } else { 3 }, 0, true),
            4 => (0, 0, false),
            _ => (1, 1, true),
        };
        for _ in 0..k {
            x = (x + dx).clamp(-32768, 32767);
            y = (y + dy).clamp(-32768, 32767);
            c.push((x as i16, y as i16, on));
        }
    }
    // split into 1..3 contours
    let mut contours = vec![];
    if c.len() > 4 && rng.chance(1, 2) {
        let cut = rng.range(1, c.len() as i64 - 1) as usize;
        let tail = c.split_off(cut);
        contours.push(c);
        contours.push(tail);
    } else {
        contours.push(c);
    }
    SG { bbox: gen_bbox(rng), contours, instr: if rng.chance(1, 3) { gen_instr(rng) } else { vec![] } }
}
fn gen_f2dot14(rng: &mut Rng) -> i16 {
    match rng.below(8) {
        0 => 16384,
        1 => 0,
        2 => -16384,
        3 => i16::MIN,
        4 => i16::MAX,
        5 => 8192,
        _ => rng.range(-32768, 32767) as i16,
    }
}
fn gen_comp(rng: &mut Rng) -> Comp {
    let akind = rng.below(2) as u8;
    let pick_off = |rng: &mut Rng| -> i32 {
        match rng.below(10) {
            0 => -128,
            1 => 127,
            2 => -129,
            3 => 128,
            4 => 0,
            5 => i16::MIN as i32,
            6 => i16::MAX as i32,
            7 => rng.range(-128, 127) as i32,
            _ => rng.range(-32768, 32767) as i32,
        }
    };
    let pick_pt = |rng: &mut Rng| -> i32 {
        match rng.below(7) {
            0 => 0,
            1 => 255,
            2 => 256,
            3 => 65535,
            4 => rng.range(0, 255) as i32,
            _ => rng.range(0, 65535) as i32,
        }
    };
    let (a, b) = if akind == 0 { (pick_off(rng), pick_off(rng)) } else { (pick_pt(rng), pick_pt(rng)) };
    let tr = match rng.below(8) {
        0 | 1 => [16384, 0, 0, 16384],
        2 => {
            let s = gen_f2dot14(rng);
            [s, 0, 0, s]
        }
        3 => [gen_f2dot14(rng), 0, 0, gen_f2dot14(rng)],
        4 => [gen_f2dot14(rng), gen_f2dot14(rng), gen_f2dot14(rng), gen_f2dot14(rng)],
        5 => [16384, gen_f2dot14(rng), 0, 16384],
        6 => [16384, 0, gen_f2dot14(rng), 16384],
        _ => [gen_f2dot14(rng), 0, 0, 16384],
    };
    Comp {
        gid: match rng.below(4) {
            0 => 0,
            1 => 65535,
            _ => rng.range(0, 65535) as u16,
        },
        akind,
        a,
        b,
        uflags: rng.below(32) as u8,
        tr,
    }
}
fn gen_composite(rng: &mut Rng) -> CG {
    let n = match rng.below(6) {
        0 | 1 => 1,
        2 | 3 => 2,
        4 => 3,
        _ => rng.range(4, 7) as usize,
    };
    CG {
        bbox: gen_bbox(rng),
        comps: (0..n).map(|_| gen_comp(rng)).collect(),
        instr: if rng.chance(1, 3) { gen_instr(rng) } else { vec![] },
    }
}

// ---------- running the real code ----------
fn dump_simple(g: &SG) -> Result<Result<Vec<u8>, String>, String> {
    let sg = to_simple(g);
    catch(move || write_fonts::dump_table(&sg).map_err(|e| format!("{e:?}")))
}
fn dump_composite(g: &CG) -> Result<Result<Vec<u8>, String>, String> {
    let g = g.clone();
    catch(move || {
        let cg = to_composite(&g)?;
        write_fonts::dump_table(&cg).map_err(|e| format!("{e:?}"))
    })
}

struct Ctx {
    st: Stats,
    cw: CaseWriter,
}
impl Ctx {
    fn push(&mut self, kind: i64, ins: &[Vec<i128>], outs: &[Vec<i128>]) {
        self.cw.push(format!("({}, {}, {})", kind, zll(ins), zll(outs)));
        self.st.count(&format!("kind{}", kind));
    }
    fn fail(&mut self, key: String, what: &str, detail: serde_json::Value) {
        self.st.oracle_failure(json!({"key": key, "what": what, "detail": detail}));
    }
}

fn simple_key(g: &SG) -> String {
    format!("simple-{:016x}", fnv(format!("{:?}", g).as_bytes()))
}

fn branch_counters(st: &mut Stats, g: &SG) {
    let (mut lx, mut ly) = (0i32, 0i32);
    for c in &g.contours {
        if c.is_empty() {
            st.count("br.empty_contour");
        }
        for p in c {
            for d in [p.0 as i32 - lx, p.1 as i32 - ly] {
                let k = match d {
                    0 => "br.delta_zero",
                    -255..=-1 => "br.delta_short_neg",
                    1..=255 => "br.delta_short_pos",
                    -32768..=-256 | 256..=32767 => "br.delta_long",
                    _ => "br.delta_overflow",
                };
                st.count(k);
                if d.abs() == 255 || d.abs() == 256 {
                    st.count("br.delta_at_short_long_boundary");
                }
            }
            lx = p.0 as i32;
            ly = p.1 as i32;
        }
    }
}

/// kind 1 + oracle
fn do_simple(cx: &mut Ctx, g: &SG, model: bool, special_key: Option<&str>) -> Option<Vec<u8>> {
    let res = dump_simple(g);
    cx.st.evaluations += 1;
    branch_counters(&mut cx.st, g);
    let key = special_key.map(|s| s.to_string()).unwrap_or_else(|| simple_key(g));
    let accept = expected_accept(g);
    let npts: usize = g.contours.iter().map(|c| c.len()).sum();
    if npts > 1 {
        cx.st.nontrivial(&format!("{:?}", g));
    }
    match &res {
        Err(p) => {
            cx.st.count("simple.writer_panic");
            if accept {
                cx.fail(key.clone(), "writer panicked on an acceptable simple glyph", json!({"panic": p, "glyph": format!("{:?}", g).chars().take(600).collect::<String>()}));
            }
        }
        Ok(Err(_)) => cx.st.count("simple.validation_error"),
        Ok(Ok(bytes)) => {
            cx.st.count(if accept { "simple.accepted" } else { "simple.unexpectedly_accepted" });
            // whatever the writer accepts must read back as written (also glyphs this harness expected
            // it to refuse)
            {
                if let Some(why) = oracle_simple_bytes(g, bytes) {
                    cx.fail(key.clone(), "decode(encode(simple glyph)) != glyph", json!({"why": why, "expected_to_be_accepted": accept, "glyph": format!("{:?}", g).chars().take(600).collect::<String>()}));
                }
                let canon = canonical_len(g);
                if bytes.len() > canon {
                    cx.fail(key.clone(), "encoded simple glyph longer than the canonical shortest encoding", json!({"len": bytes.len(), "canonical": canon}));
                } else if bytes.len() == canon {
                    cx.st.count("simple.len_equals_canonical");
                } else {
                    cx.st.count("simple.len_below_canonical");
                }
            }
        }
    }
    if model {
        cx.push(1, &ser_simple_in(g), &ser_enc(&res));
    }
    cx.st.sample(json!({"kind":"simple","contours":g.contours.len(),"points":npts,"bytes":res.as_ref().ok().and_then(|r| r.as_ref().ok()).map(|b| b.len())}));
    res.ok().and_then(|r| r.ok())
}

fn do_composite(cx: &mut Ctx, g: &CG, model: bool) -> Option<Vec<u8>> {
    let res = dump_composite(g);
    cx.st.evaluations += 1;
    cx.st.nontrivial(&format!("{:?}", g));
    let key = format!("composite-{:016x}", fnv(format!("{:?}", g).as_bytes()));
    for c in &g.comps {
        let two = if c.akind == 0 { !(-128..=127).contains(&c.a) || !(-128..=127).contains(&c.b) } else { c.a > 255 || c.b > 255 };
        cx.st.count(&format!("br.anchor_{}_{}", if c.akind == 0 { "offset" } else { "point" }, if two { "words" } else { "bytes" }));
        let t = if c.tr[1] != 0 || c.tr[2] != 0 { "2x2" } else if c.tr[0] != c.tr[3] { "xy_scale" } else if c.tr[0] != 16384 { "scale" } else { "identity" };
        cx.st.count(&format!("br.transform_{}", t));
    }
    if !g.instr.is_empty() {
        cx.st.count("br.composite_with_instructions");
    }
    match &res {
        Err(p) => cx.fail(key, "composite writer panicked", json!({"panic": p, "glyph": format!("{:?}", g)})),
        Ok(Err(e)) => cx.fail(key, "composite rejected", json!({"err": e, "glyph": format!("{:?}", g)})),
        Ok(Ok(bytes)) => {
            if let Some(why) = oracle_comp_bytes(g, bytes) {
                cx.fail(key, "decode(encode(composite glyph)) != glyph", json!({"why": why, "glyph": format!("{:?}", g)}));
            }
        }
    }
    if model {
        cx.push(3, &ser_comp_in(g), &ser_enc(&res));
    }
    res.ok().and_then(|r| r.ok())
}

/// Implementation-only comparison of the two real readers of a simple glyph (round 7):
/// points() (PointIter) against read_points_fast, the latter with a clean and with a dirty flags slice.
fn fast_observe(cx: &mut Ctx, bytes: &[u8]) {
    let b = bytes.to_vec();
    let r = catch(move || {
        let Ok(rg::Glyph::Simple(s)) = rg::Glyph::read(FontData::new(&b)) else { return None };
        let n = s.num_points();
        let pts: Vec<(i32, i32, bool)> = s.points().map(|p| (p.x as i32, p.y as i32, p.on_curve)).collect();
        let run = |fill: u8| {
            let mut p32 = vec![read_fonts::types::Point::<i32>::default(); n];
            let mut fl = vec![dirty_flag(fill); n];
            let r = s.read_points_fast(&mut p32, &mut fl);
            r.map(|_| p32.iter().zip(&fl).map(|(p, f)| (p.x, p.y, f.is_on_curve())).collect::<Vec<_>>())
        };
        Some((n, pts, run(0), run(54), run(48)))
    });
    let Ok(Some((n, pts, clean, dirty, dirty2))) = r else {
        cx.st.count("obs.fast.not_simple_or_panic");
        return;
    };
    cx.st.evaluations += 3;
    let same = |a: &Result<Vec<(i32, i32, bool)>, read_fonts::ReadError>, b: &Result<Vec<(i32, i32, bool)>, read_fonts::ReadError>| match (a, b) {
        (Ok(x), Ok(y)) => x == y,
        (Err(_), Err(_)) => true,
        _ => false,
    };
    let key = format!("fast-{:016x}", fnv(bytes));
    // ORACLE (since /repo 6f0a45e): the result must not depend on what the flags slice held before the call
    if !same(&clean, &dirty) || !same(&clean, &dirty2) {
        cx.st.count("obs.fast.result_depends_on_caller_flags");
        cx.fail(key.clone(), "read_points_fast result depends on the prior content of the caller's flags slice", json!({"bytes": bytes, "clean": format!("{clean:?}"), "dirty54": format!("{dirty:?}"), "dirty48": format!("{dirty2:?}")}));
    }
    match (&clean, pts.len() == n && n > 0) {
        (Ok(f), true) => {
            let narrowed: Vec<(i32, i32, bool)> = f.iter().map(|p| (p.0 as i16 as i32, p.1 as i16 as i32, p.2)).collect();
            if *f == pts {
                cx.st.count("obs.fast.equal_points");
            } else if narrowed == pts {
                cx.st.count("obs.fast.equal_points_after_i16_narrowing");
            } else {
                // ORACLE: where points() decodes, read_points_fast must give the same points up to i16 narrowing
                cx.st.count("obs.fast.OK_BUT_DIFFERS_FROM_POINTS");
                cx.fail(key.clone(), "read_points_fast Ok but != points() (even after i16 narrowing)", json!({"bytes": bytes, "points": format!("{pts:?}"), "fast": format!("{f:?}")}));
            }
        }
        (Err(e), true) => {
            // ORACLE: c09_read_points_fast_eq_points — it must succeed wherever points_impl does
            cx.st.count("obs.fast.ERR_WHERE_POINTS_DECODES");
            cx.fail(key.clone(), "read_points_fast Err where points() decodes", json!({"bytes": bytes, "points": format!("{pts:?}"), "err": format!("{e:?}")}));
        }
        (Ok(_), false) => cx.st.count("obs.fast.ok_where_points_empty"),
        (Err(_), false) => cx.st.count("obs.fast.err_where_points_empty"),
    }
}

fn do_decode(cx: &mut Ctx, bytes: &[u8]) {
    cx.st.evaluations += 1;
    let out = ser_decode(bytes);
    match out[0][0] {
        0 => {
            cx.st.count("decode.panic");
            // a reader panic on arbitrary bytes belongs to C01/C20; here it is a model mismatch
        }
        1 => cx.st.count("decode.read_error"),
        2 => cx.st.count("decode.simple"),
        _ => cx.st.count("decode.composite"),
    }
    cx.push(2, &[b2z(bytes)], &out);
}

fn mutate_bytes(rng: &mut Rng, b: &[u8]) -> Vec<u8> {
    let mut v = b.to_vec();
    if v.is_empty() {
        return { let n = rng.range(0, 12) as usize; rng.bytes(n) };
    }
    match rng.below(8) {
        0 => v.truncate(rng.below(v.len() as u64 + 1) as usize),
        1 => {
            let i = rng.below(v.len() as u64) as usize;
            v[i] ^= 1 << rng.below(8);
        }
        2 => {
            let i = rng.below(v.len() as u64) as usize;
            v[i] = *rng.pick(&[0u8, 0xff, 0x08, 0x09, 0x80, 0x7f, 0x3f, 0x20]);
        }
        3 => {
            // plant a repeat flag with a large count somewhere in the second half
            let i = (v.len() / 2 + rng.below((v.len() + 1) as u64 / 2) as usize).min(v.len() - 1);
            v[i] |= 0x08;
            if i + 1 < v.len() {
                v[i + 1] = *rng.pick(&[0u8, 1, 2, 254, 255]);
            }
        }
        4 => v.extend({ let n = rng.range(1, 6) as usize; rng.bytes(n) }),
        5 => {
            // change the contour count
            v[0] = *rng.pick(&[0u8, 0, 0x7f, 0x80, 0xff]);
            if v.len() > 1 {
                v[1] = *rng.pick(&[0u8, 1, 2, 3, 0xff]);
            }
        }
        6 => {
            let i = rng.below(v.len() as u64) as usize;
            v.remove(i);
        }
        _ => {
            let i = rng.below(v.len() as u64) as usize;
            v.insert(i, rng.next_u32() as u8);
        }
    }
    v
}

// ---------- loca ----------
fn do_loca(cx: &mut Ctx, offs: &[u32]) {
    cx.st.evaluations += 1;
    let o = offs.to_vec();
    let r = catch(move || {
        let loca = Loca::new(o.clone());
        let long = loca.format() == LocaFormat::Long;
        let bytes = write_fonts::dump_table(&loca).unwrap();
        let raws: Vec<i128> = match read_fonts::tables::loca::Loca::read(FontData::new(&bytes), long) {
            Err(_) => vec![-2],
            Ok(l) => (0..=o.len()).map(|i| l.get_raw(i).map(|v| v as i128).unwrap_or(-1)).collect(),
        };
        (long, bytes, raws)
    });
    match r {
        Err(p) => cx.fail(format!("loca-{:?}", offs), "Loca::new/dump panicked", json!({"panic": p})),
        Ok((long, bytes, raws)) => {
            cx.st.count(if long { "br.loca_long" } else { "br.loca_short" });
            let monotone = offs.windows(2).all(|w| w[0] <= w[1]);
            if monotone {
                cx.st.nontrivial(&format!("loca{:?}", offs));
                // the offsets written are the offsets read
                let exp: Vec<i128> = offs.iter().map(|v| *v as i128).chain([-1]).collect();
                if raws != exp {
                    cx.fail(format!("loca-{:?}", offs), "loca offsets read back differ from those written", json!({"offsets": offs, "read": format!("{:?}", raws), "long": long}));
                }
                // short is chosen exactly when it is exact and fits
                let fits = offs.iter().all(|o| o % 2 == 0) && offs.last().copied().unwrap_or(0) <= 0x1FFFE;
                if fits == long {
                    cx.fail(format!("loca-{:?}", offs), "short/long choice differs from `all even and last <= 0x1FFFE`", json!({"offsets": offs, "long": long}));
                }
            } else {
                cx.st.count("loca.non_monotone_input");
            }
            cx.push(4, &[offs.iter().map(|v| *v as i128).collect()], &[vec![long as i128], b2z(&bytes), raws]);
        }
    }
}

// ---------- builder ----------
fn wsum(b: &[u8]) -> i128 {
    let mut acc: i128 = 0;
    for (i, x) in b.iter().enumerate() {
        acc = (acc + (i as i128 + 1) * *x as i128) % 65521;
    }
    acc
}
fn ser_glyphs_in(gs: &[G]) -> Vec<Vec<i128>> {
    let mut v = vec![];
    for g in gs {
        match g {
            G::Empty => v.push(vec![0]),
            G::Simple(s) => {
                v.push(vec![1]);
                v.extend(ser_simple_in(s));
            }
            G::Comp(c) => {
                v.push(vec![3]);
                v.extend(ser_comp_in(c));
            }
        }
    }
    v
}
struct Built {
    glyf: Vec<u8>,
    loca: Vec<u8>,
    long: bool,
    /// index in the input list of every glyph that was added (validation errors are skipped)
    added: Vec<usize>,
}
fn run_builder(gs: &[G]) -> Result<Built, String> {
    let gs = gs.to_vec();
    catch(move || {
        let mut b = GlyfLocaBuilder::new();
        let mut added = vec![];
        for (i, g) in gs.iter().enumerate() {
            let r = match g {
                G::Empty => b.add_glyph(&Glyph::Empty).map(|_| ()),
                G::Simple(s) => b.add_glyph(&to_simple(s)).map(|_| ()),
                G::Comp(c) => match to_composite(c) {
                    Ok(cg) => b.add_glyph(&cg).map(|_| ()),
                    Err(e) => panic!("cannot construct composite: {e}"),
                },
            };
            if r.is_ok() {
                added.push(i);
            }
        }
        let (glyf, loca, fmt) = b.build();
        Built {
            glyf: write_fonts::dump_table(&glyf).unwrap(),
            loca: write_fonts::dump_table(&loca).unwrap(),
            long: fmt == LocaFormat::Long,
            added,
        }
    })
}
fn do_builder(cx: &mut Ctx, gs: &[G], model: bool, tag: &str) {
    cx.st.evaluations += 1;
    let key = format!("builder-{}-{:016x}", tag, fnv(format!("{:?}", gs).as_bytes()));
    let res = run_builder(gs);
    let mut outs: Vec<Vec<i128>> = vec![];
    match &res {
        Err(p) => {
            cx.st.count("builder.panic");
            let ok_inputs = gs.iter().all(|g| match g {
                G::Simple(s) => expected_accept(s),
                _ => true,
            });
            if ok_inputs {
                cx.fail(key, "GlyfLocaBuilder panicked on acceptable glyphs", json!({"panic": p}));
            }
            outs.push(vec![0]);
        }
        Ok(b) => {
            cx.st.count(if b.long { "br.builder_long" } else { "br.builder_short" });
            cx.st.nontrivial(&format!("{:?}", gs).chars().take(4000).collect::<String>());
            let glyf_b = b.glyf.clone();
            let loca_b = b.loca.clone();
            let long = b.long;
            let n = b.added.len();
            let slices = catch(move || {
                let glyf = rg::Glyf::read(FontData::new(&glyf_b)).unwrap();
                let mut flat: Vec<i128> = vec![];
                let mut per: Vec<Option<Vec<u8>>> = vec![];
                match read_fonts::tables::loca::Loca::read(FontData::new(&loca_b), long) {
                    Err(_) => flat.push(-2),
                    Ok(l) => {
                        for gid in 0..=n {
                            match l.get_glyf(GlyphId::new(gid as u32), &glyf) {
                                Err(_) => {
                                    flat.push(1);
                                    per.push(None);
                                }
                                Ok(None) => {
                                    flat.push(2);
                                    per.push(Some(vec![]));
                                }
                                Ok(Some(g)) => {
                                    let d = g.offset_data().as_bytes().to_vec();
                                    flat.extend([3, d.len() as i128, wsum(&d)]);
                                    per.push(Some(d));
                                }
                            }
                        }
                    }
                }
                (flat, per)
            });
            match slices {
                Err(p) => {
                    cx.fail(key, "reading back the built glyf/loca panicked", json!({"panic": p}));
                    outs.push(vec![0]);
                }
                Ok((flat, per)) => {
                    // oracle: glyph i of the tables is the i-th glyph added
                    let mut bad: Option<String> = None;
                    if per.len() != n + 1 || per[n].is_some() {
                        bad = Some("gid == glyph count is not out of bounds".into());
                    }
                    for (k, &i) in b.added.iter().enumerate() {
                        if bad.is_some() {
                            break;
                        }
                        let Some(Some(d)) = per.get(k) else {
                            bad = Some(format!("glyph {k}: get_glyf error"));
                            break;
                        };
                        let why = match &gs[i] {
                            G::Empty => (!d.is_empty()).then(|| "empty glyph has data".to_string()),
                            G::Simple(s) => oracle_simple_bytes(s, d),
                            G::Comp(c) => oracle_comp_bytes(c, d),
                        };
                        if let Some(w) = why {
                            bad = Some(format!("glyph {k}: {w}"));
                        }
                    }
                    if let Some(w) = bad {
                        cx.fail(key, "glyph i of (glyf, loca) is not the i-th glyph added", json!({"why": w, "long": b.long, "glyf_len": b.glyf.len()}));
                    }
                    outs = vec![vec![1], b2z(&b.glyf), vec![b.long as i128], b2z(&b.loca), flat];
                }
            }
        }
    }
    if model {
        cx.push(5, &ser_glyphs_in(gs), &outs);
    }
}

/// a 1-point glyph whose encoding is exactly `len` bytes (len even, >= 16): 15 + instructions
fn filler_glyph(len: usize) -> SG {
    let len = len.clamp(16, 65548) & !1usize; // never panic on a mutated tree: the oracle reports instead
    SG { bbox: [0; 4], contours: vec![vec![(0, 0, true)]], instr: vec![0x4b; len - 15] }
}

// ---------- drawing ----------
#[derive(Clone, Debug, PartialEq)]
enum Seg {
    L((f64, f64), (f64, f64)),
    Q((f64, f64), (f64, f64), (f64, f64)),
}
#[derive(Default)]
struct RecPen {
    contours: Vec<Vec<Seg>>,
    cur: (f64, f64),
    start: (f64, f64),
    open: bool,
    cubic: bool,
    moves: usize,
    closes: usize,
}
impl skrifa::outline::OutlinePen for RecPen {
    fn move_to(&mut self, x: f32, y: f32) {
        self.contours.push(vec![]);
        self.cur = (x as f64, y as f64);
        self.start = self.cur;
        self.open = true;
        self.moves += 1;
    }
    fn line_to(&mut self, x: f32, y: f32) {
        let p = (x as f64, y as f64);
        if let Some(c) = self.contours.last_mut() {
            c.push(Seg::L(self.cur, p));
        }
        self.cur = p;
    }
    fn quad_to(&mut self, cx0: f32, cy0: f32, x: f32, y: f32) {
        let p = (x as f64, y as f64);
        if let Some(c) = self.contours.last_mut() {
            c.push(Seg::Q(self.cur, (cx0 as f64, cy0 as f64), p));
        }
        self.cur = p;
    }
    fn curve_to(&mut self, _: f32, _: f32, _: f32, _: f32, _: f32, _: f32) {
        self.cubic = true;
    }
    fn close(&mut self) {
        if self.cur != self.start {
            let (c, s) = (self.cur, self.start);
            if let Some(k) = self.contours.last_mut() {
                k.push(Seg::L(c, s));
            }
        }
        self.cur = self.start;
        self.open = false;
        self.closes += 1;
    }
}
/// geometric normal form: drop zero-length lines; split a quad whose end point is not a break
/// between two quads... (kept simple: compare the point sets of the flattened control polygon)
fn normalise(cs: &[Vec<Seg>]) -> Vec<Vec<Seg>> {
    cs.iter()
        .map(|c| c.iter().filter(|s| !matches!(s, Seg::L(a, b) if a == b)).cloned().collect::<Vec<_>>())
        .collect()
}
fn path_segments(path: &kurbo::BezPath) -> Vec<Vec<Seg>> {
    use kurbo::PathEl::*;
    let mut out: Vec<Vec<Seg>> = vec![];
    let mut cur = (0.0, 0.0);
    let mut start = (0.0, 0.0);
    let close = |out: &mut Vec<Vec<Seg>>, cur: (f64, f64), start: (f64, f64)| {
        if cur != start {
            if let Some(c) = out.last_mut() {
                c.push(Seg::L(cur, start));
            }
        }
    };
    let mut open = false;
    for el in path.elements() {
        match *el {
            MoveTo(p) => {
                if open {
                    close(&mut out, cur, start);
                }
                out.push(vec![]);
                cur = (p.x, p.y);
                start = cur;
                open = true;
            }
            LineTo(p) => {
                out.last_mut().unwrap().push(Seg::L(cur, (p.x, p.y)));
                cur = (p.x, p.y);
            }
            QuadTo(c, p) => {
                out.last_mut().unwrap().push(Seg::Q(cur, (c.x, c.y), (p.x, p.y)));
                cur = (p.x, p.y);
            }
            CurveTo(..) => unreachable!(),
            ClosePath => {
                close(&mut out, cur, start);
                cur = start;
                open = false;
            }
        }
    }
    if open {
        close(&mut out, cur, start);
    }
    out
}
/// an integer at / next to the midpoint of two integers: floor, ceil or truncation of (a+b)/2 (they differ
/// for odd and for negative sums), sometimes one further unit away
fn near_mid(rng: &mut Rng, a: f64, b: f64) -> f64 {
    let sum = (a + b) as i64;
    let base = match rng.below(3) {
        0 => sum.div_euclid(2),
        1 => -((-sum).div_euclid(2)),
        _ => sum / 2,
    };
    (base + match rng.below(8) {
        0 => 1,
        1 => -1,
        _ => 0,
    }) as f64
}
fn gen_path(rng: &mut Rng) -> kurbo::BezPath {
    let mut p = kurbo::BezPath::new();
    let nc = rng.range(1, 3);
    let coord = |rng: &mut Rng| -> f64 {
        match rng.below(8) {
            0 => *rng.pick(&[-16384.0, 16383.0, 0.0, -1.0, 1.0, 255.0, 256.0, -255.0, -256.0]),
            1 | 2 => rng.range(-300, 300) as f64,
            _ => rng.range(-16000, 16000) as f64,
        }
    };
    for _ in 0..nc {
        if rng.chance(1, 3) {
            // closed all-quadratic contour whose move-to point is at / next to the midpoint of the last and
            // the first control point: if exact, from_bezpath elides it and the contour STARTS off-curve
            let c0 = (rng.range(-6000, 6000) as f64, rng.range(-6000, 6000) as f64);
            let cl = if rng.chance(1, 2) {
                (c0.0 + rng.range(-9, 9) as f64, c0.1 + rng.range(-9, 9) as f64)
            } else {
                (rng.range(-6000, 6000) as f64, rng.range(-6000, 6000) as f64)
            };
            let s = (near_mid(rng, c0.0, cl.0), near_mid(rng, c0.1, cl.1));
            p.move_to(s);
            p.quad_to(c0, (coord(rng), coord(rng)));
            if rng.chance(1, 2) {
                p.quad_to((coord(rng), coord(rng)), (coord(rng), coord(rng)));
            }
            p.quad_to(cl, s);
            p.close_path();
            continue;
        }
        let s = (coord(rng), coord(rng));
        p.move_to(s);
        let n = rng.range(1, 6);
        let mut last_off: Option<(f64, f64)> = None;
        let mut cur = s;
        for k in 0..n {
            if rng.chance(1, 2) {
                // quad; sometimes place the on-curve end exactly between this and the next control
                let c0 = (coord(rng), coord(rng));
                let mut e = (coord(rng), coord(rng));
                if let (Some(_), true) = (last_off, rng.chance(1, 2)) {
                    // nothing: previous elision already arranged
                }
                if rng.chance(1, 2) && k + 1 < n {
                    // an on-curve point at or right next to the midpoint of its two neighbouring controls
                    // (even and odd sums, negative coordinates): implied iff it is the exact midpoint
                    let c1 = if rng.chance(1, 2) {
                        (c0.0 + rng.range(-9, 9) as f64, c0.1 + rng.range(-9, 9) as f64)
                    } else {
                        (coord(rng), coord(rng))
                    };
                    e = (near_mid(rng, c0.0, c1.0), near_mid(rng, c0.1, c1.1));
                    p.quad_to(c0, e);
                    let e2 = (coord(rng), coord(rng));
                    p.quad_to(c1, e2);
                    cur = e2;
                    last_off = Some(c1);
                    continue;
                }
                if rng.chance(1, 6) {
                    e = s; // curve back to the start point
                }
                p.quad_to(c0, e);
                cur = e;
                last_off = Some(c0);
            } else {
                let mut e = (coord(rng), coord(rng));
                if rng.chance(1, 8) {
                    e = s;
                }
                if rng.chance(1, 10) {
                    e = cur;
                }
                p.line_to(e);
                cur = e;
                last_off = None;
            }
        }
        if rng.chance(3, 4) {
            p.close_path();
        }
    }
    p
}
// ---------- kind 7: BezPath (integer coordinates) -> SimpleGlyph::from_bezpath -> contours ----------
fn ser_path(p: &kurbo::BezPath) -> Vec<i128> {
    use kurbo::PathEl::*;
    let mut v = vec![];
    for el in p.elements() {
        match *el {
            MoveTo(a) => v.extend([0, a.x as i128, a.y as i128]),
            LineTo(a) => v.extend([1, a.x as i128, a.y as i128]),
            QuadTo(c, a) => v.extend([2, c.x as i128, c.y as i128, a.x as i128, a.y as i128]),
            CurveTo(a, b, c) => v.extend([4, a.x as i128, a.y as i128, b.x as i128, b.y as i128, c.x as i128, c.y as i128]),
            ClosePath => v.push(3),
        }
    }
    v
}
fn do_frontend(cx: &mut Ctx, p: &kurbo::BezPath) {
    cx.st.evaluations += 1;
    let p2 = p.clone();
    let r = catch(move || SimpleGlyph::from_bezpath(&p2).map(|g| g.contours.iter().map(|c| c.iter().map(|q| (q.x, q.y, q.on_curve)).collect::<Vec<Pt>>()).collect::<Vec<_>>()));
    let outs: Vec<Vec<i128>> = match &r {
        Err(_) => vec![vec![-1]],
        Ok(Err(_)) => vec![vec![0]],
        Ok(Ok(cs)) => {
            let n_in: usize = p.elements().iter().map(|e| match e { kurbo::PathEl::QuadTo(..) => 2, kurbo::PathEl::ClosePath => 0, _ => 1 }).sum();
            let n_out: usize = cs.iter().map(|c| c.len()).sum();
            if n_out < n_in {
                cx.st.count("br.frontend_points_dropped");
            }
            vec![
                vec![1],
                cs.iter().map(|c| c.len() as i128).collect(),
                cs.iter().flatten().map(|q| q.0 as i128).collect(),
                cs.iter().flatten().map(|q| q.1 as i128).collect(),
                cs.iter().flatten().map(|q| q.2 as i128).collect(),
            ]
        }
    };
    cx.push(7, &[ser_path(p)], &outs);
}
fn minimal_font(glyf: &[u8], loca: &[u8], long: bool, lsbs: &[i16]) -> Vec<u8> {
    let n_glyphs = lsbs.len() as u16;
    use write_fonts::tables::{head::Head, hhea::Hhea, hmtx::Hmtx, hmtx::LongMetric, maxp::Maxp};
    let head = Head { units_per_em: 1000, index_to_loc_format: long as i16, ..Default::default() };
    let maxp = Maxp::new(n_glyphs);
    let hhea = Hhea { number_of_h_metrics: n_glyphs, ..Default::default() };
    let hmtx = Hmtx::new(lsbs.iter().map(|l| LongMetric::new(500, *l)).collect(), vec![]);
    let mut fb = write_fonts::FontBuilder::new();
    fb.add_table(&head).unwrap();
    fb.add_table(&maxp).unwrap();
    fb.add_table(&hhea).unwrap();
    fb.add_table(&hmtx).unwrap();
    fb.add_raw(read_fonts::types::Tag::new(b"glyf"), glyf.to_vec());
    fb.add_raw(read_fonts::types::Tag::new(b"loca"), loca.to_vec());
    fb.build()
}
// ---------- drawing glyphs given as point lists, both path styles, vs an independent reference ----------
/// pen stream with doubled coordinates (all midpoints of integer points are exact halves):
/// move 0 x y | line 1 x y | quad 2 cx cy x y | close 3; a cubic or inexact value is recorded as 9
#[derive(Default)]
struct StreamPen(Vec<i128>);
impl StreamPen {
    fn c(&mut self, v: f32) {
        let d = v as f64 * 2.0;
        if d.fract() != 0.0 {
            self.0.push(9);
        }
        self.0.push(d as i128);
    }
}
impl skrifa::outline::OutlinePen for StreamPen {
    fn move_to(&mut self, x: f32, y: f32) {
        self.0.push(0);
        self.c(x);
        self.c(y);
    }
    fn line_to(&mut self, x: f32, y: f32) {
        self.0.push(1);
        self.c(x);
        self.c(y);
    }
    fn quad_to(&mut self, cx0: f32, cy0: f32, x: f32, y: f32) {
        self.0.push(2);
        self.c(cx0);
        self.c(cy0);
        self.c(x);
        self.c(y);
    }
    fn curve_to(&mut self, _: f32, _: f32, _: f32, _: f32, _: f32, _: f32) {
        self.0.push(9);
    }
    fn close(&mut self) {
        self.0.push(3);
    }
}
/// The TrueType contour -> path rule, written from the specification (doubled coordinates):
/// choose the start point (first point if on-curve; otherwise per style: FreeType looks backward at
/// the last point, HarfBuzz forward at the second), then walk the remaining points cyclically,
/// inserting the implied on-curve midpoint between two consecutive off-curve points, and close.
fn ref_contour_path(c: &[Pt], harfbuzz: bool, out: &mut Vec<i128>) {
    let n = c.len();
    if n == 0 {
        return;
    }
    let d = |p: &Pt| (2 * p.0 as i128, 2 * p.1 as i128);
    let mid = |a: &Pt, b: &Pt| (a.0 as i128 + b.0 as i128, a.1 as i128 + b.1 as i128);
    // (start point, cyclic order of the points still to visit)
    let (start, order): ((i128, i128), Vec<usize>) = if c[0].2 {
        (d(&c[0]), (1..n).collect())
    } else if !harfbuzz {
        if c[n - 1].2 {
            (d(&c[n - 1]), (0..n - 1).collect())
        } else {
            (mid(&c[n - 1], &c[0]), (0..n).collect())
        }
    } else {
        if n == 1 {
            return; // hb-draw: a lone off-curve point draws nothing
        }
        if c[1].2 {
            (d(&c[1]), (2..n).chain([0, 1]).collect())
        } else {
            (mid(&c[0], &c[1]), (1..n).chain([0]).collect())
        }
    };
    out.extend([0, start.0, start.1]);
    let mut ctrl: Option<usize> = None;
    for i in order {
        let p = &c[i];
        match (ctrl, p.2) {
            (None, true) => out.extend([1, d(p).0, d(p).1]),
            (None, false) => ctrl = Some(i),
            (Some(q), true) => {
                out.extend([2, d(&c[q]).0, d(&c[q]).1, d(p).0, d(p).1]);
                ctrl = None;
            }
            (Some(q), false) => {
                let m = mid(&c[q], p);
                out.extend([2, d(&c[q]).0, d(&c[q]).1, m.0, m.1]);
                ctrl = Some(i);
            }
        }
    }
    if let Some(q) = ctrl {
        out.extend([2, d(&c[q]).0, d(&c[q]).1, start.0, start.1]);
    }
    out.push(3);
}
// ---------- drawing must not depend on the memory it is given ----------
/// pen stream as raw words: tag, then the f32 bit patterns
#[derive(Default)]
struct RawPen(Vec<u32>);
impl skrifa::outline::OutlinePen for RawPen {
    fn move_to(&mut self, x: f32, y: f32) {
        self.0.extend([0, x.to_bits(), y.to_bits()]);
    }
    fn line_to(&mut self, x: f32, y: f32) {
        self.0.extend([1, x.to_bits(), y.to_bits()]);
    }
    fn quad_to(&mut self, a: f32, b: f32, x: f32, y: f32) {
        self.0.extend([2, a.to_bits(), b.to_bits(), x.to_bits(), y.to_bits()]);
    }
    fn curve_to(&mut self, a: f32, b: f32, c: f32, d: f32, x: f32, y: f32) {
        self.0.extend([4, a.to_bits(), b.to_bits(), c.to_bits(), d.to_bits(), x.to_bits(), y.to_bits()]);
    }
    fn close(&mut self) {
        self.0.push(3);
    }
}
fn draw_raw(font: &FontRef, gid: u32, hb: bool, ppem: Option<f32>, mem: Option<&mut [u8]>) -> Result<Vec<u32>, String> {
    use skrifa::instance::{LocationRef, Size};
    use skrifa::outline::{pen::PathStyle, DrawSettings};
    use skrifa::MetadataProvider;
    let g = font.outline_glyphs().get(GlyphId::new(gid)).ok_or("no outline glyph")?;
    let size = match ppem {
        Some(p) => Size::new(p),
        None => Size::unscaled(),
    };
    let style = if hb { PathStyle::HarfBuzz } else { PathStyle::FreeType };
    let mut pen = RawPen::default();
    g.draw(DrawSettings::unhinted(size, LocationRef::default()).with_path_style(style).with_memory(mem), &mut pen)
        .map_err(|e| format!("{e:?}"))?;
    Ok(pen.0)
}
/// Every glyph of the font, in both path styles, unscaled and at two ppem: the pen stream obtained with
/// internally allocated memory must be reproduced bit for bit with a caller-provided buffer that is
/// (a) filled with random garbage, (b) reused, uncleared, from the draws of the other glyphs (largest
/// first, then in id order). Returns the number of comparisons made.
fn check_memory_independence(cx: &mut Ctx, font_bytes: &[u8], n_glyphs: u32, seed: u64, key: &str) {
    use skrifa::outline::Hinting;
    use skrifa::MetadataProvider;
    let fb = font_bytes.to_vec();
    let r = catch(move || -> Result<u64, String> {
        let font = FontRef::new(&fb).map_err(|e| format!("{e:?}"))?;
        let mut rng = Rng::new(seed);
        let sizes: Vec<usize> = (0..n_glyphs)
            .map(|g| font.outline_glyphs().get(GlyphId::new(g)).map(|o| o.draw_memory_size(Hinting::None)).unwrap_or(0))
            .collect();
        let max = sizes.iter().copied().max().unwrap_or(0) + 64;
        let mut n = 0u64;
        for hb in [false, true] {
            for ppem in [None, Some(16.0f32), Some(37.5)] {
                let fresh: Vec<Result<Vec<u32>, String>> = (0..n_glyphs).map(|g| draw_raw(&font, g, hb, ppem, None)).collect();
                // (a) exactly-sized garbage buffer per glyph
                for g in 0..n_glyphs {
                    let extra = (rng.below(3) * 8) as usize;
                    let mut buf = rng.bytes(sizes[g as usize] + extra);
                    let got = draw_raw(&font, g, hb, ppem, Some(&mut buf));
                    n += 1;
                    if got != fresh[g as usize] {
                        return Err(format!("glyph {g} hb={hb} ppem={ppem:?}: garbage-filled caller memory gives {:?}, fresh memory {:?}", got, fresh[g as usize]));
                    }
                }
                // (b) one buffer reused without clearing: largest glyph first, then every glyph in order, twice
                let mut shared = rng.bytes(max);
                let mut order: Vec<u32> = (0..n_glyphs).collect();
                order.sort_by_key(|g| std::cmp::Reverse(sizes[*g as usize]));
                order.extend(0..n_glyphs);
                order.extend((0..n_glyphs).rev());
                for g in order {
                    let got = draw_raw(&font, g, hb, ppem, Some(&mut shared[..]));
                    n += 1;
                    if got != fresh[g as usize] {
                        return Err(format!("glyph {g} hb={hb} ppem={ppem:?}: reused caller memory gives {:?}, fresh memory {:?}", got, fresh[g as usize]));
                    }
                }
            }
        }
        Ok(n)
    });
    match r {
        Ok(Ok(n)) => {
            cx.st.evaluations += n;
            cx.st.add("drawmem.comparisons", n);
        }
        Ok(Err(e)) => cx.fail(format!("drawmem-{}", key), "drawing depends on the contents of the memory buffer it is given", json!({"why": e})),
        Err(p) => cx.fail(format!("drawmem-{}", key), "drawing with caller-provided memory panicked", json!({"panic": p})),
    }
}
/// a larger companion glyph (many points, coordinates in the hundreds, lsb far from xMin) so that reused
/// buffers hold stale, non-zero point and phantom data
fn companion_glyph(seed: u64) -> SG {
    let mut rng = Rng::new(seed);
    let n = rng.range(24, 40) as usize;
    let pts: Vec<Pt> = (0..n).map(|_| (rng.range(-900, 900) as i16, rng.range(-900, 900) as i16, rng.chance(1, 2))).collect();
    let xmin = pts.iter().map(|p| p.0).min().unwrap();
    let ymin = pts.iter().map(|p| p.1).min().unwrap();
    let xmax = pts.iter().map(|p| p.0).max().unwrap();
    let ymax = pts.iter().map(|p| p.1).max().unwrap();
    SG { bbox: [xmin, ymin, xmax, ymax], contours: vec![pts], instr: vec![] }
}
fn gen_point_contours(rng: &mut Rng) -> Vec<Vec<Pt>> {
    let nc = rng.range(1, 4) as usize;
    let mut out = vec![];
    for _ in 0..nc {
        let n = match rng.below(6) {
            0 => 1,
            1 => 2,
            _ => rng.range(3, 7) as usize,
        };
        // on/off pattern: first off-curve half of the time; all-off; last on or off
        let shape = rng.below(6);
        let mut c: Vec<Pt> = vec![];
        for i in 0..n {
            let on = match shape {
                0 => false,                       // all off-curve
                1 => i != 0,                      // only the first off
                2 => i == n - 1,                  // only the last on (first off if n > 1)
                3 => i == 0,                      // only the first on
                _ => rng.chance(1, 2),
            };
            let coord = |rng: &mut Rng| -> i16 {
                match rng.below(5) {
                    0 => rng.range(-3, 3) as i16,
                    1 => *rng.pick(&[-32768i16, 32767, -32767, 255, 256]),
                    _ => rng.range(-2000, 2000) as i16,
                }
            };
            c.push((coord(rng), coord(rng), on));
        }
        out.push(c);
    }
    // keep successive deltas representable (the writer refuses otherwise)
    let (mut lx, mut ly) = (0i32, 0i32);
    for c in out.iter_mut() {
        for p in c.iter_mut() {
            if (p.0 as i32 - lx).abs() > 32767 {
                p.0 = (lx / 2) as i16;
            }
            if (p.1 as i32 - ly).abs() > 32767 {
                p.1 = (ly / 2) as i16;
            }
            lx = p.0 as i32;
            ly = p.1 as i32;
        }
    }
    out
}
/// kind 6: contours (point lists) -> SimpleGlyph -> GlyfLocaBuilder -> FontBuilder font -> skrifa
/// unscaled draw in the given path style; the pen stream goes to the model and to the reference.
fn do_draw_points(cx: &mut Ctx, contours: &[Vec<Pt>], shift: i16, model: bool) {
    use skrifa::instance::{LocationRef, Size};
    use skrifa::outline::{DrawSettings, pen::PathStyle};
    use skrifa::MetadataProvider;
    let xs: Vec<i16> = contours.iter().flatten().map(|p| p.0).collect();
    let ys: Vec<i16> = contours.iter().flatten().map(|p| p.1).collect();
    let bb = [*xs.iter().min().unwrap(), *ys.iter().min().unwrap(), *xs.iter().max().unwrap(), *ys.iter().max().unwrap()];
    let g = SG { bbox: bb, contours: contours.to_vec(), instr: vec![] };
    let g2 = g.clone();
    let font = catch(move || -> Result<Vec<u8>, String> {
        let mut b = GlyfLocaBuilder::new();
        b.add_glyph(&Glyph::Empty).map_err(|e| format!("{e:?}"))?;
        b.add_glyph(&to_simple(&g2)).map_err(|e| format!("{e:?}"))?;
        let comp = companion_glyph(fnv(format!("{:?}", g2).as_bytes()));
        b.add_glyph(&to_simple(&comp)).map_err(|e| format!("{e:?}"))?;
        let (glyf, loca, fmt) = b.build();
        // lsb = xMin - shift: the scaler translates the outline by xMin - lsb = shift (as FreeType does)
        Ok(minimal_font(&write_fonts::dump_table(&glyf).unwrap(), &write_fonts::dump_table(&loca).unwrap(), fmt == LocaFormat::Long,
                        &[0, g2.bbox[0] - shift, comp.bbox[0].wrapping_sub(711)]))
    });
    let key = format!("drawpts-{:016x}", fnv(format!("{:?}{}", contours, shift).as_bytes()));
    cx.st.count(if shift == 0 { "br.draw_lsb_eq_xmin" } else { "br.draw_lsb_ne_xmin" });
    let font = match font {
        Ok(Ok(f)) => f,
        other => {
            cx.fail(key, "building a font from a point-list glyph failed", json!({"res": format!("{:?}", other.map(|r| r.map(|_| ()))), "contours": format!("{:?}", contours)}));
            return;
        }
    };
    check_memory_independence(cx, &font, 3, fnv(key.as_bytes()), &key);
    for harfbuzz in [false, true] {
        cx.st.evaluations += 1;
        let fb = font.clone();
        let drawn = catch(move || -> Result<Vec<i128>, String> {
            let font = FontRef::new(&fb).map_err(|e| format!("{e:?}"))?;
            let g = font.outline_glyphs().get(GlyphId::new(1)).ok_or("no outline glyph")?;
            let mut pen = StreamPen::default();
            let style = if harfbuzz { PathStyle::HarfBuzz } else { PathStyle::FreeType };
            g.draw(DrawSettings::unhinted(Size::unscaled(), LocationRef::default()).with_path_style(style), &mut pen).map_err(|e| format!("{e:?}"))?;
            Ok(pen.0)
        });
        let mut want = vec![];
        for c in contours {
            ref_contour_path(c, harfbuzz, &mut want);
        }
        // translate the reference by -(xMin - lsb) (x operands of every command, half units)
        {
            let mut i = 0;
            while i < want.len() {
                let k = match want[i] { 0 | 1 => 1, 2 => 2, _ => 0 };
                for j in 0..k {
                    want[i + 1 + 2 * j] -= 2 * shift as i128;
                }
                i += 1 + 2 * k;
            }
        }
        let got: Vec<i128> = match &drawn {
            Ok(Ok(v)) => v.clone(),
            _ => vec![-1],
        };
        cx.st.count(if harfbuzz { "drawpts.harfbuzz" } else { "drawpts.freetype" });
        for (ci, c) in contours.iter().enumerate() {
            if !c[0].2 {
                cx.st.count(if ci + 1 < contours.len() { "br.draw_nonlast_contour_starts_off" } else { "br.draw_last_contour_starts_off" });
                cx.st.count(if c[c.len() - 1].2 { "br.draw_start_off_last_on" } else { "br.draw_start_off_last_off" });
            }
            if c.iter().all(|p| !p.2) {
                cx.st.count("br.draw_all_off_contour");
            }
        }
        if got != want {
            cx.fail(format!("{}-{}", key, if harfbuzz { "hb" } else { "ft" }), "unscaled drawing differs from the TrueType contour->path rule", json!({"contours": format!("{:?}", contours), "style": if harfbuzz {"HarfBuzz"} else {"FreeType"}, "drawn": format!("{:?}", drawn), "want": format!("{:?}", want)}));
        } else {
            cx.st.nontrivial(&format!("{:?}{}", contours, harfbuzz));
        }
        if model {
            let ins = vec![
                contours.iter().map(|c| c.len() as i128).collect::<Vec<_>>(),
                xs.iter().map(|v| *v as i128).collect(),
                ys.iter().map(|v| *v as i128).collect(),
                contours.iter().flatten().map(|p| p.2 as i128).collect(),
                vec![harfbuzz as i128],
                vec![shift as i128],
            ];
            cx.push(6, &ins, &[got]);
        }
    }
}
fn do_draw(cx: &mut Ctx, rng: &mut Rng, n_fonts: usize) {
    use skrifa::instance::{LocationRef, Size};
    use skrifa::outline::DrawSettings;
    use skrifa::MetadataProvider;
    for _ in 0..n_fonts {
        let paths: Vec<kurbo::BezPath> = (0..rng.range(1, 5)).map(|_| gen_path(rng)).collect();
        let paths2 = paths.clone();
        // hmtx lsb = xMin - shift (shift 0 half of the time): the outline is drawn translated by -shift
        let shifts: Vec<i16> = paths
            .iter()
            .map(|_| match rng.below(6) {
                0 | 1 | 2 => 0,
                3 => rng.range(-9, 9) as i16,
                4 => rng.range(-2000, 2000) as i16,
                _ => *rng.pick(&[1i16, -1, 711, -711]),
            })
            .collect();
        let shifts2 = shifts.clone();
        let r = catch(move || -> Result<(Vec<u8>, Vec<bool>), String> {
            let mut b = GlyfLocaBuilder::new();
            let mut ok = vec![];
            let mut lsbs: Vec<i16> = vec![0];
            b.add_glyph(&Glyph::Empty).map_err(|e| format!("{e:?}"))?;
            for p in &paths2 {
                match SimpleGlyph::from_bezpath(p) {
                    Ok(g) => {
                        b.add_glyph(&g).map_err(|e| format!("{e:?}"))?;
                        // left side bearing = xMin, as a consistent font has it (otherwise the
                        // scaler shifts the outline by xMin - lsb, as FreeType does)
                        lsbs.push(g.bbox.x_min.saturating_sub(shifts2[ok.len()]));
                        ok.push(true);
                    }
                    Err(_) => {
                        b.add_glyph(&Glyph::Empty).map_err(|e| format!("{e:?}"))?;
                        lsbs.push(0);
                        ok.push(false);
                    }
                }
            }
            let (glyf, loca, fmt) = b.build();
            let font = minimal_font(
                &write_fonts::dump_table(&glyf).unwrap(),
                &write_fonts::dump_table(&loca).unwrap(),
                fmt == LocaFormat::Long,
                &lsbs,
            );
            Ok((font, ok))
        });
        cx.st.evaluations += 1;
        let (font_bytes, ok) = match r {
            Err(p) => {
                // i16 delta overflow between extreme coordinates is a legitimate refusal
                if p.contains("overflow") {
                    cx.st.count("draw.writer_overflow_panic");
                } else {
                    cx.fail(format!("draw-{:016x}", fnv(format!("{:?}", paths).as_bytes())), "building a font from line/quad paths panicked", json!({"panic": p}));
                }
                continue;
            }
            Ok(Err(e)) => {
                cx.fail(format!("draw-{:016x}", fnv(format!("{:?}", paths).as_bytes())), "builder rejected a from_bezpath glyph", json!({"err": e}));
                continue;
            }
            Ok(Ok(v)) => v,
        };
        check_memory_independence(cx, &font_bytes, paths.len() as u32 + 1, fnv(&font_bytes), &format!("{:016x}", fnv(format!("{:?}", paths).as_bytes())));
        for (i, p) in paths.iter().enumerate() {
            do_frontend(cx, p);
            if !ok[i] {
                cx.st.count("draw.malformed_path");
                continue;
            }
            let fbytes = font_bytes.clone();
            let drawn = catch(move || -> Result<RecPen, String> {
                let font = FontRef::new(&fbytes).map_err(|e| format!("{e:?}"))?;
                let _ = font.head().map_err(|e| format!("{e:?}"))?;
                let glyphs = font.outline_glyphs();
                let g = glyphs.get(GlyphId::new(i as u32 + 1)).ok_or("no outline glyph")?;
                let mut pen = RecPen::default();
                g.draw(DrawSettings::unhinted(Size::unscaled(), LocationRef::default()), &mut pen).map_err(|e| format!("{e:?}"))?;
                Ok(pen)
            });
            let key = format!("draw-{:016x}", fnv(p.to_svg().as_bytes()));
            match drawn {
                Err(pn) => cx.fail(key, "drawing panicked", json!({"panic": pn, "path": p.to_svg()})),
                Ok(Err(e)) => cx.fail(key, "drawing failed", json!({"err": e, "path": p.to_svg()})),
                Ok(Ok(pen)) => {
                    cx.st.count("draw.glyphs");
                    let dx = shifts[i] as f64;
                    let tr = |q: (f64, f64)| (q.0 - dx, q.1);
                    let want: Vec<Vec<Seg>> = normalise(&path_segments(p))
                        .into_iter()
                        .map(|c| c.into_iter().map(|sg| match sg { Seg::L(a, b) => Seg::L(tr(a), tr(b)), Seg::Q(a, b, c2) => Seg::Q(tr(a), tr(b), tr(c2)) }).collect())
                        .collect();
                    let got = normalise(&pen.contours);
                    let nsub = want.len();
                    if pen.cubic || pen.open || pen.moves != nsub || pen.closes != nsub {
                        cx.fail(key, "drawn path is not one move/close per contour", json!({"path": p.to_svg(), "moves": pen.moves, "closes": pen.closes}));
                    } else if want != got {
                        cx.fail(key, "glyph built from a line/quad path does not draw (unscaled) as that path", json!({"path": p.to_svg(), "want": format!("{:?}", want), "got": format!("{:?}", got)}));
                    } else {
                        cx.st.nontrivial(&p.to_svg());
                        if want.iter().flatten().any(|s| matches!(s, Seg::Q(..))) {
                            cx.st.count("draw.with_quads");
                        }
                    }
                }
            }
        }
    }
}

fn main() {
    silence_panics();
    let args: Vec<String> = std::env::args().collect();
    let thorough = tier_is_thorough(&args);
    let seed = seed_from_env();
    let dir = out_dir(&args, "C09");
    let mut rng = Rng::new(seed);
    let cw = CaseWriter::new(
        &dir,
        "From Coq Require Import ZArith List. Import ListNotations. Open Scope Z_scope.\nFrom FV Require Import Lib.Cases C09.Model.",
        "Z * list zl * list zl",
        "check_case",
        200,
    );
    let mut cx = Ctx { st: Stats::new(), cw };
    let scale = if thorough { 8 } else { 1 };

    // --- fixed boundary glyphs: flag runs around the repeat cap (regression for the
    //     PointIter repeat-count-255 overflow fixed in /repo 229e2c6) ---
    for &k in &[1usize, 2, 3, 4, 255, 256, 257, 258, 259, 511, 512, 513, 600] {
        for kind in 0..3 {
            let pts: Vec<Pt> = (0..k)
                .map(|i| match kind {
                    0 => (i as i16 + 1, 0, true),
                    1 => (7, 7, false),
                    _ => (-(i as i16) - 1, i as i16 + 1, true),
                })
                .collect();
            let g = SG { bbox: [0, 0, 10, 10], contours: vec![pts], instr: vec![] };
            let key = if k >= 256 { Some("pointiter-repeat-255") } else { None };
            do_simple(&mut cx, &g, true, key);
            cx.st.count(&format!("br.flag_run_{}", k));
        }
    }
    // mixtures of runs
    for _ in 0..(30 * scale) {
        let n = rng.range(1, 5) as usize;
        let lens: Vec<usize> = (0..n).map(|_| *rng.pick(&[1usize, 2, 2, 3, 5, 254, 255, 256, 257, 258, 300, 600])).collect();
        let g = gen_runs(&mut rng, &lens);
        let big = lens.iter().any(|k| *k >= 256);
        do_simple(&mut cx, &g, true, if big { Some("pointiter-repeat-255") } else { None });
    }
    // delta boundaries, each alone and in sign-changing pairs
    for d in [0i32, 1, -1, 254, 255, 256, 257, -254, -255, -256, -257, 32767, -32767, -32768] {
        for e in [0i32, 255, -255, 256, -256, 1] {
            let x1 = d.clamp(-32768, 32767);
            let pts = vec![(x1 as i16, e as i16, true), ((x1 - d).clamp(-32768, 32767) as i16, 0, false), (x1 as i16, (-e) as i16, true)];
            do_simple(&mut cx, &SG { bbox: [-1, -2, 3, 4], contours: vec![pts], instr: vec![1, 2, 3] }, true, None);
        }
    }
    // writer refusals: i16 difference overflow, empty first contour, no contours
    do_simple(&mut cx, &SG { bbox: [0; 4], contours: vec![vec![(-32768, 0, true), (32767, 0, true)]], instr: vec![] }, true, None);
    do_simple(&mut cx, &SG { bbox: [0; 4], contours: vec![vec![(1, 32767, true), (1, -2, true)]], instr: vec![] }, true, None);
    do_simple(&mut cx, &SG { bbox: [0; 4], contours: vec![vec![], vec![(1, 1, true)]], instr: vec![] }, true, None);
    do_simple(&mut cx, &SG { bbox: [0; 4], contours: vec![vec![(1, 1, true)], vec![], vec![(2, 2, false)], vec![]], instr: vec![] }, true, None);
    do_simple(&mut cx, &SG { bbox: [1, 2, 3, 4], contours: vec![], instr: vec![9] }, true, None);
    // instruction length limits: 65534 ok, 65535 assert, 65536 validation error
    for n in [65533usize, 65534, 65535, 65536] {
        do_simple(&mut cx, &SG { bbox: [0; 4], contours: vec![vec![(5, 5, true)]], instr: vec![7; n] }, true, None);
        cx.st.count(&format!("br.instr_len_{}", n));
    }
    // contour-count assert and 65535/65536 points: implementation only (too large for the shards)
    for nc in [32766usize, 32767, 32768, 40000, 65536] {
        let g = SG { bbox: [0; 4], contours: (0..nc).map(|i| vec![((i % 100) as i16, 0, true)]).collect(), instr: vec![] };
        do_simple(&mut cx, &g, false, None);
        cx.st.count(&format!("br.contours_{}", nc));
    }
    for np in [65535usize, 65536] {
        let g = SG { bbox: [0; 4], contours: vec![(0..np).map(|i| ((i % 7) as i16, (i % 3) as i16, i % 2 == 0)).collect()], instr: vec![] };
        do_simple(&mut cx, &g, false, None);
        cx.st.count(&format!("br.points_{}", np));
    }

    // --- random simple glyphs ---
    let mut corpus: Vec<Vec<u8>> = vec![];
    for i in 0..(1400 * scale) {
        let g = gen_simple(&mut rng, i % 5 == 0);
        if let Some(b) = do_simple(&mut cx, &g, true, None) {
            if corpus.len() < 400 && !b.is_empty() {
                corpus.push(b);
            }
        }
    }
    // --- composites ---
    for _ in 0..(500 * scale) {
        let g = gen_composite(&mut rng);
        if let Some(b) = do_composite(&mut cx, &g, true) {
            if corpus.len() < 600 {
                corpus.push(b);
            }
        }
    }
    // every anchor/transform kind at its boundaries, exhaustively small
    for (akind, a, b) in [(0u8, -128, 127), (0, -129, 0), (0, 0, 128), (0, 127, -128), (1, 255, 255), (1, 256, 0), (1, 0, 256), (1, 65535, 65535)] {
        for tr in [[16384i16, 0, 0, 16384], [8192, 0, 0, 8192], [16384, 0, 0, -16384], [16384, 1, 0, 16384], [16384, 0, -1, 16384], [0, 0, 0, 0], [-32768, 32767, -1, 1]] {
            for uflags in [0u8, 31, 1, 2, 4, 8, 16] {
                let c = Comp { gid: 7, akind, a, b, uflags, tr };
                let g = CG { bbox: [-5, -6, 7, 8], comps: vec![c.clone(), c.clone()], instr: if uflags == 31 { vec![0xb0, 1] } else { vec![] } };
                do_composite(&mut cx, &g, uflags < 4);
            }
        }
    }
    // --- malformed / arbitrary bytes through Glyph::read ---
    if corpus.is_empty() {
        corpus.push(vec![0, 1, 0, 0, 0, 0, 0, 0, 0, 0, 0, 0, 0, 0, 0x31, 0]);
    }
    for _ in 0..(900 * scale) {
        let base = rng.pick(&corpus).clone();
        let mut m = mutate_bytes(&mut rng, &base);
        if rng.chance(1, 4) {
            m = mutate_bytes(&mut rng, &m);
        }
        do_decode(&mut cx, &m);
    }
    for _ in 0..(150 * scale) {
        let mut b = { let n = rng.range(0, 40) as usize; rng.bytes(n) };
        if b.len() >= 2 {
            if rng.chance(1, 2) {
                b[0] = 0;
                b[1] = rng.below(3) as u8;
            } else if rng.chance(1, 2) {
                b[0] = 0xff;
                b[1] = 0xff;
            }
        }
        do_decode(&mut cx, &b);
    }
    // --- read_points_fast vs points() on FOREIGN encodings (round 7): legal-but-unusual flag streams
    //     (REPEAT with count 0, reserved bits), i16-wrapping coordinate sums, truncated flag / coordinate
    //     data, extra tail bytes.  Every case goes to the shards (model of read_points_fast AND points()),
    //     and the two real readers are compared with each other (observation counters, not an alarm:
    //     the writer never produces these streams). ---
    let hdr = |n: usize| -> Vec<u8> {
        let mut v = vec![0u8, 1, 0, 0, 0, 0, 0, 0, 0, 0];
        v.extend(((n as u16).wrapping_sub(1)).to_be_bytes());
        v.extend([0u8, 0]);
        v
    };
    let fixed: Vec<(usize, Vec<u8>)> = vec![
        (2, vec![9, 0, 9, 0, 0, 1, 0, 2, 0, 3, 0, 4]), // ExamplesF.c09_fast_zero_repeat_refuted
        (2, vec![33, 33, 127, 255, 0, 1]),             // ExamplesF.c09_fast_wrap_refuted
        (1, vec![1, 0, 5]),                            // ExamplesF.c09_fast_truncated_coords_differs
        (2, vec![49]),                                 // ExamplesF.c09_fast_depends_on_caller_flags
        (2, vec![49, 49]),
        (3, vec![59, 1, 4, 5, 6, 1, 0, 9]),            // ExamplesF.c09_fast_eq_points_nonvacuous
        (3, vec![0x3f, 0, 0x3f, 0, 0x3f, 0, 1, 2, 3, 4, 5, 6]),
        (1, vec![8]),
        (2, vec![0x39, 7]),
    ];
    for (n, gd) in &fixed {
        let mut b = hdr(*n);
        b.extend(gd);
        fast_observe(&mut cx, &b);
        do_decode(&mut cx, &b);
    }
    for _ in 0..(400 * scale) {
        let n = rng.range(1, 7) as usize;
        let mut fl_bytes = vec![];
        let mut efl = vec![];
        while efl.len() < n {
            let mut f = (rng.below(64) as u8) & !8;
            if rng.chance(1, 8) {
                f |= *rng.pick(&[0x40u8, 0x80, 0xc0]);
            }
            if rng.chance(2, 5) {
                let left = n - efl.len();
                let r = match rng.below(6) {
                    0 | 1 | 2 => 0,
                    3 => (left - 1) as u8,
                    4 => rng.below(left as u64) as u8,
                    _ => left as u8, // one too many: "repeat count too large"
                };
                fl_bytes.extend([f | 8, r]);
                for _ in 0..=(r as usize) {
                    efl.push(f);
                }
            } else {
                fl_bytes.push(f);
                efl.push(f);
            }
        }
        let mut xs = vec![];
        let mut ys = vec![];
        for f in &efl {
            for (short, same, out) in [(2u8, 16u8, &mut xs), (4, 32, &mut ys)] {
                if f & short != 0 {
                    out.push(*rng.pick(&[0u8, 1, 127, 128, 255]));
                } else if f & same == 0 {
                    let v: i16 = *rng.pick(&[0i16, 1, -1, 255, 256, -256, 32767, -32768, 30000, -30000, 12345]);
                    out.extend(v.to_be_bytes());
                }
            }
        }
        let mut gd = fl_bytes;
        gd.extend(xs);
        gd.extend(ys);
        match rng.below(8) {
            0 => {
                let k = rng.range(1, 4) as usize;
                let l = gd.len().saturating_sub(k);
                gd.truncate(l);
            }
            1 => gd.extend(rng.bytes(2)),
            2 => {
                let l = rng.below(gd.len() as u64 + 1) as usize;
                gd.truncate(l);
            }
            _ => {}
        }
        let mut b = hdr(n);
        b.extend(&gd);
        fast_observe(&mut cx, &b);
        do_decode(&mut cx, &b);
    }
    // --- loca ---
    let mut locas: Vec<Vec<u32>> = vec![
        vec![],
        vec![0],
        vec![0, 0],
        vec![0, 2],
        vec![0, 1],
        vec![0, 3, 8],
        vec![24, 48, 112],
        vec![0, 0x1FFFC, 0x1FFFE],
        vec![0, 0x1FFFE],
        vec![0, 0x1FFFF],
        vec![0, 0x20000],
        vec![0, 0x20002],
        vec![0, 0x1FFFE, 0x1FFFE],
        vec![0, 0x10000, 0x1FFFE],
        vec![0, 0xFFFE, 0x10000, 0x10002],
        vec![0, 0xFFFFFFFE],
        vec![0, 0xFFFFFFFF],
        vec![0x20000],
        vec![0x1FFFE],
        // Loca::new is public: non-monotone input (last small, middle large)
        vec![0, 0x30000, 10],
        vec![0, 0x20000, 0x1FFFE],
    ];
    for _ in 0..(120 * scale) {
        let n = rng.range(1, 8) as usize;
        let mut v = vec![0u32];
        let mut cur = 0u32;
        let big = rng.chance(1, 3);
        for _ in 0..n {
            let step = match rng.below(6) {
                0 => 0,
                1 => rng.range(1, 50) as u32 * 2,
                2 if big => rng.range(0x8000, 0x12000) as u32 * 2,
                3 => rng.range(1, 99) as u32,
                _ => rng.range(0, 300) as u32 * 2,
            };
            cur = cur.saturating_add(step);
            v.push(cur);
        }
        if big && rng.chance(1, 2) {
            // land exactly around the boundary
            let t = *rng.pick(&[0x1FFFCu32, 0x1FFFE, 0x20000, 0x20002, 0x1FFFF]);
            if *v.last().unwrap() < t {
                v.push(t);
            }
        }
        locas.push(v);
    }
    for l in &locas {
        do_loca(&mut cx, l);
    }
    // --- builder: small sequences (model) ---
    for _ in 0..(350 * scale) {
        let n = rng.range(0, 6) as usize;
        let gs: Vec<G> = (0..n)
            .map(|_| match rng.below(6) {
                0 => G::Empty,
                1 | 2 => G::Comp(gen_composite(&mut rng)),
                3 => {
                    let mut s = gen_simple(&mut rng, false);
                    s.contours.clear(); // SimpleGlyph without contours: writes nothing
                    G::Simple(s)
                }
                _ => G::Simple(gen_simple(&mut rng, false)),
            })
            .collect();
        do_builder(&mut cx, &gs, true, "small");
    }
    // builder with a refused glyph in the middle (validation error is skipped; panic poisons)
    do_builder(&mut cx, &[G::Simple(filler_glyph(20)), G::Simple(SG { bbox: [0; 4], contours: vec![vec![(1, 1, true)]], instr: vec![0; 65536] }), G::Empty, G::Simple(filler_glyph(16))], true, "validation");
    // rejected glyphs (validation error: caller skips them) at random positions among accepted ones
    for _ in 0..(25 * scale) {
        let n = rng.range(2, 6) as usize;
        let mut gs: Vec<G> = (0..n)
            .map(|_| match rng.below(4) {
                0 => G::Empty,
                1 => G::Comp(gen_composite(&mut rng)),
                _ => G::Simple(gen_simple(&mut rng, false)),
            })
            .collect();
        for _ in 0..rng.range(1, 2) {
            let at = rng.below(gs.len() as u64 + 1) as usize;
            let fill = rng.next_u32() as u8;
            gs.insert(at, G::Simple(SG { bbox: gen_bbox(&mut rng), contours: vec![vec![(3, 4, true)]], instr: vec![fill; 65536 + rng.below(3) as usize] }));
        }
        do_builder(&mut cx, &gs, true, "rejected");
        cx.st.count("br.builder_with_rejected_glyph");
    }
    // --- builder: sequences straddling the short/long boundary (total 0x1FFFC .. 0x20004) ---
    for total in [0x1FFFCusize, 0x1FFFE, 0x20000, 0x20002, 0x20004] {
        for variant in 0..2 {
            let a = 43000 + 2 * (rng.below(200) as usize);
            let b = 43690;
            let small = gen_simple(&mut rng, false);
            let small_len = dump_simple(&small).ok().and_then(|r| r.ok()).map(|b| b.len()).unwrap_or(0);
            let comp = gen_composite(&mut rng);
            let comp_len = dump_composite(&comp).ok().and_then(|r| r.ok()).map(|b| b.len()).unwrap_or(0);
            let used = a + b + small_len + comp_len;
            let c = total.saturating_sub(used);
            let mut gs = vec![G::Empty, G::Simple(filler_glyph(a)), G::Simple(small), G::Simple(filler_glyph(b)), G::Comp(comp), G::Simple(filler_glyph(c))];
            if variant == 1 {
                gs.push(G::Empty);
                gs.insert(2, G::Empty);
            }
            do_builder(&mut cx, &gs, true, &format!("boundary-{:x}-{}", total, variant));
            cx.st.count(&format!("br.builder_total_{:x}", total));
        }
    }
    // --- drawing (implementation only) ---
    do_draw(&mut cx, &mut rng, 250 * scale);
    // --- BezPath front end on malformed / unusual element sequences (model kind 7) ---
    for svg in ["", "L1,1", "M0,0", "M0,0 Z", "M0,0 L1,1 C1,2 3,4 5,6 Z", "M0,0 L5,5 Z L7,7 L0,0 Z", "Z", "M1,1 Q2,2 1,1 Z",
                "M0,0 Q1,1 2,2 Q3,3 0,0 Z", "M0,0 Q-1,-1 -1,-1 Q-2,-2 0,0", "M3,3 M4,4 L5,5", "M0,0 Q1,0 1,1 Q1,3 0,0 Z M0,0 L0,0 Z",
                "M-1,-1 Q-3,-3 -3,-3 Q-4,-4 -8,0 Z", "M0,0 Q0,0 0,0 Q0,0 0,0 Z"] {
        if let Ok(p) = kurbo::BezPath::from_svg(svg) {
            do_frontend(&mut cx, &p);
        }
    }
    // --- drawing point-list glyphs in both path styles (model kind 6 + reference oracle) ---
    // fixed: two all-off-curve squares; first contour starts off-curve with last on / last off
    let sq = |o: i16, on_last: bool| -> Vec<Pt> { vec![(o, 0, false), (o + 10, 0, false), (o + 10, 10, false), (o, 10, on_last)] };
    for (a, b) in [(false, false), (true, false), (false, true), (true, true)] {
        do_draw_points(&mut cx, &[sq(0, a), sq(100, b)], 0, true);
        do_draw_points(&mut cx, &[sq(0, a), sq(100, b)], 37, true);
        do_draw_points(&mut cx, &[sq(0, a), vec![(50, 50, true), (60, 61, false), (71, 50, true)], sq(-101, b)], -5, true);
    }
    do_draw_points(&mut cx, &[vec![(5, 5, false)], vec![(1, 1, false), (3, 3, true)], vec![(7, 8, true)]], 0, true);
    for _ in 0..(500 * scale) {
        let cs = gen_point_contours(&mut rng);
        // left side bearing equal to xMin half of the time, otherwise off by a small or a large amount
        let xmin = cs.iter().flatten().map(|p| p.0 as i32).min().unwrap();
        let mut shift = match rng.below(6) {
            0 | 1 | 2 => 0,
            3 => rng.range(-9, 9) as i32,
            4 => rng.range(-2000, 2000) as i32,
            _ => *rng.pick(&[1i32, -1, 711, -711, 64, 32]),
        };
        if !(-32768..=32767).contains(&(xmin - shift)) {
            shift = 0;
        }
        do_draw_points(&mut cx, &cs, shift as i16, true);
    }

    let shards = cx.cw.finish();
    cx.st.v.insert("shards".into(), shards.into());
    cx.st.v.insert("model_cases".into(), cx.cw.len().into());
    cx.st.write(&dir, "simple glyphs: per-point delta classes (0, +-1, +-2..254, +-255, +-256, +-257, .., +-32767/8, unrepresentable) with runs of identical steps, fixed flag runs 1..600 around the 255/256 repeat cap, contour counts 0..9 with empty contours, instruction lengths up to the 65534/65535/65536 limits; composites: every anchor form (i8/i16 offsets, u8/u16 points) x transform form x user flags, with/without instructions; mutated and random bytes through Glyph::read; Loca::new offsets around 0x1FFFE/0x20000 incl. odd and non-monotone; builder sequences (empty/simple/composite) incl. totals 0x1FFFC..0x20004; drawing of random integer line/quad paths. non-trivial = simple glyph with >1 point / any composite / monotone loca / builder sequence / drawn path (distinct by content)");
    println!("cases={} shards={} oracle_failures={}", cx.cw.len(), shards, cx.st.oracle_failures.len());
}
