//! C04 harness — "a compiled table reads back as the table that was written".
//!
//! (a) corpus: every font of font-test-data x every top-level table write-fonts can own:
//!     parsed -> owned (`to_owned_table`) -> `dump_table` -> parse -> owned -> `==`, and
//!     `dump_table` of the re-read value `==` the first bytes; plus every glyph of every `glyf`.
//! (b) hand-constructed values: version/format variants, null / non-null optional offsets,
//!     empty / singleton arrays, one probe per version-gated field ("only this gated field set").
//! (c) model shards: for simple real types the harness prints (schema name, field values, compiled
//!     bytes, re-read field values); coq/C04/Model.v `check_case` recomputes `encode` of the schema
//!     EXTRACTED from write-fonts/generated and `decode` of the schema EXTRACTED from
//!     read-fonts/generated (coq/C04/Gen.v) and compares both with the real code.
use serde_json::json;
use std::fmt::Debug;
use std::panic::AssertUnwindSafe;
use vh::*;
use write_fonts::from_obj::ToOwnedTable;
use write_fonts::read::{FontData, FontRead, FontRef, TableProvider};
use write_fonts::tables as wt;
use write_fonts::types::*;
use write_fonts::validate::Validate;
use write_fonts::{dump_table, FontWrite};

#[derive(Debug)]
enum Rt {
    Ok,
    Invalid(String),
    PackFail(String),
    RereadErr(String),
    /// (detail, Some(stable key) when the difference is exactly one already-identified defect)
    ValueDiff(String, Option<&'static str>),
    BytesDiff(String),
    Panic(String),
}

impl Rt {
    fn kind(&self) -> &'static str {
        match self {
            Rt::Ok => "ok",
            Rt::Invalid(_) => "invalid",
            Rt::PackFail(_) => "packfail",
            Rt::RereadErr(_) => "reread-error",
            Rt::ValueDiff(..) => "value-differs",
            Rt::BytesDiff(_) => "recompile-differs",
            Rt::Panic(_) => "panic",
        }
    }
    fn is_failure(&self) -> bool {
        matches!(self, Rt::RereadErr(_) | Rt::ValueDiff(..) | Rt::BytesDiff(_) | Rt::Panic(_))
    }
    fn detail(&self) -> String {
        match self {
            Rt::Ok => String::new(),
            Rt::ValueDiff(s, _) => s.clone(),
            Rt::Invalid(s) | Rt::PackFail(s) | Rt::RereadErr(s) | Rt::BytesDiff(s) | Rt::Panic(s) => s.clone(),
        }
    }
}

fn first_diff(a: &str, b: &str) -> String {
    let ab = a.as_bytes();
    let bb = b.as_bytes();
    let mut i = 0;
    while i < ab.len() && i < bb.len() && ab[i] == bb[i] {
        i += 1;
    }
    let lo = i.saturating_sub(100);
    let cut = |s: &str| -> String {
        let bytes = s.as_bytes();
        let hi = (i + 100).min(bytes.len());
        String::from_utf8_lossy(&bytes[lo.min(bytes.len())..hi]).to_string()
    };
    format!("at debug-text byte {}: written `…{}…` re-read `…{}…`", i, cut(a), cut(b))
}

/// Per-type hooks.  `canon(written, reread)`: the property compares arrays whose length is implied by
/// the end of the data "on the written prefix" — the hook cuts such arrays of the re-read value back to
/// the written length *iff* the written array is a prefix of the re-read one (nothing else is touched).
/// `classify(written, reread)`: returns the stable key of an already-identified defect iff the two
/// values differ in exactly the way that defect explains (otherwise the failure keeps its own key).
struct Hooks<'h, T> {
    canon: Option<&'h dyn Fn(&T, T) -> T>,
    classify: Option<&'h dyn Fn(&T, &T) -> Option<&'static str>>,
}
impl<'h, T> Hooks<'h, T> {
    fn none() -> Self {
        Hooks { canon: None, classify: None }
    }
}

/// The property, word for word, on one owned value: compile, read back, compare, recompile.
fn rt_core<T: FontWrite + Validate + PartialEq + Debug>(
    o1: &T,
    reread: &dyn Fn(&[u8]) -> Result<T, String>,
) -> (Rt, Option<Vec<u8>>) {
    rt_core_h(o1, reread, &Hooks::none())
}

fn rt_core_h<T: FontWrite + Validate + PartialEq + Debug>(
    o1: &T,
    reread: &dyn Fn(&[u8]) -> Result<T, String>,
    hooks: &Hooks<T>,
) -> (Rt, Option<Vec<u8>>) {
    let r = catch(AssertUnwindSafe(|| {
        let b1 = match dump_table(o1) {
            Ok(b) => b,
            Err(e) => {
                let s = format!("{}", e);
                return if s.to_lowercase().contains("pack") { (Rt::PackFail(s), None) } else { (Rt::Invalid(s), None) };
            }
        };
        let o2 = match reread(&b1) {
            Ok(o) => o,
            Err(e) => return (Rt::RereadErr(e), Some(b1)),
        };
        let o2 = match hooks.canon {
            Some(c) => c(o1, o2),
            None => o2,
        };
        if &o2 != o1 {
            let d = first_diff(&format!("{:?}", o1), &format!("{:?}", o2));
            let known = hooks.classify.and_then(|c| c(o1, &o2));
            return (Rt::ValueDiff(d, known), Some(b1));
        }
        match dump_table(&o2) {
            Ok(b2) if b2 == b1 => (Rt::Ok, Some(b1)),
            Ok(b2) => (Rt::BytesDiff(format!("first {} bytes, second {} bytes", b1.len(), b2.len())), Some(b1)),
            Err(e) => (Rt::BytesDiff(format!("re-read value does not compile: {}", e)), Some(b1)),
        }
    }));
    match r {
        Ok(x) => x,
        Err(p) => (Rt::Panic(p), None),
    }
}

/// Stats::oracle_failure keeps only the first 50 entries: list at most two instances per stable key so that
/// a frequent known finding cannot push an unrelated failure off the list (all instances are still counted).
fn fail(st: &mut Stats, key: &str, v: serde_json::Value) {
    let ck = format!("failures-by-key.{}", key);
    let seen = st.counters.get(&ck).cloned().unwrap_or(0);
    st.count(&ck);
    if seen < 2 {
        st.oracle_failure(v);
    } else {
        st.count("oracle_failures");
    }
}

fn record(st: &mut Stats, group: &str, key: String, r: &Rt, nbytes: usize) {
    let (key, instance) = match r {
        Rt::ValueDiff(_, Some(k)) => (k.to_string(), Some(key)),
        _ => (key, None),
    };
    let _ = &instance;
    st.evaluations += 1;
    if std::env::var("C04_VERBOSE").is_ok() {
        eprintln!("{} | {} | {} | {}", key, r.kind(), nbytes, r.detail().chars().take(160).collect::<String>().replace('\n', " "));
    }
    st.count(&format!("{}.{}", group, r.kind()));
    if matches!(r, Rt::Ok) {
        st.nontrivial(&key);
    }
    if r.is_failure() {
        let v = json!({"key": key, "instance": instance, "outcome": r.kind(), "detail": r.detail().chars().take(600).collect::<String>()});
        fail(st, &key, v);
    } else if !matches!(r, Rt::Ok) {
        let list = st.v.entry("not_valid_examples").or_insert_with(|| json!([]));
        if let Some(a) = list.as_array_mut() {
            if a.len() < 12 {
                a.push(json!({"key": key, "outcome": r.kind(), "detail": r.detail().chars().take(200).collect::<String>()}));
            }
        }
    }
    st.sample(json!({"key": key, "outcome": r.kind(), "compiled_bytes": nbytes}));
}

/// hand-built value of an owned type that can parse itself
fn rt_value<T>(st: &mut Stats, key: &str, v: &T) -> Option<Vec<u8>>
where
    T: FontWrite + Validate + PartialEq + Debug + for<'a> FontRead<'a>,
{
    rt_value_h(st, key, v, &Hooks::none())
}

fn rt_value_h<T>(st: &mut Stats, key: &str, v: &T, hooks: &Hooks<T>) -> Option<Vec<u8>>
where
    T: FontWrite + Validate + PartialEq + Debug + for<'a> FontRead<'a>,
{
    let (r, b) = rt_core_h(v, &|b: &[u8]| T::read(FontData::new(b)).map_err(|e| e.to_string()), hooks);
    record(st, "value", key.to_string(), &r, b.as_ref().map(|b| b.len()).unwrap_or(0));
    if matches!(r, Rt::Ok) {
        b
    } else {
        None
    }
}

macro_rules! corpus_table {
    ($st:expr, $font:expr, $tname:literal, $first:expr, $owned:ty, |$o:ident, $d:ident| $reread:expr) => {
        corpus_table!($st, $font, $tname, $first, $owned, |$o, $d| $reread, Hooks::none())
    };
    ($st:expr, $font:expr, $tname:literal, $first:expr, $owned:ty, |$o:ident, $d:ident| $reread:expr, $hooks:expr) => {{
        match catch(AssertUnwindSafe(|| $first)) {
            Ok(Ok(t)) => {
                let key = format!("corpus:{}:{}", $font, $tname);
                match catch(AssertUnwindSafe(|| {
                    let o: $owned = t.to_owned_table();
                    o
                })) {
                    Err(p) => record($st, "corpus", key, &Rt::Panic(format!("to_owned_table: {}", p)), 0),
                    Ok($o) => {
                        let oref = &$o;
                        let hooks: Hooks<$owned> = $hooks;
                        let (r, b) = rt_core_h(oref, &|b: &[u8]| {
                            let $o = oref;
                            let _ = $o;
                            let $d = FontData::new(b);
                            match $reread {
                                Ok(t2) => {
                                    let o2: $owned = t2.to_owned_table();
                                    Ok(o2)
                                }
                                Err(e) => Err(e.to_string()),
                            }
                        }, &hooks);
                        $st.count(&format!("table.{}", $tname));
                        record($st, "corpus", key, &r, b.map(|b| b.len()).unwrap_or(0));
                    }
                }
            }
            Ok(Err(_)) => {}
            Err(p) => {
                $st.count("corpus.read-panic");
                let _ = p;
            }
        }
    }};
}

/// cmap format 4: `glyph_id_array` is `#[count(..)]` (runs to the end of the data, which inside a real
/// cmap includes whatever subtable the packer put next): compare on the written prefix.
fn cmap_canon(w: &wt::cmap::Cmap, mut r: wt::cmap::Cmap) -> wt::cmap::Cmap {
    use wt::cmap::CmapSubtable;
    for (rw, rr) in w.encoding_records.iter().zip(r.encoding_records.iter_mut()) {
        if let (CmapSubtable::Format4(a), CmapSubtable::Format4(b)) = (&*rw.subtable, &mut *rr.subtable) {
            if b.glyph_id_array.len() >= a.glyph_id_array.len() && b.glyph_id_array[..a.glyph_id_array.len()] == a.glyph_id_array[..] {
                b.glyph_id_array.truncate(a.glyph_id_array.len());
            }
        }
    }
    r
}

/// F-1: the re-read avar v2 has the written segment maps followed by extra ones, nothing else differs.
fn avar_classify(w: &wt::avar::Avar, r: &wt::avar::Avar) -> Option<&'static str> {
    let n = w.axis_segment_maps.len();
    let v2 = w.axis_index_map.is_some() || w.var_store.is_some();
    if v2 && r.axis_segment_maps.len() > n {
        let mut r2 = r.clone();
        r2.axis_segment_maps.truncate(n);
        if &r2 == w {
            return Some("F-1:avar2-segment-maps-overread");
        }
    }
    None
}

/// CPAL: `version` is `#[compile(0)]`, so the three version-1 arrays are never written.
fn cpal_classify(w: &wt::cpal::Cpal, r: &wt::cpal::Cpal) -> Option<&'static str> {
    let has_v1 = w.palette_types_array.is_some() || w.palette_labels_array.is_some() || w.palette_entry_labels_array.is_some();
    if has_v1 {
        let mut r2 = r.clone();
        r2.palette_types_array = w.palette_types_array.clone();
        r2.palette_labels_array = w.palette_labels_array.clone();
        r2.palette_entry_labels_array = w.palette_entry_labels_array.clone();
        if &r2 == w && r.palette_types_array.is_none() && r.palette_labels_array.is_none() && r.palette_entry_labels_array.is_none() {
            return Some("cpal:v1-arrays-dropped");
        }
    }
    None
}

/// F-10: only `base_glyph_list` of the v1 fields is set; it is gone after the round trip, nothing else differs.
fn colr_classify(w: &wt::colr::Colr, r: &wt::colr::Colr) -> Option<&'static str> {
    let other_v1 = w.layer_list.is_some() || w.clip_list.is_some() || w.var_index_map.is_some() || w.item_variation_store.is_some();
    if w.base_glyph_list.is_some() && !other_v1 && r.base_glyph_list.is_none() {
        let mut r2 = r.clone();
        r2.base_glyph_list = w.base_glyph_list.clone();
        if &r2 == w {
            return Some("F-10:colr-base-glyph-list-dropped");
        }
    }
    None
}

fn corpus(st: &mut Stats) {
    use write_fonts::read::tables as rt;
    let mut paths: Vec<std::path::PathBuf> = vec![];
    for dir in ["/repo/font-test-data/test_data/ttf", "/repo/font-test-data/test_data/ttc"] {
        if let Ok(rd) = std::fs::read_dir(dir) {
            for e in rd.flatten() {
                let p = e.path();
                let ext = p.extension().and_then(|e| e.to_str()).unwrap_or("").to_string();
                if ["ttf", "otf", "ttc"].contains(&ext.as_str()) {
                    paths.push(p);
                }
            }
        }
    }
    paths.sort();
    st.v.insert("corpus_fonts".into(), paths.len().into());
    for p in &paths {
        let bytes = match std::fs::read(p) {
            Ok(b) => b,
            Err(_) => continue,
        };
        let fname = p.file_name().unwrap().to_string_lossy().to_string();
        let mut fonts = vec![];
        if let Ok(f) = FontRef::new(&bytes) {
            fonts.push((fname.clone(), f));
        } else {
            for i in 0..8u32 {
                if let Ok(f) = FontRef::from_index(&bytes, i) {
                    fonts.push((format!("{}#{}", fname, i), f));
                }
            }
        }
        for (name, font) in &fonts {
            let name = name.as_str();
            st.count("corpus.fonts");
            // offset-free tables with no hand-computed content: the first compile must reproduce the
            // source table byte for byte (catches a conversion that drops / alters a field consistently)
            macro_rules! same_bytes {
                ($tag:literal, $get:expr, $owned:ty) => {
                    same_bytes!($tag, $get, $owned, usize::MAX)
                };
                ($tag:literal, $get:expr, $owned:ty, $upto:expr) => {{
                    if let (Some(src), Ok(t)) = (font.table_data(Tag::new($tag)), $get) {
                        let r = catch(AssertUnwindSafe(|| {
                            let o: $owned = t.to_owned_table();
                            dump_table(&o).ok()
                        }));
                        if let Ok(Some(b)) = r {
                            st.evaluations += 1;
                            // `$upto`: bytes after this position are writer literals that the owned type does not store
                            let srcb = &src.as_bytes()[..src.as_bytes().len().min($upto)];
                            let b = &b[..b.len().min($upto)];
                            // source tables may carry trailing padding
                            if srcb.len() >= b.len() && srcb[..b.len()] == b[..] && srcb[b.len()..].iter().all(|x| *x == 0) {
                                st.count("source-bytes.same");
                            } else {
                                st.count("source-bytes.differ");
                                st.oracle_failure(json!({"key": format!("source-bytes:{}:{}", name, String::from_utf8_lossy($tag)), "outcome": "compiled bytes differ from the source table", "source_len": srcb.len(), "compiled_len": b.len()}));
                            }
                        }
                    }
                }};
            }
            same_bytes!(b"head", font.head(), wt::head::Head, 52); // glyph_data_format is `#[compile(0)]`
            same_bytes!(b"hhea", font.hhea(), wt::hhea::Hhea);
            same_bytes!(b"vhea", font.vhea(), wt::vhea::Vhea);
            same_bytes!(b"maxp", font.maxp(), wt::maxp::Maxp);
            same_bytes!(b"hmtx", font.hmtx(), wt::hmtx::Hmtx);
            same_bytes!(b"vmtx", font.vmtx(), wt::vmtx::Vmtx);
            same_bytes!(b"gasp", font.gasp(), wt::gasp::Gasp);
            corpus_table!(st, name, "head", font.head(), wt::head::Head, |_o, d| rt::head::Head::read(d));
            corpus_table!(st, name, "hhea", font.hhea(), wt::hhea::Hhea, |_o, d| rt::hhea::Hhea::read(d));
            corpus_table!(st, name, "vhea", font.vhea(), wt::vhea::Vhea, |_o, d| rt::vhea::Vhea::read(d));
            corpus_table!(st, name, "maxp", font.maxp(), wt::maxp::Maxp, |_o, d| rt::maxp::Maxp::read(d));
            corpus_table!(st, name, "OS/2", font.os2(), wt::os2::Os2, |_o, d| rt::os2::Os2::read(d));
            corpus_table!(st, name, "post", font.post(), wt::post::Post, |_o, d| rt::post::Post::read(d));
            corpus_table!(st, name, "name", font.name(), wt::name::Name, |_o, d| rt::name::Name::read(d));
            corpus_table!(st, name, "cmap", font.cmap(), wt::cmap::Cmap, |_o, d| rt::cmap::Cmap::read(d), Hooks { canon: Some(&cmap_canon), classify: None });
            corpus_table!(st, name, "gasp", font.gasp(), wt::gasp::Gasp, |_o, d| rt::gasp::Gasp::read(d));
            corpus_table!(st, name, "meta", font.meta(), wt::meta::Meta, |_o, d| rt::meta::Meta::read(d));
            corpus_table!(st, name, "fvar", font.fvar(), wt::fvar::Fvar, |_o, d| rt::fvar::Fvar::read(d));
            corpus_table!(st, name, "avar", font.avar(), wt::avar::Avar, |_o, d| rt::avar::Avar::read(d), Hooks { canon: None, classify: Some(&avar_classify) });
            corpus_table!(st, name, "HVAR", font.hvar(), wt::hvar::Hvar, |_o, d| rt::hvar::Hvar::read(d));
            corpus_table!(st, name, "VVAR", font.vvar(), wt::vvar::Vvar, |_o, d| rt::vvar::Vvar::read(d));
            corpus_table!(st, name, "MVAR", font.mvar(), wt::mvar::Mvar, |_o, d| rt::mvar::Mvar::read(d));
            corpus_table!(st, name, "STAT", font.stat(), wt::stat::Stat, |_o, d| rt::stat::Stat::read(d));
            corpus_table!(st, name, "CPAL", font.cpal(), wt::cpal::Cpal, |_o, d| rt::cpal::Cpal::read(d), Hooks { canon: None, classify: Some(&cpal_classify) });
            corpus_table!(st, name, "COLR", font.colr(), wt::colr::Colr, |_o, d| rt::colr::Colr::read(d), Hooks { canon: None, classify: Some(&colr_classify) });
            corpus_table!(st, name, "GDEF", font.gdef(), wt::gdef::Gdef, |_o, d| rt::gdef::Gdef::read(d));
            corpus_table!(st, name, "GPOS", font.gpos(), wt::gpos::Gpos, |_o, d| rt::gpos::Gpos::read(d));
            corpus_table!(st, name, "GSUB", font.gsub(), wt::gsub::Gsub, |_o, d| rt::gsub::Gsub::read(d));
            corpus_table!(st, name, "BASE", font.base(), wt::base::Base, |_o, d| rt::base::Base::read(d));
            corpus_table!(st, name, "IFT ", font.ift(), wt::ift::Ift, |_o, d| rt::ift::Ift::read(d));
            corpus_table!(st, name, "IFTX", font.iftx(), wt::ift::Ift, |_o, d| rt::ift::Ift::read(d));
            corpus_table!(st, name, "hmtx", font.hmtx(), wt::hmtx::Hmtx, |o, d| {
                let nh = o.h_metrics.len();
                rt::hmtx::Hmtx::read(d, nh as u16, (nh + o.left_side_bearings.len()) as u16)
            });
            corpus_table!(st, name, "vmtx", font.vmtx(), wt::vmtx::Vmtx, |o, d| {
                let nv = o.v_metrics.len();
                rt::vmtx::Vmtx::read(d, nv as u16, (nv + o.top_side_bearings.len()) as u16)
            });
            let ng = font.maxp().map(|m| m.num_glyphs()).unwrap_or(0);
            corpus_table!(st, name, "sbix", font.sbix(), wt::sbix::Sbix, |_o, d| rt::sbix::Sbix::read(d, ng));
            // every glyph of glyf (the top-level owned Glyf has no conversion; Glyph has)
            if let (Ok(glyf), Ok(loca)) = (font.glyf(), font.loca(None)) {
                let mut n_ok = 0u64;
                for g in 0..ng as u32 {
                    let gl = match catch(AssertUnwindSafe(|| loca.get_glyf(GlyphId::new(g), &glyf))) {
                        Ok(Ok(Some(gl))) => gl,
                        _ => continue,
                    };
                    let key = format!("corpus:{}:glyf#{}", name, g);
                    let o1: wt::glyf::Glyph = match catch(AssertUnwindSafe(|| gl.to_owned_table())) {
                        Ok(o) => o,
                        Err(p) => {
                            record(st, "glyph", key, &Rt::Panic(format!("to_owned_table: {}", p)), 0);
                            continue;
                        }
                    };
                    let (r, b) = rt_core(&o1, &|b: &[u8]| {
                        rt::glyf::Glyph::read(FontData::new(b)).map(|g| g.to_owned_table()).map_err(|e| e.to_string())
                    });
                    if matches!(r, Rt::Ok) {
                        n_ok += 1;
                        st.evaluations += 1;
                        st.count("glyph.ok");
                        st.nontrivial(&key);
                    } else {
                        record(st, "glyph", key, &r, b.map(|b| b.len()).unwrap_or(0));
                    }
                }
                st.add("glyph.fonts_with_glyf", 1);
                let _ = n_ok;
            }
        }
    }
}

// ---------------------------------------------------------------------------------------------
// (b) hand-constructed values
// ---------------------------------------------------------------------------------------------

fn gid(g: u16) -> GlyphId16 {
    GlyphId16::new(g)
}

fn small_ivs() -> wt::variations::ItemVariationStore {
    use wt::variations::*;
    let region = VariationRegion::new(vec![RegionAxisCoordinates::new(
        F2Dot14::from_f32(0.0),
        F2Dot14::from_f32(1.0),
        F2Dot14::from_f32(1.0),
    )]);
    let data = ItemVariationData::new(1, 0, vec![0], vec![5u8]);
    ItemVariationStore::new(VariationRegionList::new(1, vec![region]), vec![Some(data)])
}

fn small_dsim() -> wt::variations::DeltaSetIndexMap {
    use wt::variations::*;
    DeltaSetIndexMap::format_0(EntryFormat::empty(), 2, vec![0u8, 0u8])
}

fn values_layout(st: &mut Stats, rng: &mut Rng) {
    use wt::layout::*;
    // Coverage / ClassDef: both formats, empty, singleton, many
    for n in [0usize, 1, 2, 7, 300] {
        let glyphs: Vec<GlyphId16> = (0..n).map(|i| gid(3 + 2 * i as u16)).collect();
        rt_value(st, &format!("value:CoverageFormat1:n{}", n), &CoverageFormat1::new(glyphs.clone()));
        rt_value(st, &format!("value:CoverageTable.format1:n{}", n), &CoverageTable::format_1(glyphs));
        let mut idx = 0u16;
        let ranges: Vec<RangeRecord> = (0..n)
            .map(|i| {
                let s = 10 * i as u16;
                let e = s + (i as u16 % 4);
                let r = RangeRecord::new(gid(s), gid(e), idx);
                idx += e - s + 1;
                r
            })
            .collect();
        rt_value(st, &format!("value:CoverageFormat2:n{}", n), &CoverageFormat2::new(ranges.clone()));
        rt_value(st, &format!("value:CoverageTable.format2:n{}", n), &CoverageTable::format_2(ranges));
        let classes: Vec<u16> = (0..n).map(|_| rng.below(5) as u16).collect();
        rt_value(st, &format!("value:ClassDefFormat1:n{}", n), &ClassDefFormat1::new(gid(4), classes.clone()));
        rt_value(st, &format!("value:ClassDef.format1:n{}", n), &ClassDef::format_1(gid(4), classes));
        let cr: Vec<ClassRangeRecord> =
            (0..n).map(|i| ClassRangeRecord::new(gid(10 * i as u16), gid(10 * i as u16 + 3), 1 + (i as u16 % 3))).collect();
        rt_value(st, &format!("value:ClassDefFormat2:n{}", n), &ClassDefFormat2::new(cr.clone()));
        rt_value(st, &format!("value:ClassDef.format2:n{}", n), &ClassDef::format_2(cr));
    }
    // Device (three delta formats) / VariationIndex / the union
    for (k, vals) in [(0usize, vec![1i8, -1, 0, 1]), (1, vec![7i8, -8, 3]), (2, vec![100i8, -128, 127, 5, 0])].iter() {
        let d = Device::new(9, 9 + vals.len() as u16 - 1, vals);
        rt_value(st, &format!("value:Device:fmt{}", k), &d);
        rt_value(st, &format!("value:DeviceOrVariationIndex.device:fmt{}", k), &DeviceOrVariationIndex::Device(d));
    }
    rt_value(st, "value:Device:single", &Device::new(12, 12, &[1]));
    rt_value(st, "value:VariationIndex", &VariationIndex::new(3, 65535));
    rt_value(st, "value:DeviceOrVariationIndex.variation", &DeviceOrVariationIndex::variation_index(0, 7));
    // SequenceRule: glyph_count is written as plus_one(input_sequence.len())
    for n in [0usize, 1, 5] {
        for m in [0usize, 1, 3] {
            let rule = SequenceRule::new(
                (0..n).map(|i| gid(20 + i as u16)).collect(),
                (0..m).map(|i| SequenceLookupRecord::new(i as u16, 2 * i as u16)).collect(),
            );
            rt_value(st, &format!("value:SequenceRule:in{}:rec{}", n, m), &rule);
            let set = SequenceRuleSet::new(vec![rule.clone(), rule.clone()]);
            rt_value(st, &format!("value:SequenceRuleSet:in{}:rec{}", n, m), &set);
            // null and non-null entries in an array of nullable offsets
            let ctx = SequenceContextFormat1::new(
                CoverageTable::format_1(vec![gid(1), gid(2), gid(3)]),
                vec![Some(set.clone()), None, Some(SequenceRuleSet::new(vec![]))],
            );
            rt_value(st, &format!("value:SequenceContextFormat1:in{}:rec{}", n, m), &ctx);
        }
    }
    // Script / LangSys: nullable default_lang_sys null and non-null, empty and non-empty records
    let ls = LangSys::new(vec![0, 2, 5]);
    let ls_empty = LangSys::new(vec![]);
    rt_value(st, "value:LangSys", &ls);
    rt_value(st, "value:LangSys:empty", &ls_empty);
    for (k, script) in [
        Script::new(None, vec![]),
        Script::new(Some(ls.clone()), vec![]),
        Script::new(None, vec![LangSysRecord::new(Tag::new(b"TRK "), ls_empty.clone())]),
        Script::new(Some(ls_empty.clone()), vec![LangSysRecord::new(Tag::new(b"AZE "), ls.clone()), LangSysRecord::new(Tag::new(b"TRK "), ls.clone())]),
    ]
    .iter()
    .enumerate()
    {
        rt_value(st, &format!("value:Script:{}", k), script);
        let sl = ScriptList::new(vec![ScriptRecord::new(Tag::new(b"latn"), script.clone())]);
        rt_value(st, &format!("value:ScriptList:{}", k), &sl);
    }
    rt_value(st, "value:ScriptList:empty", &ScriptList::new(vec![]));
}

fn values_colr(st: &mut Stats) {
    use wt::colr::*;
    let base = vec![BaseGlyph::new(gid(1), 0, 1), BaseGlyph::new(gid(4), 1, 1)];
    let layers = vec![Layer::new(gid(2), 0), Layer::new(gid(3), 1)];
    // v0, empty and non-empty
    rt_value(st, "value:Colr:v0-null", &Colr::new(0, None, None, 0));
    rt_value(st, "value:Colr:v0", &Colr::new(2, Some(base.clone()), Some(layers.clone()), 2));
    rt_value(st, "value:Colr:v0-empty-arrays", &Colr::new(0, Some(vec![]), Some(vec![]), 0));
    let paint = || Paint::solid(1, F2Dot14::from_f32(1.0));
    let bgl = || BaseGlyphList::new(1, vec![BaseGlyphPaint::new(gid(7), paint())]);
    let clip = || ClipList::new(1, 1, vec![Clip::new(gid(7), gid(7), ClipBox::format_1(FWord::new(0), FWord::new(0), FWord::new(10), FWord::new(10)))]);
    // v1 with every v1 field
    let mut full = Colr::new(2, Some(base.clone()), Some(layers.clone()), 2);
    full.base_glyph_list = Some(bgl()).into();
    full.layer_list = Some(LayerList::new(1, vec![paint()])).into();
    full.clip_list = Some(clip()).into();
    full.var_index_map = Some(small_dsim()).into();
    full.item_variation_store = Some(small_ivs()).into();
    rt_value(st, "value:Colr:v1-full", &full);
    let mut v1 = Colr::new(0, None, None, 0);
    v1.base_glyph_list = Some(bgl()).into();
    v1.clip_list = Some(clip()).into();
    rt_value(st, "value:Colr:v1-bgl+clip", &v1);
    // F-10: a Colr whose ONLY v1 field is the BaseGlyphList.  It validates; the property demands
    // that the list is still there after compile + read.
    let mut f10 = Colr::new(2, Some(base), Some(layers), 2);
    f10.base_glyph_list = Some(bgl()).into();
    let (r, b) = rt_core_h(&f10, &|b: &[u8]| Colr::read(FontData::new(b)).map_err(|e| e.to_string()), &Hooks { canon: None, classify: Some(&colr_classify) });
    let version = b.as_ref().and_then(|b| b.get(..2)).map(|v| u16::from_be_bytes([v[0], v[1]]));
    st.v.insert("f10_probe".into(), json!({"outcome": r.kind(), "compiled_version": version, "detail": r.detail().chars().take(300).collect::<String>()}));
    record(st, "value", "value:Colr:v1-only-base-glyph-list".into(), &r, b.map(|b| b.len()).unwrap_or(0));
    // one probe per v1-only field on its own
    let probes: Vec<(&str, Box<dyn Fn(&mut Colr)>)> = vec![
        ("layer_list", Box::new(|c: &mut Colr| c.layer_list = Some(LayerList::new(1, vec![Paint::solid(1, F2Dot14::from_f32(1.0))])).into())),
        ("clip_list", Box::new(move |c: &mut Colr| c.clip_list = Some(ClipList::new(1, 0, vec![])).into())),
        ("var_index_map", Box::new(|c: &mut Colr| c.var_index_map = Some(small_dsim()).into())),
        ("item_variation_store", Box::new(|c: &mut Colr| c.item_variation_store = Some(small_ivs()).into())),
    ];
    for (f, set) in probes {
        let mut c = Colr::new(0, None, None, 0);
        set(&mut c);
        rt_value(st, &format!("gate-probe:Colr.{}", f), &c);
    }
    // Paint variants with nested offsets
    let cl = ColorLine::new(Extend::Pad, 2, vec![ColorStop::new(F2Dot14::from_f32(0.0), 1, F2Dot14::from_f32(1.0)), ColorStop::new(F2Dot14::from_f32(1.0), 2, F2Dot14::from_f32(0.5))]);
    let lin = Paint::linear_gradient(cl, FWord::new(0), FWord::new(1), FWord::new(2), FWord::new(3), FWord::new(4), FWord::new(5));
    rt_value(st, "value:Paint:linear", &lin);
    let glyph = Paint::glyph(lin.clone(), gid(9));
    rt_value(st, "value:Paint:glyph(linear)", &glyph);
    rt_value(st, "value:Paint:composite", &Paint::composite(glyph.clone(), CompositeMode::SrcOver, Paint::solid(0, F2Dot14::from_f32(0.25))));
    rt_value(st, "value:Paint:colr_layers", &Paint::colr_layers(3, 17));
    rt_value(st, "value:ClipBox:f1", &ClipBox::format_1(FWord::new(-5), FWord::new(-6), FWord::new(7), FWord::new(8)));
    rt_value(st, "value:ClipBox:f2", &ClipBox::format_2(FWord::new(-5), FWord::new(-6), FWord::new(7), FWord::new(8), 99));
}

fn values_avar(st: &mut Stats) {
    use wt::avar::*;
    let m = |a: f32, b: f32| AxisValueMap::new(F2Dot14::from_f32(a), F2Dot14::from_f32(b));
    let ident = || SegmentMaps::new(vec![m(-1.0, -1.0), m(0.0, 0.0), m(1.0, 1.0)]);
    rt_value(st, "value:Avar:v1-empty", &Avar::new(vec![]));
    rt_value(st, "value:Avar:v1-one-empty-map", &Avar::new(vec![SegmentMaps::new(vec![])]));
    rt_value(st, "value:Avar:v1", &Avar::new(vec![ident(), SegmentMaps::new(vec![m(-1.0, -1.0), m(0.0, 0.0), m(0.5, 0.25), m(1.0, 1.0)])]));
    // F-1: avar version 2 — after the segment maps come two offsets and the subtables; the
    // re-read value must contain exactly the segment maps that were written.
    let mut a2 = Avar::new(vec![ident(), ident()]);
    a2.axis_index_map = Some(small_dsim()).into();
    a2.var_store = Some(small_ivs()).into();
    let (r, b) = rt_core_h(&a2, &|b: &[u8]| Avar::read(FontData::new(b)).map_err(|e| e.to_string()), &Hooks { canon: None, classify: Some(&avar_classify) });
    let reread_maps = b.as_ref().and_then(|b| Avar::read(FontData::new(b)).ok()).map(|a| a.axis_segment_maps.len());
    st.v.insert("f1_probe".into(), json!({"outcome": r.kind(), "written_segment_maps": 2, "reread_segment_maps": reread_maps, "detail": r.detail().chars().take(300).collect::<String>()}));
    record(st, "value", "value:Avar:v2".into(), &r, b.map(|b| b.len()).unwrap_or(0));
    for (f, which) in [("axis_index_map", 0), ("var_store", 1)] {
        let mut a = Avar::new(vec![ident()]);
        if which == 0 {
            a.axis_index_map = Some(small_dsim()).into();
        } else {
            a.var_store = Some(small_ivs()).into();
        }
        // same over-read as F-1 (any v2 avar); keyed separately so each stays visible
        let (r, b) = rt_core_h(&a, &|b: &[u8]| Avar::read(FontData::new(b)).map_err(|e| e.to_string()), &Hooks { canon: None, classify: Some(&avar_classify) });
        record(st, "value", format!("gate-probe:Avar.{}", f), &r, b.map(|b| b.len()).unwrap_or(0));
    }
}

// ---------------------------------------------------------------------------------------------
// hand-written conversions (FromObjRef / FromTableRef impls in write-fonts/src/tables/**): every one
// gets values with ALL optional fields populated with pairwise distinct contents, so that a field
// copied / swapped in the conversion is visible after value -> dump_table -> read -> to_owned.
// ---------------------------------------------------------------------------------------------
/// A re-read `ValueRecord` carries the table's value format explicitly (`explicit_format: Some(..)`, a
/// private, writer-computed field like a count); hand-built records get the same explicit format — the
/// union over the records that share one format field of the table — so that `==` compares like with like.
fn unify_formats(recs: &mut [&mut wt::gpos::ValueRecord]) {
    let mut fmt = wt::gpos::ValueFormat::empty();
    for r in recs.iter() {
        fmt |= r.format();
    }
    for r in recs.iter_mut() {
        r.set_explicit_value_format(fmt);
    }
}

fn values_gpos_value_records(st: &mut Stats) {
    use wt::gpos::*;
    use wt::layout::*;
    let single1 = |c: CoverageTable, mut r: ValueRecord| {
        unify_formats(&mut [&mut r]);
        SinglePosFormat1::new(c, r)
    };
    let single2 = |c: CoverageTable, mut rs: Vec<ValueRecord>| {
        unify_formats(&mut rs.iter_mut().collect::<Vec<_>>());
        SinglePosFormat2::new(c, rs)
    };
    let pair1 = |c: CoverageTable, mut sets: Vec<Vec<(u16, ValueRecord, ValueRecord)>>| {
        unify_formats(&mut sets.iter_mut().flatten().map(|t| &mut t.1).collect::<Vec<_>>());
        unify_formats(&mut sets.iter_mut().flatten().map(|t| &mut t.2).collect::<Vec<_>>());
        PairPosFormat1::new(c, sets.into_iter().map(|s| PairSet::new(s.into_iter().map(|(g, a, b)| PairValueRecord::new(gid(g), a, b)).collect())).collect())
    };
    let pair2 = |c: CoverageTable, c1: ClassDef, c2: ClassDef, mut rows: Vec<Vec<(ValueRecord, ValueRecord)>>| {
        unify_formats(&mut rows.iter_mut().flatten().map(|t| &mut t.0).collect::<Vec<_>>());
        unify_formats(&mut rows.iter_mut().flatten().map(|t| &mut t.1).collect::<Vec<_>>());
        PairPosFormat2::new(c, c1, c2, rows.into_iter().map(|r| Class1Record::new(r.into_iter().map(|(a, b)| Class2Record::new(a, b)).collect())).collect())
    };
    // four pairwise distinct device tables per kind
    let dev = |k: u16| -> DeviceOrVariationIndex { DeviceOrVariationIndex::Device(Device::new(10 + k, 12 + k, &[k as i8 + 1, -(k as i8) - 2, 3 + k as i8])) };
    let var = |k: u16| -> DeviceOrVariationIndex { DeviceOrVariationIndex::variation_index(100 + k, 200 + 7 * k) };
    let cov = |n: u16| CoverageTable::format_1((0..n).map(|i| gid(5 + i)).collect());
    let mut recs: Vec<(String, ValueRecord)> = vec![];
    recs.push(("empty".into(), ValueRecord::new()));
    // each of the eight fields on its own
    recs.push(("xpl".into(), ValueRecord::new().with_x_placement(-11)));
    recs.push(("ypl".into(), ValueRecord::new().with_y_placement(22)));
    recs.push(("xadv".into(), ValueRecord::new().with_x_advance(-33)));
    recs.push(("yadv".into(), ValueRecord::new().with_y_advance(44)));
    for (kind, mk) in [("dev", &dev as &dyn Fn(u16) -> DeviceOrVariationIndex), ("var", &var as &dyn Fn(u16) -> DeviceOrVariationIndex)] {
        recs.push((format!("xpl_{}", kind), ValueRecord::new().with_x_placement_device(mk(1))));
        recs.push((format!("ypl_{}", kind), ValueRecord::new().with_y_placement_device(mk(2))));
        recs.push((format!("xadv_{}", kind), ValueRecord::new().with_x_advance_device(mk(3))));
        recs.push((format!("yadv_{}", kind), ValueRecord::new().with_y_advance_device(mk(4))));
        // all four device slots, pairwise distinct, with and without the plain values
        recs.push((format!("all4_{}", kind), ValueRecord::new().with_x_placement_device(mk(1)).with_y_placement_device(mk(2)).with_x_advance_device(mk(3)).with_y_advance_device(mk(4))));
        recs.push((
            format!("all8_{}", kind),
            ValueRecord::new().with_x_placement(1).with_y_placement(-2).with_x_advance(3).with_y_advance(-4).with_x_placement_device(mk(1)).with_y_placement_device(mk(2)).with_x_advance_device(mk(3)).with_y_advance_device(mk(4)),
        ));
        // null next to non-null in every adjacent pair
        recs.push((format!("x_only_{}", kind), ValueRecord::new().with_x_placement(9).with_x_placement_device(mk(1)).with_x_advance_device(mk(3))));
        recs.push((format!("y_only_{}", kind), ValueRecord::new().with_y_advance(9).with_y_placement_device(mk(2)).with_y_advance_device(mk(4))));
        recs.push((format!("pl_only_{}", kind), ValueRecord::new().with_x_placement_device(mk(1)).with_y_placement_device(mk(2))));
        recs.push((format!("adv_only_{}", kind), ValueRecord::new().with_x_advance_device(mk(3)).with_y_advance_device(mk(4))));
    }
    // mixed Device / VariationIndex over the four slots
    recs.push(("mixed".into(), ValueRecord::new().with_x_placement(5).with_x_placement_device(dev(1)).with_y_placement_device(var(2)).with_x_advance_device(var(3)).with_y_advance_device(dev(4))));
    recs.push(("mixed2".into(), ValueRecord::new().with_y_advance(-5).with_x_placement_device(var(1)).with_y_placement_device(dev(2)).with_x_advance_device(dev(3)).with_y_advance_device(var(4))));
    let all8 = |k: u16| ValueRecord::new().with_x_placement(1 + k as i16).with_y_placement(-2).with_x_advance(3).with_y_advance(-4).with_x_placement_device(dev(4 * k + 1)).with_y_placement_device(var(4 * k + 2)).with_x_advance_device(dev(4 * k + 3)).with_y_advance_device(var(4 * k + 4));
    for (name, r) in &recs {
        // SinglePos format 1 (one shared record) and format 2 (array of records of one format)
        rt_value(st, &format!("value:SinglePosFormat1:{}", name), &single1(cov(2), r.clone()));
        rt_value(st, &format!("value:SinglePos.format1:{}", name), &SinglePos::Format1(single1(cov(2), r.clone())));
        // same shape, different contents
        let mut r2 = r.clone();
        if let Some(v) = r2.x_placement.as_mut() {
            *v += 100;
        }
        if let Some(v) = r2.y_advance.as_mut() {
            *v -= 100;
        }
        if r2.y_advance_device.is_some() {
            r2.y_advance_device = Some(var(77)).into();
        }
        if r2.x_placement_device.is_some() {
            r2.x_placement_device = Some(dev(66)).into();
        }
        // records of the EMPTY value format are zero bytes each: the reader's ComputedArray then yields no
        // elements although value_count = 2 was written (finding, one stable key for both spellings)
        let k2 = |ty: &str| if name == "empty" { "singlepos2:zero-size-records-dropped".to_string() } else { format!("value:{}:{}", ty, name) };
        rt_value(st, &k2("SinglePosFormat2"), &single2(cov(2), vec![r.clone(), r2.clone()]));
        rt_value(st, &k2("SinglePos.format2"), &SinglePos::Format2(single2(cov(2), vec![r2.clone(), r.clone()])));
        // PairPos format 1: record1 = r, record2 = another shape
        let other = if name.contains("dev") { all8(3) } else { ValueRecord::new().with_x_advance(-7).with_y_placement_device(dev(9)) };
        rt_value(st, &format!("value:PairPosFormat1:{}", name), &pair1(cov(1), vec![vec![(30, r.clone(), other.clone()), (31, r2.clone(), other.clone())]]));
        rt_value(st, &format!("value:PairPosFormat1:swapped:{}", name), &pair1(cov(2), vec![vec![(30, other.clone(), r.clone())], vec![(31, other.clone(), r2.clone()), (32, other.clone(), r.clone())]]));
        // PairPos format 2: 2 x 2 classes
        let pp2 = pair2(
            cov(2),
            ClassDef::format_1(gid(5), vec![0, 1]),
            ClassDef::format_1(gid(30), vec![1]),
            vec![vec![(r2.clone(), other.clone()), (r.clone(), other.clone())], vec![(r2.clone(), other.clone()), (r.clone(), other.clone())]],
        );
        rt_value(st, &format!("value:PairPosFormat2:{}", name), &pp2);
        rt_value(st, &format!("value:PairPos.format2:{}", name), &PairPos::Format2(pp2));
    }
    // the same through a whole GPOS table (lookup list, extension-free)
    let sl = ScriptList::new(vec![ScriptRecord::new(Tag::new(b"DFLT"), Script::new(Some(LangSys::new(vec![0])), vec![]))]);
    let fl = FeatureList::new(vec![FeatureRecord::new(Tag::new(b"kern"), Feature::new(None, vec![0, 1]))]);
    let lookups = vec![
        PositionLookup::Single(Lookup::new(LookupFlag::empty(), vec![SinglePos::Format1(single1(cov(2), all8(0))), SinglePos::Format2(single2(cov(2), vec![all8(1), all8(2)]))])),
        PositionLookup::Pair(Lookup::new(LookupFlag::empty(), vec![PairPos::Format1(pair1(cov(1), vec![vec![(40, all8(3), all8(4))]]))])),
    ];
    rt_value(st, "value:Gpos:value-records-all8", &Gpos::new(sl, fl, PositionLookupList::new(lookups)));
    // anchors with devices (generated conversion, distinct x / y devices)
    let anchor = AnchorTable::format_3(10, -20, Some(dev(1)), Some(var(2)));
    rt_value(st, "value:AnchorTable:f3-distinct-devices", &anchor);
    rt_value(st, "value:AnchorTable:f3-x-only", &AnchorTable::format_3(10, -20, Some(dev(1)), None));
    rt_value(st, "value:AnchorTable:f3-y-only", &AnchorTable::format_3(10, -20, None, Some(dev(2))));
    let mb = MarkBasePosFormat1::new(
        cov(1),
        CoverageTable::format_1(vec![gid(50)]),
        MarkArray::new(vec![MarkRecord::new(0, AnchorTable::format_1(1, 2)), MarkRecord::new(1, AnchorTable::format_2(3, 4, 5))]),
        BaseArray::new(vec![BaseRecord::new(vec![Some(anchor.clone()), None]), BaseRecord::new(vec![None, Some(AnchorTable::format_1(-9, 9))])]),
    );
    rt_value(st, "value:MarkBasePosFormat1", &mb);
    rt_value(st, "value:CursivePosFormat1", &CursivePosFormat1::new(cov(2), vec![EntryExitRecord::new(Some(AnchorTable::format_1(1, 2)), None), EntryExitRecord::new(None, Some(anchor))]));
}

fn values_handwritten_conversions(st: &mut Stats) {
    // meta: Metadata (ScriptLangTags / Other) + DataMapRecord
    {
        use wt::meta::*;
        let tags = |v: &[&str]| Metadata::ScriptLangTags(v.iter().map(|s| ScriptLangTag::new(s.to_string()).unwrap()).collect());
        let m = Meta::new(vec![
            DataMapRecord::new(DLNG, tags(&["en-latn", "tr", "Hant-HK"])),
            DataMapRecord::new(SLNG, tags(&["Latn"])),
            DataMapRecord::new(Tag::new(b"appl"), Metadata::Other(vec![1, 2, 3, 250, 0])),
            DataMapRecord::new(Tag::new(b"bild"), Metadata::Other(vec![])),
        ]);
        rt_value(st, "value:Meta:all-kinds-distinct", &m);
        rt_value(st, "value:Meta:empty", &Meta::new(vec![]));
    }
    // FeatureParams (Size / StylisticSet / CharacterVariant) behind Feature (read with the feature tag)
    {
        use wt::gsub::*;
        use wt::layout::*;
        let sl = ScriptList::new(vec![ScriptRecord::new(Tag::new(b"DFLT"), Script::new(Some(LangSys::new(vec![0, 1, 2])), vec![]))]);
        let size = FeatureParams::Size(SizeParams::new(100, 1, 256, 80, 120));
        let ss = FeatureParams::StylisticSet(StylisticSetParams::new(NameId::new(257)));
        let cv = FeatureParams::CharacterVariant(CharacterVariantParams::new(NameId::new(258), NameId::new(259), NameId::new(260), 2, NameId::new(261), vec![Uint24::new(0x41), Uint24::new(0x1F600)]));
        let fl = FeatureList::new(vec![
            FeatureRecord::new(Tag::new(b"cv01"), Feature::new(Some(cv), vec![0])),
            FeatureRecord::new(Tag::new(b"size"), Feature::new(Some(size), vec![])),
            FeatureRecord::new(Tag::new(b"ss01"), Feature::new(Some(ss), vec![0])),
        ]);
        let ll = SubstitutionLookupList::new(vec![SubstitutionLookup::Single(Lookup::new(LookupFlag::empty(), vec![SingleSubst::format_1(CoverageTable::format_1(vec![gid(5)]), 3)]))]);
        rt_value(st, "value:Gsub:feature-params-size+ss+cv", &Gsub::new(sl, fl, ll));
    }
    // glyf: SimpleGlyph / CompositeGlyph / Glyph
    {
        use wt::glyf::*;
        let mut path = kurbo::BezPath::new();
        path.move_to((10.0, -20.0));
        path.line_to((300.0, 15.0));
        path.quad_to((350.0, 400.0), (120.0, 500.0));
        path.line_to((-30.0, 250.0));
        path.close_path();
        path.move_to((100.0, 100.0));
        path.line_to((150.0, 110.0));
        path.line_to((140.0, 160.0));
        path.close_path();
        if let Ok(mut g) = SimpleGlyph::from_bezpath(&path) {
            rt_value(st, "value:SimpleGlyph:two-contours", &g);
            g.instructions = vec![0xb0, 0x01, 0x2d, 0xff];
            rt_value(st, "value:SimpleGlyph:instructions", &g);
            rt_value(st, "value:Glyph:simple", &Glyph::Simple(g));
        }
        let t = |a: f32, b: f32, c: f32, d: f32| Transform { xx: F2Dot14::from_f32(a), yx: F2Dot14::from_f32(b), xy: F2Dot14::from_f32(c), yy: F2Dot14::from_f32(d) };
        let fl = |r: bool, m: bool, s: bool, u: bool, o: bool| ComponentFlags { round_xy_to_grid: r, use_my_metrics: m, scaled_component_offset: s, unscaled_component_offset: u, overlap_compound: o };
        let comps = vec![
            Component::new(gid(7), Anchor::Offset { x: -300, y: 5 }, t(1.0, 0.0, 0.0, 1.0), fl(true, false, false, false, false)),
            Component::new(gid(8), Anchor::Offset { x: 4, y: -4 }, t(0.5, 0.0, 0.0, 0.5), fl(false, true, false, false, false)),
            Component::new(gid(9), Anchor::Point { base: 3, component: 300 }, t(0.5, 0.0, 0.0, -0.75), fl(false, false, true, false, false)),
            Component::new(gid(10), Anchor::Point { base: 1, component: 2 }, t(0.25, 0.5, -0.5, 1.25), fl(false, false, false, true, true)),
        ];
        let bbox = Bbox { x_min: -1, y_min: -2, x_max: 3, y_max: 4 };
        for n in 1..=comps.len() {
            let mut cg = CompositeGlyph::new(comps[0].clone(), bbox);
            for c in &comps[1..n] {
                cg.add_component(c.clone(), Bbox { x_min: -10, y_min: -20, x_max: 30, y_max: 40 });
            }
            rt_value(st, &format!("value:CompositeGlyph:{}-components", n), &cg);
            rt_value(st, &format!("value:Glyph:composite:{}", n), &Glyph::Composite(cg));
        }
        for (k, c) in comps.iter().enumerate() {
            rt_value(st, &format!("value:CompositeGlyph:single#{}", k), &CompositeGlyph::new(c.clone(), bbox));
        }
    }
}

// ---------------------------------------------------------------------------------------------
// Device tables: the owned `Device` stores the PACKED words, so `==` after a round trip cannot see a
// decoder defect.  "Every field has the value that was written" is therefore also checked on the
// logical field: the i8 deltas handed to `Device::new` must come back from the reader's `Device::iter`.
// ---------------------------------------------------------------------------------------------
fn device_decode_check(st: &mut Stats, key: &str, vals: &[i8], start: u16, got: Result<Option<(u16, u16, Vec<i8>)>, String>) {
    st.evaluations += 1;
    let got = match got {
        Ok(g) => g,
        Err(p) => {
            // the reader's decoder panicked (overflow-checks profile).  One stable key for the one known cause:
            // an 8-bit delta of -128 is negated in i8 (read-fonts/src/tables/layout.rs iter_packed_values).
            st.count("device-decode.panic");
            let k = if vals.contains(&-128) && p.contains("negate with overflow") { "device-decode:delta-minus-128-negate-overflow".to_string() } else { format!("device-decode:{}", key) };
            let v = json!({"key": k, "instance": key, "outcome": "Device::iter panicked", "panic": p, "written": vals, "start_size": start});
            fail(st, &k, v);
            return;
        }
    };
    let end = start + (vals.len() as u16 - 1);
    match got {
        Some((s, e, d)) if s == start && e == end && d == vals => {
            st.count("device-decode.ok");
            st.nontrivial(key);
        }
        other => {
            st.count("device-decode.differs");
            let k = format!("device-decode:{}", key);
            let v = json!({"key": k, "outcome": "decoded deltas differ from the written ones", "written": vals, "start_size": start, "reread": format!("{:?}", other).chars().take(300).collect::<String>()});
            fail(st, &k, v);
        }
    }
}

fn values_devices(st: &mut Stats, rng: &mut Rng) {
    use wt::layout::*;
    use write_fonts::read::tables as rt;
    let dec = |d: &rt::layout::DeviceOrVariationIndex| -> Option<(u16, u16, Vec<i8>)> {
        match d {
            rt::layout::DeviceOrVariationIndex::Device(d) => Some((d.start_size(), d.end_size(), d.iter().collect())),
            _ => None,
        }
    };
    let mut n_dev = 0u64;
    for (bits, lo, hi) in [(2u32, -2i8, 1i8), (4, -8, 7), (8, -128, 127), (7, -127, 126)] {
        for len in 1usize..=17 {
            let mut pats: Vec<Vec<i8>> = vec![
                (0..len).map(|i| if i % 2 == 0 { lo } else { hi }).collect(),
                (0..len).map(|i| if i % 2 == 0 { hi } else { lo }).collect(),
                vec![lo; len],
                // -1 (all ones) and a small negative in every slot, one extreme to pin the format
                (0..len).map(|i| if i == len / 2 { lo } else { -1 }).collect(),
                (0..len).map(|i| if i == 0 { hi } else if i % 3 == 0 { lo + 1 } else { -1 - (i as i8 % 2) }).collect(),
                // every slot position negative in turn is covered by the rotations of a ramp
                (0..len).map(|i| lo.wrapping_add((i as i32 * ((hi as i32 - lo as i32) / 3 + 1) % (hi as i32 - lo as i32 + 1)) as i8)).collect(),
            ];
            pats.push((0..len).map(|_| rng.range(lo as i64, hi as i64) as i8).collect());
            for (pi, vals) in pats.iter().enumerate() {
                let start = match (len + pi) % 5 {
                    0 => 0u16,
                    1 => 1,
                    2 => 9,
                    3 => 65534 - (len as u16 - 1), // end_size = 65534
                    _ => 65535 - (len as u16 - 1), // end_size = 65535
                };
                let end = start + (len as u16 - 1);
                let key = format!("Device:{}bit:len{}:pat{}:start{}", bits, len, pi, start);
                n_dev += 1;
                // end_size = 65535: the reader's DeltaFormat::value_count computes (end + 1).saturating_sub(start) in
                // u16, one short, so the last word is not read when len % per_word == 1 (finding; one stable key)
                let vkey = |ty: &str| if end == 65535 { "device:end-size-65535-value-count".to_string() } else { format!("value:{}{}", ty, key) };
                // standalone
                let d = Device::new(start, end, vals);
                if let Some(b) = rt_value(st, &vkey(""), &d) {
                    let got = catch(AssertUnwindSafe(|| rt::layout::Device::read(FontData::new(&b)).ok().map(|d| (d.start_size(), d.end_size(), d.iter().collect::<Vec<i8>>()))));
                    device_decode_check(st, &key, vals, start, got);
                }
                let rev: Vec<i8> = vals.iter().rev().cloned().collect();
                let dv = |v: &[i8]| DeviceOrVariationIndex::Device(Device::new(start, end, v));
                // inside a ValueRecord (x placement = vals, y advance = reversed)
                {
                    use wt::gpos::*;
                    let mut r = ValueRecord::new().with_x_placement(3).with_x_placement_device(dv(vals)).with_y_advance_device(dv(&rev));
                    unify_formats(&mut [&mut r]);
                    let t = SinglePosFormat1::new(CoverageTable::format_1(vec![gid(2)]), r);
                    if let Some(b) = rt_value(st, &vkey("SinglePosFormat1:"), &t) {
                        if let Ok(t) = rt::gpos::SinglePosFormat1::read(FontData::new(&b)) {
                            let od = t.offset_data();
                            let vr = t.value_record();
                            device_decode_check(st, &format!("ValueRecord.x_placement_device:{}", key), vals, start, catch(AssertUnwindSafe(|| vr.x_placement_device(od).and_then(|r| r.ok()).as_ref().and_then(dec))));
                            device_decode_check(st, &format!("ValueRecord.y_advance_device:{}", key), &rev, start, catch(AssertUnwindSafe(|| vr.y_advance_device(od).and_then(|r| r.ok()).as_ref().and_then(dec))));
                        }
                    }
                    // Anchor format 3 (x = vals, y = reversed)
                    let a = AnchorFormat3::new(-5, 6, Some(dv(vals)), Some(dv(&rev)));
                    if let Some(b) = rt_value(st, &vkey("AnchorFormat3:"), &a) {
                        if let Ok(t) = rt::gpos::AnchorFormat3::read(FontData::new(&b)) {
                            device_decode_check(st, &format!("AnchorFormat3.x_device:{}", key), vals, start, catch(AssertUnwindSafe(|| t.x_device().and_then(|r| r.ok()).as_ref().and_then(dec))));
                            device_decode_check(st, &format!("AnchorFormat3.y_device:{}", key), &rev, start, catch(AssertUnwindSafe(|| t.y_device().and_then(|r| r.ok()).as_ref().and_then(dec))));
                        }
                    }
                }
                // CaretValue format 3
                {
                    use wt::gdef::*;
                    let c = CaretValueFormat3::new(-77, dv(vals));
                    if let Some(b) = rt_value(st, &vkey("CaretValueFormat3:"), &c) {
                        if let Ok(t) = rt::gdef::CaretValueFormat3::read(FontData::new(&b)) {
                            device_decode_check(st, &format!("CaretValueFormat3.device:{}", key), vals, start, catch(AssertUnwindSafe(|| t.device().ok().as_ref().and_then(dec))));
                        }
                    }
                }
            }
        }
    }
    st.add("device.tables", n_dev);
}

// COLR transforms with all matrix entries pairwise distinct; name strings with astral characters
fn values_distinct_fields(st: &mut Stats) {
    {
        use wt::colr::*;
        let fx = |v: f64| Fixed::from_f64(v);
        let leaf = || Paint::solid(3, F2Dot14::from_f32(0.5));
        let aff = Affine2x3::new(fx(1.25), fx(-0.5), fx(0.75), fx(2.0), fx(10.0), fx(-20.5));
        let vaff = VarAffine2x3::new(fx(-1.5), fx(0.25), fx(3.0), fx(0.125), fx(-7.0), fx(8.5), 42);
        rt_value(st, "value:Paint:transform-distinct", &Paint::transform(leaf(), aff.clone()));
        rt_value(st, "value:Paint:var_transform-distinct", &Paint::var_transform(leaf(), vaff.clone()));
        rt_value(st, "value:Paint:translate", &Paint::translate(leaf(), FWord::new(11), FWord::new(-12)));
        rt_value(st, "value:Paint:var_translate", &Paint::var_translate(leaf(), FWord::new(13), FWord::new(-14), 15));
        rt_value(st, "value:Paint:scale", &Paint::scale(leaf(), F2Dot14::from_f32(0.25), F2Dot14::from_f32(-1.5)));
        rt_value(st, "value:Paint:scale_around_center", &Paint::scale_around_center(leaf(), F2Dot14::from_f32(0.25), F2Dot14::from_f32(-1.5), FWord::new(21), FWord::new(-22)));
        rt_value(st, "value:Paint:var_scale_around_center", &Paint::var_scale_around_center(leaf(), F2Dot14::from_f32(0.75), F2Dot14::from_f32(1.5), FWord::new(23), FWord::new(-24), 25));
        // inside a whole COLR v1
        let mut c = Colr::new(0, None, None, 0);
        c.base_glyph_list = Some(BaseGlyphList::new(2, vec![BaseGlyphPaint::new(gid(7), Paint::transform(Paint::glyph(leaf(), gid(9)), aff)), BaseGlyphPaint::new(gid(8), Paint::var_transform(leaf(), vaff))])).into();
        c.clip_list = Some(ClipList::new(1, 1, vec![Clip::new(gid(7), gid(8), ClipBox::format_1(FWord::new(-1), FWord::new(-2), FWord::new(30), FWord::new(40)))])).into();
        rt_value(st, "value:Colr:v1-transforms-distinct", &c);
        let cl = VarColorLine::new(Extend::Reflect, 2, vec![VarColorStop::new(F2Dot14::from_f32(0.25), 1, F2Dot14::from_f32(0.5), 100), VarColorStop::new(F2Dot14::from_f32(0.75), 2, F2Dot14::from_f32(1.0), 101)]);
        rt_value(st, "value:Paint:var_radial-distinct", &Paint::var_radial_gradient(cl, FWord::new(1), FWord::new(-2), UfWord::new(3), FWord::new(4), FWord::new(-5), UfWord::new(6), 7));
    }
    {
        use wt::name::*;
        let rec = |pid: u16, eid: u16, lid: u16, nid: u16, s: &str| NameRecord::new(pid, eid, lid, NameId::new(nid), s.to_string().into());
        let mut n = Name::default();
        // UTF-16 platforms (Unicode 0/x, Windows 3/1 and 3/10) with astral characters: two code units each
        n.name_record = vec![
            rec(0, 4, 0, 1, "𝒳𝒴 😀"),
            rec(0, 4, 0, 2, "😀"),
            rec(1, 0, 0, 1, "Mac only"),
            rec(3, 1, 0x409, 1, "a😀b𝒳c"),
            rec(3, 1, 0x409, 4, "𐀀"),
            rec(3, 10, 0x409, 1, "tail 𝒳"),
        ];
        rt_value(st, "value:Name:astral-utf16", &n);
        let mut n1 = n.clone();
        n1.lang_tag_record = Some(vec![LangTagRecord::new("en-😀".to_string().into()), LangTagRecord::new("𝒳".to_string().into()), LangTagRecord::new("plain".to_string().into())]);
        rt_value(st, "value:Name:astral-lang-tags", &n1);
    }
}

// ---------------------------------------------------------------------------------------------
// (1) every nullable offset to an array / collection in its three shapes: null, present-but-EMPTY,
//     present-and-non-empty (a conversion that decides null-ness from emptiness is visible only on the
//     middle one);  (2) every array counted by a 32-bit field once with more than 65535 elements (a reader
//     or writer that narrows the count to 16 bits is visible only there).
// ---------------------------------------------------------------------------------------------
fn values_offset_shapes_and_big_counts(st: &mut Stats) {
    const BIG: usize = 66_003; // > 65535 and not a multiple of anything convenient
    // --- nullable offsets to arrays: None / Some(empty) / Some(non-empty)
    {
        use wt::stat::*;
        let axes = vec![AxisRecord::new(Tag::new(b"wght"), NameId::new(256), 0), AxisRecord::new(Tag::new(b"wdth"), NameId::new(257), 1)];
        let vals: Vec<write_fonts::OffsetMarker<AxisValue>> = vec![AxisValue::format_1(0, AxisValueTableFlags::empty(), NameId::new(258), Fixed::from_f64(400.0)).into(), AxisValue::format_3(1, AxisValueTableFlags::empty(), NameId::new(259), Fixed::from_f64(100.0), Fixed::from_f64(75.0)).into()];
        for (shape, v) in [("none", None), ("some-empty", Some(vec![])), ("some-nonempty", Some(vals))] {
            for (ashape, a) in [("axes", axes.clone()), ("no-axes", vec![])] {
                let mut s = Stat::new(a, vec![], NameId::new(2));
                s.offset_to_axis_values = v.clone().into();
                rt_value(st, &format!("value:Stat:axis-values-{}:{}", shape, ashape), &s);
            }
        }
        use wt::colr::*;
        let base = vec![BaseGlyph::new(gid(1), 0, 1), BaseGlyph::new(gid(4), 1, 1)];
        let layers = vec![Layer::new(gid(2), 0), Layer::new(gid(3), 1)];
        for (bs, b) in [("none", None), ("some-empty", Some(vec![])), ("some-nonempty", Some(base))] {
            for (ls, l) in [("none", None), ("some-empty", Some(vec![])), ("some-nonempty", Some(layers.clone()))] {
                let nb = b.as_ref().map(|v: &Vec<BaseGlyph>| v.len()).unwrap_or(0) as u16;
                let nl = l.as_ref().map(|v: &Vec<Layer>| v.len()).unwrap_or(0) as u16;
                rt_value(st, &format!("value:Colr:base-{}:layers-{}", bs, ls), &Colr::new(nb, b.clone(), l.clone(), nl));
            }
        }
        use wt::cpal::*;
        for (cs, c) in [("none", None), ("some-empty", Some(vec![])), ("some-nonempty", Some(vec![ColorRecord::new(1, 2, 3, 4), ColorRecord::new(5, 6, 7, 8)]))] {
            let mut p = Cpal::default();
            let n = c.as_ref().map(|v: &Vec<ColorRecord>| v.len()).unwrap_or(0) as u16;
            p.num_palette_entries = n;
            p.num_palettes = if n > 0 { 1 } else { 0 };
            p.num_color_records = n;
            p.color_records_array = c.into();
            p.color_record_indices = if n > 0 { vec![0] } else { vec![] };
            rt_value(st, &format!("value:Cpal:color-records-{}", cs), &p);
            // the version-1 arrays: null / empty / non-empty (non-null ones are the known CPAL finding)
            for (k, which) in ["palette_types_array", "palette_labels_array", "palette_entry_labels_array"].iter().enumerate() {
                let mut q = p.clone();
                match k {
                    0 => q.palette_types_array = Some(vec![]).into(),
                    1 => q.palette_labels_array = Some(vec![]).into(),
                    _ => q.palette_entry_labels_array = Some(vec![]).into(),
                }
                rt_value_h(st, &format!("value:Cpal:color-records-{}:{}-some-empty", cs, which), &q, &Hooks { canon: None, classify: Some(&cpal_classify) });
            }
        }
    }
    // --- arrays counted by a u32 field, once above 65535 elements
    {
        use wt::variations::*;
        // DeltaSetIndexMap: the builder picks format 1 exactly when there are more than 65535 entries
        let big: DeltaSetIndexMap = (0..BIG as u32).map(|i| i % 251).collect();
        st.count(if matches!(big, DeltaSetIndexMap::Format1(_)) { "big.dsim-format1" } else { "big.dsim-format0(!)" });
        rt_value(st, "value:DeltaSetIndexMap:format1:66003-entries", &big);
        let big2: DeltaSetIndexMap = (0..BIG as u32).map(|i| ((i % 7) << 16) | (i % 65_521)).collect();
        rt_value(st, "value:DeltaSetIndexMap:format1:66003-wide-entries", &big2);
        rt_value(st, "value:DeltaSetIndexMap:format1:explicit-3-entries", &DeltaSetIndexMap::format_1(EntryFormat::empty(), 3, vec![0, 1, 2]));
        let small: DeltaSetIndexMap = (0..65_535u32).map(|i| i % 3).collect();
        rt_value(st, "value:DeltaSetIndexMap:format0:65535-entries", &small);
        // the same behind HVAR / VVAR (advance map) and avar 2 / COLR (var index map)
        rt_value(st, "value:Hvar:big-advance-map", &wt::hvar::Hvar::new(small_ivs(), Some(big.clone()), None, Some(small_dsim())));
        rt_value(st, "value:Hvar:big-lsb-map", &wt::hvar::Hvar::new(small_ivs(), None, Some(big2.clone()), None));
        rt_value(st, "value:Vvar:big-advance-map", &wt::vvar::Vvar::new(small_ivs(), Some(big.clone()), None, None, Some(big2.clone())));
        let mut c = wt::colr::Colr::new(0, None, None, 0);
        c.var_index_map = Some(big.clone()).into();
        c.item_variation_store = Some(small_ivs()).into();
        rt_value(st, "value:Colr:big-var-index-map", &c);
    }
    {
        use wt::cmap::*;
        let n = BIG;
        let groups: Vec<SequentialMapGroup> = (0..n as u32).map(|i| SequentialMapGroup::new(3 * i, 3 * i + 1, i % 60_000)).collect();
        rt_value(st, "value:Cmap12:66003-groups", &Cmap12::new(7, groups.clone()));
        rt_value(st, "value:Cmap8:66003-groups", &Cmap8::new(16 + 8192 + 12 * n as u32, 0, vec![0u8; 8192], n as u32, groups));
        let cgroups: Vec<ConstantMapGroup> = (0..n as u32).map(|i| ConstantMapGroup::new(2 * i, 2 * i + 1, i % 7)).collect();
        rt_value(st, "value:Cmap13:66003-groups", &Cmap13::new(16 + 12 * n as u32, 0, n as u32, cgroups));
        let ids: Vec<u16> = (0..n).map(|i| (i % 65_000) as u16).collect();
        rt_value(st, "value:Cmap10:66003-chars", &Cmap10::new(20 + 2 * n as u32, 0, 0x10000, n as u32, ids));
        let ranges: Vec<UnicodeRange> = (0..n as u32).map(|i| UnicodeRange::new(Uint24::new(4 * i), (i % 3) as u8)).collect();
        rt_value(st, "value:DefaultUvs:66003-ranges", &DefaultUvs::new(n as u32, ranges));
        let maps: Vec<UvsMapping> = (0..n as u32).map(|i| UvsMapping::new(Uint24::new(i), (i % 65_000) as u16)).collect();
        rt_value(st, "value:NonDefaultUvs:66003-mappings", &NonDefaultUvs::new(n as u32, maps));
    }
    {
        use wt::colr::*;
        let n = BIG;
        // the paints / boxes are all equal, so the object graph stays tiny (shared children)
        let paint = || Paint::solid(1, F2Dot14::from_f32(1.0));
        let recs: Vec<BaseGlyphPaint> = (0..n).map(|i| BaseGlyphPaint::new(gid((i % 65_000) as u16), paint())).collect();
        rt_value(st, "value:BaseGlyphList:66003-records", &BaseGlyphList::new(n as u32, recs));
        rt_value(st, "value:LayerList:66003-paints", &LayerList::new(n as u32, (0..n).map(|_| paint()).collect()));
        let clips: Vec<Clip> = (0..n).map(|i| Clip::new(gid((i % 65_000) as u16), gid((i % 65_000) as u16), ClipBox::format_1(FWord::new(0), FWord::new(0), FWord::new(10), FWord::new(10)))).collect();
        rt_value(st, "value:ClipList:66003-clips", &ClipList::new(1, n as u32, clips));
    }
    {
        use wt::layout::*;
        let recs: Vec<FeatureVariationRecord> = (0..BIG).map(|_| FeatureVariationRecord::new(None, None)).collect();
        rt_value(st, "value:FeatureVariations:66003-records", &FeatureVariations::new(recs));
        use wt::meta::*;
        let maps: Vec<DataMapRecord> = (0..BIG).map(|i| DataMapRecord::new(Tag::new(&[b'a' + (i % 26) as u8, b'a' + ((i / 26) % 26) as u8, b'a' + ((i / 676) % 26) as u8, b'a' + ((i / 17_576) % 26) as u8]), Metadata::Other(vec![7]))).collect();
        rt_value(st, "value:Meta:66003-data-maps", &Meta::new(maps));
    }
}

// ---------------------------------------------------------------------------------------------
// hand-written custom codecs embedded in generated tables: PackedDeltas / PackedPointNumbers.
// write with write-fonts, read with the read-fonts iterators, compare the values (oracle) and print the
// (input, bytes, decoded) triple for the Coq model (C10's encoder / decoder, imported by coq/C04/Codec.v).
// ---------------------------------------------------------------------------------------------
fn codec_deltas(st: &mut Stats, cw: &mut CaseWriter, key: &str, ds: &[i32], model: bool) {
    use write_fonts::read::tables::variations as rv;
    st.evaluations += 1;
    let v = ds.to_vec();
    let r = catch(AssertUnwindSafe(|| {
        let bytes = dump_table(&wt::variations::PackedDeltas::new(v.clone())).map_err(|e| e.to_string())?;
        let back: Vec<i32> = rv::PackedDeltas::consume_all(FontData::new(&bytes)).iter().collect();
        // (the count-known form, PackedDeltas::new, is crate-private: exercised through gvar below)
        let back_n: Vec<i32> = back.clone();
        Ok::<_, String>((bytes, back, back_n))
    }));
    match r {
        Ok(Ok((bytes, back, back_n))) => {
            if back == ds && back_n == ds {
                st.count("codec.deltas.ok");
                st.nontrivial(key);
            } else {
                st.count("codec.deltas.differs");
                let i = back.iter().zip(ds.iter()).position(|(a, b)| a != b).unwrap_or(back.len().min(ds.len()));
                let k = format!("codec:PackedDeltas:{}", key);
                let v = json!({"key": k, "outcome": "decoded deltas differ", "first_diff_index": i, "written": ds.get(i), "reread": back.get(i), "written_len": ds.len(), "reread_len": back.len(), "reread_n_len": back_n.len()});
                fail(st, &k, v);
            }
            if model && bytes.len() <= 1500 {
                cw.push(format!("CDeltas {} {} {}", czlist(ds.iter().map(|x| *x as i128)), cbytes(&bytes), czlist(back.iter().map(|x| *x as i128))));
            }
        }
        other => {
            let k = format!("codec:PackedDeltas:{}", key);
            let v = json!({"key": k, "outcome": "writer / reader failed", "detail": format!("{:?}", other).chars().take(300).collect::<String>()});
            fail(st, &k, v);
        }
    }
}

fn codec_points(st: &mut Stats, cw: &mut CaseWriter, key: &str, pts: Option<&[u16]>, model: bool) {
    use write_fonts::read::tables::variations as rv;
    use wt::variations::PackedPointNumbers as W;
    st.evaluations += 1;
    let w = match pts {
        None => W::All,
        Some(p) => W::Some(p.to_vec()),
    };
    let r = catch(AssertUnwindSafe(|| {
        let bytes = dump_table(&w).map_err(|e| e.to_string())?;
        let mut more = bytes.clone();
        more.extend_from_slice(&[0xAA, 0xBB, 0xCC]);
        let (p, rest) = rv::PackedPointNumbers::split_off_front(FontData::new(&more));
        let count = p.count();
        let back: Option<Vec<u16>> = if count == 0 { None } else { Some(p.iter().take(count as usize + 3).collect()) };
        Ok::<_, String>((bytes, count, back, rest.as_bytes().to_vec()))
    }));
    let k = format!("codec:PackedPointNumbers:{}", key);
    match r {
        Ok(Ok((bytes, count, back, rest))) => {
            // an empty Some(list) is written as the single byte 0 = "all points" (C10 notes); expected
            let expect: Option<Vec<u16>> = match pts {
                Some(p) if !p.is_empty() => Some(p.to_vec()),
                _ => None,
            };
            let ok = back == expect && rest == [0xAA, 0xBB, 0xCC] && count as usize == expect.as_ref().map(|v| v.len()).unwrap_or(0);
            if ok {
                st.count("codec.points.ok");
                st.nontrivial(key);
            } else {
                st.count("codec.points.differs");
                let v = json!({"key": k, "outcome": "decoded point numbers / consumed length differ", "written_len": pts.map(|p| p.len()), "reread_count": count, "reread_len": back.as_ref().map(|b| b.len()), "bytes_head": &bytes[..bytes.len().min(4)], "trailing_after_split": rest.len()});
                fail(st, &k, v);
            }
            if model && bytes.len() <= 1500 {
                let cp = |o: Option<Vec<i128>>| copt(o.map(|v| czlist(v)));
                cw.push(format!("CPoints {} {} {}", cp(pts.map(|p| p.iter().map(|x| *x as i128).collect())), cbytes(&bytes), cp(back.map(|b| b.iter().map(|x| *x as i128).collect()))));
            }
        }
        Ok(Err(e)) => {
            // validation refuses > 32767 points: not in the property's quantifier
            st.count("codec.points.invalid");
            let _ = e;
        }
        Err(p) => {
            let v = json!({"key": k, "outcome": "writer / reader panicked", "panic": p});
            fail(st, &k, v);
        }
    }
}

fn values_custom_codecs(st: &mut Stats, cw: &mut CaseWriter, rng: &mut Rng) {
    // ---- PackedDeltas: a grammar of run kinds (zero / i8 / i16 / i32) in every ordered pair and triple
    let kinds: [(&str, Vec<i32>); 4] = [
        ("Z", vec![0]),
        ("B", vec![-128, 127, -1, 1, 5]),
        ("W", vec![-129, 128, -32768, 32767, 1000]),
        ("L", vec![-32769, 32768, 70000, i32::MIN, i32::MAX, -70000]),
    ];
    let lens = [1usize, 2, 63, 64, 65];
    let run = |k: usize, n: usize, phase: usize| -> Vec<i32> { (0..n).map(|i| kinds[k].1[(i + phase) % kinds[k].1.len()]).collect() };
    for k in 0..4 {
        for &n in &[0usize, 1, 2, 63, 64, 65, 127, 128, 129, 200] {
            for phase in 0..kinds[k].1.len().min(3) {
                codec_deltas(st, cw, &format!("{}{}p{}", kinds[k].0, n, phase), &run(k, n, phase), n <= 65);
            }
        }
    }
    for a in 0..4 {
        for b in 0..4 {
            for &la in &lens {
                for &lb in &lens {
                    for phase in 0..2 {
                        let mut v = run(a, la, phase);
                        v.extend(run(b, lb, phase + 1));
                        codec_deltas(st, cw, &format!("{}{}{}{}p{}", kinds[a].0, la, kinds[b].0, lb, phase), &v, la + lb <= 66 && phase == 0);
                    }
                }
            }
            for c in 0..4 {
                for _ in 0..3 {
                    let (la, lb, lc) = (*rng.pick(&[1usize, 1, 2, 3, 64]), *rng.pick(&[1usize, 1, 2, 63]), *rng.pick(&[1usize, 2, 65]));
                    let ph = rng.below(5) as usize;
                    let mut v = run(a, la, ph);
                    v.extend(run(b, lb, ph + 1));
                    v.extend(run(c, lc, ph + 2));
                    codec_deltas(st, cw, &format!("{}{}{}{}{}{}p{}", kinds[a].0, la, kinds[b].0, lb, kinds[c].0, lc, ph), &v, la + lb + lc <= 70);
                }
            }
        }
    }
    // random mixtures
    for i in 0..200 {
        let n = rng.below(40) as usize;
        let v: Vec<i32> = (0..n)
            .map(|_| {
                let k = rng.below(4) as usize;
                *rng.pick(&kinds[k].1)
            })
            .collect();
        codec_deltas(st, cw, &format!("random{}", i), &v, true);
    }
    // ---- PackedPointNumbers
    codec_points(st, cw, "All", None, true);
    let build = |first: u16, gaps: &mut dyn FnMut(usize) -> u32, n: usize| -> Vec<u16> {
        let mut v = vec![];
        let mut cur = first as u32;
        for i in 0..n {
            if i > 0 {
                cur += gaps(i);
            }
            if cur > 65535 {
                break;
            }
            v.push(cur as u16);
        }
        v
    };
    let counts = [0usize, 1, 2, 126, 127, 128, 129, 130, 255, 256, 257, 300];
    for &n in &counts {
        for &first in &[0u16, 5, 255, 256, 300] {
            // byte gaps only, word gaps only (as far as u16 allows), alternating blocks of k byte / k word gaps
            codec_points(st, cw, &format!("n{}:first{}:gap1", n, first), Some(&build(first, &mut |_| 1, n)), n <= 130);
            codec_points(st, cw, &format!("n{}:first{}:gap255", n, first), Some(&build(first, &mut |_| 255, n)), n <= 130);
            codec_points(st, cw, &format!("n{}:first{}:gap256", n, first), Some(&build(first, &mut |_| 256, n)), n <= 130);
            for &k in &[1usize, 2, 127, 128, 129] {
                codec_points(st, cw, &format!("n{}:first{}:blocks{}", n, first, k), Some(&build(first, &mut |i| if (i / k) % 2 == 0 { 1 } else { 257 }, n)), n <= 130 && k <= 2);
            }
            codec_points(st, cw, &format!("n{}:first{}:one-word-gap-in-the-middle", n, first), Some(&build(first, &mut |i| if i == n / 2 { 1000 } else { 3 }, n)), n <= 130);
        }
    }
    // duplicates (gap 0) are legal for the codec
    codec_points(st, cw, "dups", Some(&[7, 7, 7, 8, 8, 300, 300]), true);
    // ---- embedded: gvar glyph variation data whose private point list has exactly n points
    {
        use wt::gvar::*;
        for &n_req in &[1usize, 2, 126, 127, 128, 129, 130, 255, 256, 257] {
            for &stride in &[1usize, 3] {
                let total = 800;
                let deltas: Vec<GlyphDelta> = (0..total)
                    .map(|i| if i % stride == 0 && i / stride < n_req { GlyphDelta::required((i as i16 % 300) - 150, 1000 - i as i16) } else { GlyphDelta::optional(2000 + i as i16, -3000 - i as i16) })
                    .collect();
                let key = format!("gvar:req{}:stride{}", n_req, stride);
                st.evaluations += 1;
                let d2 = deltas.clone();
                let r = catch(AssertUnwindSafe(move || {
                    let gv = GlyphVariations::new(GlyphId::new(0), vec![GlyphDeltas::new(vec![Tent::new(F2Dot14::from_f32(1.0), None)], d2)]);
                    let g = Gvar::new(vec![gv], 1).map_err(|e| e.to_string())?;
                    let bytes = dump_table(&g).map_err(|e| e.to_string())?;
                    let t = write_fonts::read::tables::gvar::Gvar::read(FontData::new(&bytes)).map_err(|e| e.to_string())?;
                    let data = t.glyph_variation_data(GlyphId::new(0)).map_err(|e| e.to_string())?.ok_or("no data")?;
                    let mut out = vec![];
                    let mut n_tuples = 0;
                    for tup in data.tuples() {
                        n_tuples += 1;
                        for d in tup.deltas() {
                            out.push((d.position, d.x_delta, d.y_delta));
                        }
                    }
                    Ok::<_, String>((n_tuples, out))
                }));
                let k = format!("codec:{}", key);
                match r {
                    Ok(Ok((n_tuples, out))) => {
                        let mut bad = n_tuples != 1;
                        let mut seen = vec![false; deltas.len()];
                        for (pos, x, y) in &out {
                            match deltas.get(*pos as usize) {
                                Some(d) if d.x as i32 == *x && d.y as i32 == *y => seen[*pos as usize] = true,
                                _ => bad = true,
                            }
                        }
                        if deltas.iter().zip(seen.iter()).any(|(d, s)| d.required && !*s) {
                            bad = true;
                        }
                        if bad {
                            st.count("codec.gvar.differs");
                            let v = json!({"key": k, "outcome": "re-read gvar deltas differ from the written ones", "reread_points": out.len(), "required": n_req});
                            fail(st, &k, v);
                        } else {
                            st.count("codec.gvar.ok");
                            st.nontrivial(&key);
                        }
                    }
                    other => {
                        let v = json!({"key": k, "outcome": "gvar build / read failed", "detail": format!("{:?}", other).chars().take(300).collect::<String>()});
                        fail(st, &k, v);
                    }
                }
            }
        }
    }
}

// ---------------------------------------------------------------------------------------------
// 16-bit offset boundary: for each table family with variable-size children behind Offset16, sweep the
// size of a filler child one element at a time across the window in which the NEXT child's offset passes
// 65536 (65520 … 65550 whatever the family's header size).  Whenever dump_table says Ok the value must read
// back equal (a mis-written offset — truncated, wrapped to 0 = null — shows as a difference); beyond the
// limit the packer must either reorder or refuse (PackingFailed), never emit a wrong table.
// ---------------------------------------------------------------------------------------------
fn sweep<T>(st: &mut Stats, family: &str, mk: &dyn Fn(usize) -> T, lo: usize, hi: usize)
where
    T: FontWrite + Validate + PartialEq + Debug + for<'a> FontRead<'a>,
{
    let (mut n_ok, mut n_pack, mut last_ok_len, mut first_pack) = (0u64, 0u64, 0usize, 0usize);
    for n in lo..=hi {
        let v = mk(n);
        let (r, b) = rt_core(&v, &|b: &[u8]| T::read(FontData::new(b)).map_err(|e| e.to_string()));
        match &r {
            Rt::Ok => {
                n_ok += 1;
                last_ok_len = b.as_ref().map(|b| b.len()).unwrap_or(0);
                st.evaluations += 1;
                st.count("boundary.ok");
                st.nontrivial(&format!("boundary:{}:n{}", family, n));
            }
            Rt::PackFail(_) => {
                n_pack += 1;
                if first_pack == 0 {
                    first_pack = n;
                }
                st.evaluations += 1;
                st.count("boundary.packfail");
            }
            _ => record(st, "boundary", format!("boundary:{}:filler{}", family, n), &r, b.map(|b| b.len()).unwrap_or(0)),
        }
    }
    let list = st.v.entry("offset16_boundary_sweeps").or_insert_with(|| json!([]));
    if let Some(a) = list.as_array_mut() {
        a.push(json!({"family": family, "filler_range": [lo, hi], "ok": n_ok, "packing_failed": n_pack, "largest_ok_table_bytes": last_ok_len, "first_refused_filler": first_pack}));
    }
}

fn values_offset16_boundaries(st: &mut Stats) {
    use wt::gsub::*;
    use wt::layout::*;
    let g = |n: usize| -> Vec<GlyphId16> { (0..n).map(|i| gid((i % 60_000) as u16)).collect() };
    let cov2 = || CoverageTable::format_1(vec![gid(1), gid(2)]);
    let (lo, hi) = (32_768 - 26, 32_768 + 6);
    // GSUB type 2 / 3: sequences / alternate sets, big child first and big child second
    sweep(st, "MultipleSubstFormat1:big-first", &|n| MultipleSubstFormat1::new(cov2(), vec![Sequence::new(g(n)), Sequence::new(vec![gid(7), gid(8)])]), lo, hi);
    sweep(st, "MultipleSubstFormat1:big-second", &|n| MultipleSubstFormat1::new(cov2(), vec![Sequence::new(vec![gid(7), gid(8)]), Sequence::new(g(n))]), lo, hi);
    sweep(st, "MultipleSubstFormat1:three", &|n| MultipleSubstFormat1::new(CoverageTable::format_1(vec![gid(1), gid(2), gid(3)]), vec![Sequence::new(vec![gid(9)]), Sequence::new(g(n)), Sequence::new(vec![gid(7), gid(8), gid(9)])]), lo, hi);
    sweep(st, "AlternateSubstFormat1:big-first", &|n| AlternateSubstFormat1::new(cov2(), vec![AlternateSet::new(g(n)), AlternateSet::new(vec![gid(7), gid(8)])]), lo, hi);
    sweep(st, "AlternateSubstFormat1:big-second", &|n| AlternateSubstFormat1::new(cov2(), vec![AlternateSet::new(vec![gid(7)]), AlternateSet::new(g(n))]), lo, hi);
    // GSUB type 4: ligatures behind a ligature set; and ligature sets behind the subtable
    sweep(st, "LigatureSet:big-first", &|n| LigatureSet::new(vec![Ligature::new(gid(40), g(n)), Ligature::new(gid(41), vec![gid(5), gid(6)])]), lo, hi);
    sweep(st, "LigatureSubstFormat1:big-set-first", &|n| LigatureSubstFormat1::new(cov2(), vec![LigatureSet::new(vec![Ligature::new(gid(40), g(n))]), LigatureSet::new(vec![Ligature::new(gid(41), vec![gid(5)])])]), lo, hi);
    // coverage / class def children behind a big inline array or a big sibling
    sweep(st, "SingleSubstFormat2:coverage-after-big-parent", &|n| SingleSubstFormat2::new(CoverageTable::format_1(g(3)), g(n)), lo, hi);
    sweep(st, "SequenceContextFormat2:big-classdef", &|n| SequenceContextFormat2::new(cov2(), ClassDef::format_1(gid(1), (0..n).map(|i| (i % 3) as u16).collect()), vec![None, Some(ClassSequenceRuleSet::new(vec![ClassSequenceRule::new(vec![1, 2], vec![SequenceLookupRecord::new(0, 1)])]))]), lo, hi);
    sweep(st, "SequenceContextFormat2:big-coverage", &|n| SequenceContextFormat2::new(CoverageTable::format_1(g(n)), ClassDef::format_1(gid(1), vec![1, 2]), vec![Some(ClassSequenceRuleSet::new(vec![ClassSequenceRule::new(vec![1], vec![])]))]), lo, hi);
    {
        use wt::gpos::*;
        let xa = |v: i16| ValueRecord::new().with_x_advance(v).with_explicit_value_format(ValueFormat::X_ADVANCE);
        let e = || ValueRecord::new().with_explicit_value_format(ValueFormat::empty());
        sweep(st, "PairPosFormat2:big-classdef1", &|n| PairPosFormat2::new(cov2(), ClassDef::format_1(gid(1), (0..n).map(|i| (i % 2) as u16).collect()), ClassDef::format_1(gid(30), vec![1]), vec![Class1Record::new(vec![Class2Record::new(xa(1), e()), Class2Record::new(xa(2), e())]), Class1Record::new(vec![Class2Record::new(xa(3), e()), Class2Record::new(xa(4), e())])]), lo, hi);
        sweep(st, "MarkArray:anchors-after-big-sibling", &|n| MarkBasePosFormat1::new(CoverageTable::format_1(g(n)), CoverageTable::format_1(vec![gid(50)]), MarkArray::new(vec![MarkRecord::new(0, AnchorTable::format_1(1, 2))]), BaseArray::new(vec![BaseRecord::new(vec![Some(AnchorTable::format_2(3, 4, 5))])])), lo, hi);
    }
    // GDEF attach list, script / lang sys, feature / lookup lists
    {
        use wt::gdef::*;
        sweep(st, "AttachList:big-first", &|n| AttachList::new(cov2(), vec![AttachPoint::new((0..n).map(|i| (i % 999) as u16).collect()), AttachPoint::new(vec![1, 2, 3])]), lo, hi);
        sweep(st, "AttachList:big-second", &|n| AttachList::new(cov2(), vec![AttachPoint::new(vec![1, 2, 3]), AttachPoint::new((0..n).map(|i| (i % 999) as u16).collect())]), lo, hi);
        sweep(st, "LigCaretList:big-lig-glyph", &|n| LigCaretList::new(cov2(), vec![LigGlyph::new(vec![CaretValue::format_1(5)]), LigGlyph::new((0..(n / 2)).map(|_| CaretValue::format_1(7)).collect())]), 2 * lo - 60, 2 * lo - 60 + 1);
    }
    sweep(st, "Script:big-default-langsys", &|n| Script::new(Some(LangSys::new((0..n).map(|i| (i % 500) as u16).collect())), vec![LangSysRecord::new(Tag::new(b"TRK "), LangSys::new(vec![1, 2]))]), lo, hi);
    sweep(st, "ScriptList:big-script-first", &|n| ScriptList::new(vec![ScriptRecord::new(Tag::new(b"DFLT"), Script::new(Some(LangSys::new((0..n).map(|i| (i % 500) as u16).collect())), vec![])), ScriptRecord::new(Tag::new(b"latn"), Script::new(Some(LangSys::new(vec![3])), vec![]))]), lo, hi);
    sweep(st, "FeatureList:big-feature-first", &|n| FeatureList::new(vec![FeatureRecord::new(Tag::new(b"aalt"), Feature::new(None, (0..n).map(|i| (i % 100) as u16).collect())), FeatureRecord::new(Tag::new(b"liga"), Feature::new(None, vec![0, 1]))]), lo, hi);
    // name: string storage offsets are 16-bit and relative to the storage area; Mac Roman strings are one byte
    // per character, so both parities of the boundary are reached
    {
        use wt::name::*;
        let rec = |pid: u16, eid: u16, lid: u16, nid: u16, s: String| NameRecord::new(pid, eid, lid, NameId::new(nid), s.into());
        // two filler strings of about 32 KB each, so that the THIRD string's storage offset passes 65536 while
        // every single string stays below the 65535-byte limit of a name record's length field
        sweep(st, "Name:mac-string-storage", &|n| {
            let mut t = Name::default();
            t.name_record = vec![rec(1, 0, 0, 1, "x".repeat(32_768)), rec(1, 0, 0, 2, "z".repeat(n)), rec(1, 0, 0, 3, "third!".to_string()), rec(1, 0, 0, 4, "4th".to_string())];
            t
        }, 32_768 - 20, 32_768 + 4);
        sweep(st, "Name:utf16-string-storage", &|n| {
            let mut t = Name::default();
            t.name_record = vec![rec(3, 1, 0x409, 1, "y".repeat(16_384)), rec(3, 1, 0x409, 2, "w".repeat(n)), rec(3, 1, 0x409, 3, "third!".to_string()), rec(3, 1, 0x409, 4, "4th".to_string())];
            t
        }, 16_384 - 12, 16_384 + 3);
        // a single string whose encoded form does not fit the 16-bit length field: validates, then the
        // writer panics instead of returning an error (finding; one stable key for both encodings)
        for (enc, r) in [("mac", rec(1, 0, 0, 1, "x".repeat(65_536))), ("utf16", rec(3, 1, 0x409, 1, "y".repeat(32_768)))] {
            let mut t = Name::default();
            t.name_record = vec![r];
            let (rr, b) = rt_core(&t, &|b: &[u8]| Name::read(FontData::new(b)).map_err(|e| e.to_string()));
            let key = if matches!(rr, Rt::Panic(_)) { "name:string-over-65535-bytes-panics".to_string() } else { format!("value:Name:64k-string:{}", enc) };
            record(st, "value", key, &rr, b.map(|b| b.len()).unwrap_or(0));
        }
    }
}

// ---------------------------------------------------------------------------------------------
// glyf composites: generated components (anchor kind x boundary values x transform kind x flags),
// with and without instructions; written with write-fonts, read back through BOTH read-fonts decoders
// (components() and the fast flags iterator / instructions()), converted to owned, recompiled.
// ---------------------------------------------------------------------------------------------
fn composite_case(st: &mut Stats, key: &str, comps: &[wt::glyf::Component], instructions: &[u8]) {
    use wt::glyf::*;
    use write_fonts::read::tables::glyf as rg;
    let bbox = Bbox { x_min: -11, y_min: -22, x_max: 33, y_max: 44 };
    let mk = |cs: &[Component]| {
        let mut g = CompositeGlyph::new(cs[0].clone(), bbox);
        for c in &cs[1..] {
            g.add_component(c.clone(), bbox);
        }
        g
    };
    let owned = mk(comps);
    // (1) the owned value (no instructions can be set through the public API)
    let b0 = match rt_value(st, &format!("value:CompositeGlyph:{}", key), &owned) {
        Some(b) => b,
        None => return,
    };
    // (2) the same glyph with instructions, as a font would contain it: WE_HAVE_INSTRUCTIONS on the last
    //     component + u16 length + bytes
    let mut bytes = b0.clone();
    if !instructions.is_empty() {
        let last_flags_at = if comps.len() == 1 { 10 } else { dump_table(&mk(&comps[..comps.len() - 1])).map(|b| b.len()).unwrap_or(10) };
        bytes[last_flags_at] |= 0x01; // WE_HAVE_INSTRUCTIONS = 0x0100
        bytes.extend_from_slice(&(instructions.len() as u16).to_be_bytes());
        bytes.extend_from_slice(instructions);
        if bytes.len() % 2 == 1 {
            bytes.push(0); // glyphs are padded to 2-byte alignment, as the writer does
        }
    }
    st.evaluations += 1;
    let k = format!("composite:{}:ins{}", key, instructions.len());
    let comps2 = comps.to_vec();
    let ins2 = instructions.to_vec();
    let bytes2 = bytes.clone();
    let r = catch(AssertUnwindSafe(move || -> Result<(), String> {
        let t = rg::CompositeGlyph::read(FontData::new(&bytes2)).map_err(|e| e.to_string())?;
        // decoder 1: components()
        let got: Vec<rg::Component> = t.components().collect();
        if got.len() != comps2.len() {
            return Err(format!("components(): {} components, wrote {}", got.len(), comps2.len()));
        }
        for (i, (g, w)) in got.iter().zip(comps2.iter()).enumerate() {
            let f = g.flags;
            let wf = w.flags;
            let flags_ok = f.contains(rg::CompositeGlyphFlags::ROUND_XY_TO_GRID) == wf.round_xy_to_grid
                && f.contains(rg::CompositeGlyphFlags::USE_MY_METRICS) == wf.use_my_metrics
                && f.contains(rg::CompositeGlyphFlags::SCALED_COMPONENT_OFFSET) == wf.scaled_component_offset
                && f.contains(rg::CompositeGlyphFlags::UNSCALED_COMPONENT_OFFSET) == wf.unscaled_component_offset
                && f.contains(rg::CompositeGlyphFlags::OVERLAP_COMPOUND) == wf.overlap_compound
                && f.contains(rg::CompositeGlyphFlags::MORE_COMPONENTS) == (i + 1 < comps2.len())
                && f.contains(rg::CompositeGlyphFlags::WE_HAVE_INSTRUCTIONS) == (i + 1 == comps2.len() && !ins2.is_empty());
            if g.glyph != w.glyph || g.anchor != w.anchor || g.transform != w.transform || !flags_ok {
                return Err(format!("components()[{}]: read {:?}, wrote {:?}", i, g, w));
            }
        }
        // decoder 2: the fast iterator and what hangs off it
        let fast: Vec<GlyphId16> = t.component_glyphs_and_flags().map(|(g, _)| g).collect();
        let want: Vec<GlyphId16> = comps2.iter().map(|c| c.glyph).collect();
        if fast != want {
            return Err(format!("component_glyphs_and_flags(): {:?}, wrote {:?}", fast, want));
        }
        let (n, ins) = t.count_and_instructions();
        let want_ins: Option<&[u8]> = if ins2.is_empty() { None } else { Some(&ins2) };
        if n != comps2.len() || ins != want_ins || t.instructions() != want_ins {
            return Err(format!("count_and_instructions(): ({}, {:?} bytes), instructions(): {:?} bytes; wrote {} components, {} instruction bytes", n, ins.map(|i| i.len()), t.instructions().map(|i| i.len()), comps2.len(), ins2.len()));
        }
        // parsed -> owned -> compile: the same bytes; re-read owned: the same value; also through the Glyph union
        let o1: CompositeGlyph = t.to_owned_table();
        let b1 = dump_table(&o1).map_err(|e| e.to_string())?;
        if b1 != bytes2 {
            return Err(format!("owned form of the parsed glyph compiles to {} bytes, source has {}", b1.len(), bytes2.len()));
        }
        let o2 = CompositeGlyph::read(FontData::new(&b1)).map_err(|e| e.to_string())?;
        if o2 != o1 {
            return Err("re-read owned composite differs".into());
        }
        match Glyph::read(FontData::new(&bytes2)).map_err(|e| e.to_string())? {
            Glyph::Composite(c) if c == o1 => {}
            other => return Err(format!("Glyph::read gives {:?}", other).chars().take(200).collect()),
        }
        Ok(())
    }));
    match r {
        Ok(Ok(())) => {
            st.count("composite.ok");
            st.nontrivial(&k);
        }
        Ok(Err(e)) | Err(e) => {
            st.count("composite.differs");
            let v = json!({"key": k, "outcome": "composite glyph does not read back", "detail": e.chars().take(400).collect::<String>()});
            fail(st, &k, v);
        }
    }
}

fn values_composites(st: &mut Stats, rng: &mut Rng) {
    use wt::glyf::*;
    let off_vals = [-129i16, -128, -1, 0, 127, 128, 300, -32768, 32767];
    let pt_vals = [0u16, 1, 127, 128, 254, 255, 256, 65535];
    let f = |v: f32| F2Dot14::from_f32(v);
    let transforms = [
        ("none", Transform { xx: f(1.0), yx: f(0.0), xy: f(0.0), yy: f(1.0) }),
        ("scale", Transform { xx: f(0.5), yx: f(0.0), xy: f(0.0), yy: f(0.5) }),
        ("xy", Transform { xx: f(0.5), yx: f(0.0), xy: f(0.0), yy: f(-1.25) }),
        ("2x2", Transform { xx: f(0.25), yx: f(0.5), xy: f(-0.75), yy: f(1.5) }),
        ("2x2-yx-only", Transform { xx: f(1.0), yx: f(-0.125), xy: f(0.0), yy: f(1.0) }),
    ];
    let flag_sets: Vec<ComponentFlags> = (0..6)
        .map(|k| ComponentFlags { round_xy_to_grid: k == 1, use_my_metrics: k == 2, scaled_component_offset: k == 3, unscaled_component_offset: k == 4, overlap_compound: k == 5 })
        .collect();
    let ins_lens = [0usize, 1, 3, 255, 256];
    let ins = |n: usize| -> Vec<u8> { (0..n).map(|i| (i * 7 + 1) as u8).collect() };
    let mut anchors: Vec<(String, Anchor)> = vec![];
    for &x in &off_vals {
        for &y in &off_vals {
            anchors.push((format!("off({},{})", x, y), Anchor::Offset { x, y }));
        }
    }
    for &b in &pt_vals {
        for &c in &pt_vals {
            anchors.push((format!("pt({},{})", b, c), Anchor::Point { base: b, component: c }));
        }
    }
    // single component: every anchor x every transform; flags and instruction lengths cycle
    let mut i = 0usize;
    for (an, a) in &anchors {
        for (tn, t) in &transforms {
            let fl = flag_sets[i % flag_sets.len()];
            let c = Component::new(gid(100 + (i % 900) as u16), *a, *t, fl);
            composite_case(st, &format!("1:{}:{}:f{}", an, tn, i % flag_sets.len()), &[c], &ins(ins_lens[i % ins_lens.len()]));
            i += 1;
        }
    }
    // every flag x every transform x with / without instructions on a fixed anchor
    for (fi, fl) in flag_sets.iter().enumerate() {
        for (tn, t) in &transforms {
            for &il in &ins_lens {
                let c = Component::new(gid(7), Anchor::Offset { x: 5, y: -6 }, *t, *fl);
                composite_case(st, &format!("flags{}:{}", fi, tn), &[c], &ins(il));
            }
        }
    }
    // 2..4 components: random mixtures (each position gets every transform kind in turn)
    for k in 0..240usize {
        let n = 2 + k % 3;
        let comps: Vec<Component> = (0..n)
            .map(|j| {
                let (_, a) = rng.pick(&anchors).clone();
                let (_, t) = transforms[(k + j * 2 + j * j) % transforms.len()];
                Component::new(gid(rng.below(65_535) as u16), a, t, *rng.pick(&flag_sets))
            })
            .collect();
        composite_case(st, &format!("{}:mix{}", n, k), &comps, &ins(ins_lens[k % ins_lens.len()]));
    }
    // through GlyfLocaBuilder: glyf + loca of simple, composite and empty glyphs, read back glyph by glyph
    {
        use write_fonts::read::tables as rt;
        let mut path = kurbo::BezPath::new();
        path.move_to((0.0, 0.0));
        path.line_to((100.0, 0.0));
        path.quad_to((150.0, 80.0), (50.0, 100.0));
        path.close_path();
        let simple = SimpleGlyph::from_bezpath(&path).ok();
        for round in 0..6usize {
            let mut glyphs: Vec<Glyph> = vec![];
            if let Some(sg) = &simple {
                glyphs.push(Glyph::Simple(sg.clone()));
            }
            glyphs.push(Glyph::Empty);
            for j in 0..4usize {
                let (_, a) = anchors[(round * 37 + j * 11) % anchors.len()].clone();
                let (_, t) = transforms[(round + j) % transforms.len()];
                let mut cg = CompositeGlyph::new(Component::new(gid(0), a, t, flag_sets[(round + j) % 6]), Bbox { x_min: 0, y_min: 0, x_max: 9, y_max: 9 });
                if j % 2 == 1 {
                    cg.add_component(Component::new(gid(1), Anchor::Point { base: 255, component: 255 }, transforms[3].1, flag_sets[j]), Bbox { x_min: -5, y_min: 0, x_max: 9, y_max: 19 });
                }
                glyphs.push(Glyph::Composite(cg));
            }
            st.evaluations += 1;
            let k = format!("glyf-loca-builder:{}", round);
            let gl = glyphs.clone();
            let r = catch(AssertUnwindSafe(move || -> Result<(), String> {
                let mut b = GlyfLocaBuilder::new();
                for g in &gl {
                    b.add_glyph(g).map_err(|e| e.to_string())?;
                }
                let (glyf, loca, fmt) = b.build();
                let gb = dump_table(&glyf).map_err(|e| e.to_string())?;
                let lb = dump_table(&loca).map_err(|e| e.to_string())?;
                let rglyf = rt::glyf::Glyf::read(FontData::new(&gb)).map_err(|e| e.to_string())?;
                let rloca = rt::loca::Loca::read(FontData::new(&lb), matches!(fmt, wt::loca::LocaFormat::Long)).map_err(|e| e.to_string())?;
                for (i, g) in gl.iter().enumerate() {
                    let back = rloca.get_glyf(GlyphId::new(i as u32), &rglyf).map_err(|e| e.to_string())?;
                    let owned: Glyph = match back {
                        Some(t) => t.to_owned_table(),
                        None => Glyph::Empty,
                    };
                    if &owned != g {
                        return Err(format!("glyph {} reads back as {:?}, wrote {:?}", i, owned, g).chars().take(400).collect());
                    }
                }
                Ok(())
            }));
            match r {
                Ok(Ok(())) => {
                    st.count("glyf-loca-builder.ok");
                    st.nontrivial(&k);
                }
                Ok(Err(e)) | Err(e) => {
                    let v = json!({"key": k, "outcome": "glyf/loca built by GlyfLocaBuilder does not read back", "detail": e});
                    fail(st, &k, v);
                }
            }
        }
    }
}

fn values_misc(st: &mut Stats, rng: &mut Rng) {
    // maxp 0.5 / 1.0
    {
        use wt::maxp::Maxp;
        rt_value(st, "value:Maxp:v0.5", &Maxp::new(7));
        let mut m = Maxp::new(300);
        m.max_points = Some(1);
        m.max_contours = Some(2);
        m.max_composite_points = Some(3);
        m.max_composite_contours = Some(4);
        m.max_zones = Some(2);
        m.max_twilight_points = Some(6);
        m.max_storage = Some(7);
        m.max_function_defs = Some(8);
        m.max_instruction_defs = Some(9);
        m.max_stack_elements = Some(10);
        m.max_size_of_instructions = Some(11);
        m.max_component_elements = Some(12);
        m.max_component_depth = Some(13);
        rt_value(st, "value:Maxp:v1.0", &m);
        let mut part = Maxp::new(3);
        part.max_zones = Some(2);
        rt_value(st, "value:Maxp:v1.0-partial(expected invalid)", &part);
    }
    // head / hhea / vhea with boundary scalars
    {
        let mut h = wt::head::Head::default();
        h.font_revision = Fixed::from_f64(-1.5);
        h.checksum_adjustment = 0xdead_beef;
        h.units_per_em = 2048;
        h.created = LongDateTime::new(-1);
        h.modified = LongDateTime::new(i64::MAX);
        h.x_min = -32768;
        h.y_max = 32767;
        h.lowest_rec_ppem = 65535;
        h.index_to_loc_format = 1;
        rt_value(st, "value:Head", &h);
        let hh = wt::hhea::Hhea {
            ascender: FWord::new(-1),
            descender: FWord::new(i16::MIN),
            line_gap: FWord::new(i16::MAX),
            advance_width_max: UfWord::new(65535),
            min_left_side_bearing: FWord::new(1),
            min_right_side_bearing: FWord::new(2),
            x_max_extent: FWord::new(3),
            caret_slope_rise: -4,
            caret_slope_run: 5,
            caret_offset: -6,
            number_of_h_metrics: 258,
        };
        rt_value(st, "value:Hhea", &hh);
        let mut vh = wt::vhea::Vhea::default();
        vh.ascender = FWord::new(-300);
        vh.number_of_long_ver_metrics = 513;
        rt_value(st, "value:Vhea", &vh);
    }
    // OS/2: every version, and one probe per gated field on its own
    {
        use wt::os2::Os2;
        let base = || {
            let mut o = Os2::default();
            o.x_avg_char_width = -3;
            o.us_weight_class = 400;
            o.panose_10 = [1, 2, 3, 4, 5, 6, 7, 8, 9, 10];
            o.ul_unicode_range_4 = 0xffff_ffff;
            o.ach_vend_id = Tag::new(b"TEST");
            o
        };
        rt_value(st, "value:Os2:v0", &base());
        let mut v1 = base();
        v1.ul_code_page_range_1 = Some(1);
        v1.ul_code_page_range_2 = Some(0x8000_0000);
        rt_value(st, "value:Os2:v1", &v1);
        let mut v4 = v1.clone();
        v4.sx_height = Some(-1);
        v4.s_cap_height = Some(700);
        v4.us_default_char = Some(0);
        v4.us_break_char = Some(32);
        v4.us_max_context = Some(3);
        rt_value(st, "value:Os2:v4", &v4);
        let mut v5 = v4.clone();
        v5.us_lower_optical_point_size = Some(8);
        v5.us_upper_optical_point_size = Some(65535);
        rt_value(st, "value:Os2:v5", &v5);
        let probes: Vec<(&str, Box<dyn Fn(&mut Os2)>)> = vec![
            ("ul_code_page_range_1", Box::new(|o: &mut Os2| o.ul_code_page_range_1 = Some(5))),
            ("ul_code_page_range_2", Box::new(|o: &mut Os2| o.ul_code_page_range_2 = Some(5))),
            ("sx_height", Box::new(|o: &mut Os2| o.sx_height = Some(5))),
            ("us_max_context", Box::new(|o: &mut Os2| o.us_max_context = Some(5))),
            ("us_lower_optical_point_size", Box::new(|o: &mut Os2| o.us_lower_optical_point_size = Some(5))),
        ];
        for (f, set) in probes {
            let mut o = base();
            set(&mut o);
            rt_value(st, &format!("gate-probe:Os2.{}(invalid unless every field of that version is set)", f), &o);
        }
    }
    // fvar: instances with / without postscript name ids, 0/1/3 axes
    {
        use wt::fvar::*;
        for n_axes in [0usize, 1, 3] {
            for with_ps in [false, true] {
                for n_inst in [0usize, 1, 4] {
                    let axes: Vec<VariationAxisRecord> = (0..n_axes)
                        .map(|i| VariationAxisRecord::new(Tag::new(&[b'a', b'x', b'0' + i as u8, b' ']), Fixed::from_f64(-1.0), Fixed::from_f64(0.0), Fixed::from_f64(1000.5), i as u16, NameId::new(256 + i as u16)))
                        .collect();
                    let inst: Vec<InstanceRecord> = (0..n_inst)
                        .map(|k| InstanceRecord {
                            subfamily_name_id: NameId::new(300 + k as u16),
                            flags: 0,
                            coordinates: (0..n_axes).map(|i| Fixed::from_f64(k as f64 * 10.0 + i as f64)).collect(),
                            post_script_name_id: with_ps.then(|| NameId::new(400 + k as u16)),
                        })
                        .collect();
                    let f = Fvar::new(AxisInstanceArrays::new(axes, inst));
                    rt_value(st, &format!("value:Fvar:axes{}:inst{}:ps{}", n_axes, n_inst, with_ps), &f);
                }
            }
        }
    }
    // STAT
    {
        use wt::stat::*;
        let axes = vec![AxisRecord::new(Tag::new(b"wght"), NameId::new(256), 0), AxisRecord::new(Tag::new(b"ital"), NameId::new(257), 1)];
        let vals = vec![
            AxisValue::format_1(0, AxisValueTableFlags::empty(), NameId::new(258), Fixed::from_f64(400.0)),
            AxisValue::format_2(0, AxisValueTableFlags::ELIDABLE_AXIS_VALUE_NAME, NameId::new(259), Fixed::from_f64(400.0), Fixed::from_f64(350.0), Fixed::from_f64(450.0)),
            AxisValue::format_3(1, AxisValueTableFlags::empty(), NameId::new(260), Fixed::from_f64(0.0), Fixed::from_f64(1.0)),
            AxisValue::format_4(AxisValueTableFlags::empty(), NameId::new(261), vec![AxisValueRecord::new(0, Fixed::from_f64(700.0)), AxisValueRecord::new(1, Fixed::from_f64(1.0))]),
            AxisValue::format_4(AxisValueTableFlags::empty(), NameId::new(262), vec![]),
        ];
        rt_value(st, "value:Stat:full", &Stat::new(axes.clone(), vals.clone(), NameId::new(2)));
        rt_value(st, "value:Stat:no-values", &Stat::new(axes.clone(), vec![], NameId::new(2)));
        rt_value(st, "value:Stat:no-axes", &Stat::new(vec![], vec![], NameId::new(2)));
        let mut s = Stat::new(axes, vals, NameId::new(2));
        s.elided_fallback_name_id = None;
        rt_value(st, "gate-probe:Stat.elided_fallback_name_id=None(expected invalid)", &s);
    }
    // name: strings in both encodings, with and without lang tags
    {
        use wt::name::*;
        let rec = |pid: u16, eid: u16, lid: u16, nid: u16, s: &str| NameRecord::new(pid, eid, lid, NameId::new(nid), s.to_string().into());
        let mut n = Name::default();
        n.name_record = vec![rec(1, 0, 0, 1, "Mac Roman caf\u{e9}"), rec(3, 1, 0x409, 1, "Wíndows ✓ 𝒳"), rec(3, 1, 0x409, 2, ""), rec(3, 1, 0x409, 6, "PS-Name")];
        rt_value(st, "value:Name:v0", &n);
        let mut n1 = n.clone();
        n1.lang_tag_record = Some(vec![LangTagRecord::new("en-US".to_string().into()), LangTagRecord::new("tr".to_string().into())]);
        rt_value(st, "value:Name:v1", &n1);
        let mut n2 = n.clone();
        n2.lang_tag_record = Some(vec![]);
        rt_value(st, "value:Name:v1-empty-langtags", &n2);
        rt_value(st, "value:Name:empty", &Name::default());
    }
    // post: v1/v3 header only, v2 with standard + custom names
    {
        use wt::post::Post;
        let mut p = Post::default();
        p.version = Version16Dot16::VERSION_3_0;
        p.italic_angle = Fixed::from_f64(-12.5);
        p.underline_position = FWord::new(-75);
        rt_value(st, "value:Post:v3", &p);
        let mut p1 = Post::default();
        p1.version = Version16Dot16::VERSION_1_0;
        rt_value(st, "value:Post:v1", &p1);
        rt_value(st, "value:Post:v2", &Post::new_v2([".notdef", "A", "B", "custom_glyph", "A.alt", "space", "custom_glyph"]));
        rt_value(st, "value:Post:v2-empty", &Post::new_v2(std::iter::empty::<&str>()));
        let names: Vec<String> = (0..300).map(|i| format!("g{:03}.{}", i, "x".repeat(i % 40))).collect();
        rt_value(st, "value:Post:v2-300-custom", &Post::new_v2(names.iter().map(|s| s.as_str())));
    }
    // GDEF: each version, null / non-null offsets
    {
        use wt::gdef::*;
        use wt::layout::*;
        rt_value(st, "value:Gdef:all-null", &Gdef::default());
        let cd = || ClassDef::format_1(gid(1), vec![1, 2, 3]);
        let mut g = Gdef::default();
        g.glyph_class_def = Some(cd()).into();
        g.mark_attach_class_def = Some(ClassDef::format_2(vec![ClassRangeRecord::new(gid(1), gid(5), 2)])).into();
        g.attach_list = Some(AttachList::new(CoverageTable::format_1(vec![gid(3)]), vec![AttachPoint::new(vec![1, 4, 9])])).into();
        g.lig_caret_list = Some(LigCaretList::new(CoverageTable::format_1(vec![gid(8)]), vec![LigGlyph::new(vec![CaretValue::format_1(100), CaretValue::format_2(3), CaretValue::format_3(5, DeviceOrVariationIndex::variation_index(0, 1))])])).into();
        rt_value(st, "value:Gdef:v1.0", &g);
        let mut g12 = g.clone();
        g12.mark_glyph_sets_def = Some(MarkGlyphSets::new(vec![CoverageTable::format_1(vec![gid(2)]), CoverageTable::format_2(vec![])])).into();
        rt_value(st, "value:Gdef:v1.2", &g12);
        let mut g13 = g12.clone();
        g13.item_var_store = Some(small_ivs()).into();
        rt_value(st, "value:Gdef:v1.3", &g13);
        let mut only_ivs = Gdef::default();
        only_ivs.item_var_store = Some(small_ivs()).into();
        rt_value(st, "gate-probe:Gdef.item_var_store", &only_ivs);
        let mut only_sets = Gdef::default();
        only_sets.mark_glyph_sets_def = Some(MarkGlyphSets::new(vec![])).into();
        rt_value(st, "gate-probe:Gdef.mark_glyph_sets_def", &only_sets);
    }
    // BASE v1.0 / v1.1
    {
        use wt::base::*;
        rt_value(st, "value:Base:all-null", &Base::default());
        let axis = Axis::new(
            Some(BaseTagList::new(vec![Tag::new(b"hang"), Tag::new(b"romn")])),
            BaseScriptList::new(vec![BaseScriptRecord::new(
                Tag::new(b"latn"),
                BaseScript::new(Some(BaseValues::new(1, vec![BaseCoord::format_1(10), BaseCoord::format_2(20, 3, 1)])), None, vec![]),
            )]),
        );
        let mut b = Base::default();
        b.horiz_axis = Some(axis.clone()).into();
        rt_value(st, "value:Base:v1.0-horiz", &b);
        b.vert_axis = Some(axis).into();
        rt_value(st, "value:Base:v1.0-both", &b);
        let mut b11 = b.clone();
        b11.item_var_store = Some(small_ivs()).into();
        rt_value(st, "value:Base:v1.1", &b11);
        let mut only = Base::default();
        only.item_var_store = Some(small_ivs()).into();
        rt_value(st, "gate-probe:Base.item_var_store", &only);
    }
    // CPAL: v0 and the three v1-only arrays (one probe each)
    {
        use wt::cpal::*;
        let colors = vec![ColorRecord::new(1, 2, 3, 255), ColorRecord::new(9, 8, 7, 0)];
        let mk = || {
            let mut c = Cpal::default();
            c.num_palette_entries = 2;
            c.num_palettes = 1;
            c.num_color_records = 2;
            c.color_records_array = Some(colors.clone()).into();
            c.color_record_indices = vec![0];
            c
        };
        rt_value(st, "value:Cpal:v0", &mk());
        rt_value(st, "value:Cpal:v0-empty", &Cpal::default());
        let mut c = mk();
        c.palette_types_array = Some(vec![PaletteType::USABLE_WITH_DARK_BACKGROUND]).into();
        rt_value_h(st, "gate-probe:Cpal.palette_types_array", &c, &Hooks { canon: None, classify: Some(&cpal_classify) });
        let mut c = mk();
        c.palette_labels_array = Some(vec![300u16]).into();
        rt_value_h(st, "gate-probe:Cpal.palette_labels_array", &c, &Hooks { canon: None, classify: Some(&cpal_classify) });
        let mut c = mk();
        c.palette_entry_labels_array = Some(vec![NameId::new(301), NameId::new(302)]).into();
        rt_value_h(st, "gate-probe:Cpal.palette_entry_labels_array", &c, &Hooks { canon: None, classify: Some(&cpal_classify) });
    }
    // gasp, cmap subtables with computed counts / lengths
    {
        use wt::gasp::*;
        rt_value(st, "value:Gasp:empty", &Gasp::new(1, 0, vec![]));
        rt_value(st, "value:Gasp:two", &Gasp::new(1, 2, vec![GaspRange::new(8, GaspRangeBehavior::GASP_DOGRAY), GaspRange::new(65535, GaspRangeBehavior::GASP_GRIDFIT | GaspRangeBehavior::GASP_SYMMETRIC_SMOOTHING)]));
        use wt::cmap::*;
        for n in [0usize, 1, 40] {
            let groups: Vec<SequentialMapGroup> = (0..n).map(|i| SequentialMapGroup::new(100 * i as u32, 100 * i as u32 + 7, 5 * i as u32)).collect();
            rt_value(st, &format!("value:Cmap12:n{}", n), &Cmap12::new(0, groups));
            let ids: Vec<u16> = (0..n).map(|_| rng.below(500) as u16).collect();
            rt_value(st, &format!("value:Cmap6:n{}", n), &Cmap6::new(10 + 2 * n as u16, 0, 32, n as u16, ids));
        }
        let chars: Vec<(char, GlyphId)> = "Aa\u{e9}z\u{4e00}\u{1f600}".chars().enumerate().map(|(i, c)| (c, GlyphId::new(i as u32 + 1))).collect();
        if let Ok(c) = Cmap::from_mappings(chars) {
            rt_value_h(st, "value:Cmap:from_mappings(bmp+astral)", &c, &Hooks { canon: Some(&cmap_canon), classify: None });
        }
        if let Ok(c) = Cmap::from_mappings(vec![('A', GlyphId::new(1)), ('B', GlyphId::new(2)), ('Z', GlyphId::new(3))]) {
            rt_value_h(st, "value:Cmap:from_mappings(bmp)", &c, &Hooks { canon: Some(&cmap_canon), classify: None });
        }
    }
    // stored (not computed) counts that disagree with their arrays: "counts agree with their arrays"
    {
        use wt::gasp::*;
        rt_value(st, "gen-compat:Gasp.num_ranges", &Gasp::new(1, 3, vec![GaspRange::new(8, GaspRangeBehavior::GASP_DOGRAY)]));
        rt_value(st, "gen-compat:Gasp.num_ranges", &Gasp::new(1, 0, vec![GaspRange::new(8, GaspRangeBehavior::GASP_DOGRAY)]));
        use wt::cmap::*;
        rt_value(st, "gen-compat:Cmap6.entry_count", &Cmap6::new(16, 0, 32, 1, vec![1, 2, 3]));
        use wt::colr::*;
        rt_value(st, "stored-count:Colr.num_base_glyph_records", &Colr::new(1, Some(vec![BaseGlyph::new(gid(1), 0, 1), BaseGlyph::new(gid(4), 1, 1)]), Some(vec![Layer::new(gid(2), 0), Layer::new(gid(3), 1)]), 2));
        rt_value(st, "gen-compat:LayerList.num_layers", &LayerList::new(0, vec![Paint::solid(1, F2Dot14::from_f32(1.0))]));
    }
    // variations: DeltaSetIndexMap both formats, ItemVariationStore with null entries
    {
        use wt::variations::*;
        rt_value(st, "value:DeltaSetIndexMap:f0", &small_dsim());
        rt_value(st, "value:DeltaSetIndexMap:f1", &DeltaSetIndexMap::format_1(EntryFormat::empty(), 3, vec![0, 1, 2]));
        rt_value(st, "value:ItemVariationStore", &small_ivs());
        let mut ivs = small_ivs();
        ivs.item_variation_data.push(None.into());
        ivs.item_variation_data.push(Some(ItemVariationData::new(0, 0, vec![], vec![])).into());
        rt_value(st, "value:ItemVariationStore:null-entry", &ivs);
    }
    // GSUB / GPOS shells: v1.0 vs v1.1 (feature_variations)
    {
        use wt::gsub::*;
        use wt::layout::*;
        let sl = ScriptList::new(vec![ScriptRecord::new(Tag::new(b"DFLT"), Script::new(Some(LangSys::new(vec![0])), vec![]))]);
        let fl = FeatureList::new(vec![FeatureRecord::new(Tag::new(b"liga"), Feature::new(None, vec![0]))]);
        let lookup = SubstitutionLookup::Single(Lookup::new(LookupFlag::empty(), vec![SingleSubst::format_1(CoverageTable::format_1(vec![gid(5)]), 3)]));
        let mut lk2 = Lookup::new(LookupFlag::USE_MARK_FILTERING_SET, vec![SingleSubst::format_2(CoverageTable::format_1(vec![gid(5), gid(6)]), vec![gid(9), gid(10)])]);
        lk2.mark_filtering_set = Some(2);
        let ll = SubstitutionLookupList::new(vec![lookup, SubstitutionLookup::Single(lk2)]);
        let g = Gsub::new(sl.clone(), fl.clone(), ll.clone());
        rt_value(st, "value:Gsub:v1.0", &g);
        let mut g11 = g.clone();
        g11.feature_variations = Some(FeatureVariations::new(vec![FeatureVariationRecord::new(
            Some(ConditionSet::new(vec![Condition::format_1_axis_range(0, F2Dot14::from_f32(0.5), F2Dot14::from_f32(1.0))])),
            Some(FeatureTableSubstitution::new(vec![FeatureTableSubstitutionRecord::new(0, Feature::new(None, vec![1]))])),
        )]))
        .into();
        rt_value(st, "value:Gsub:v1.1", &g11);
        let lig = LigatureSubstFormat1::new(
            CoverageTable::format_1(vec![gid(4)]),
            vec![LigatureSet::new(vec![Ligature::new(gid(40), vec![gid(5), gid(6)]), Ligature::new(gid(41), vec![])])],
        );
        rt_value(st, "value:LigatureSubstFormat1(plus_one count)", &lig);
    }
}

// ---------------------------------------------------------------------------------------------
// (c) model shards: real compiled bytes vs `encode W_<T>`, real re-read field values vs `decode R_<T>`
// ---------------------------------------------------------------------------------------------
#[derive(Clone, Debug)]
enum V {
    Z(i128),
    Absent,
    Arr(Vec<Vec<V>>),
    /// null offset
    Null,
    /// non-null offset to an opaque child: the child's bytes
    Bytes(Vec<u8>),
    /// (reread only, resolved by `shard_obj`) non-null offset: the offset field's own byte range in the
    /// table and the raw offset value the real getter returned
    At(std::ops::Range<usize>, u32),
}
fn cv(v: &V) -> String {
    match v {
        V::Z(z) => format!("VZ {}", cz(*z)),
        V::Absent => "VAbsent".into(),
        V::Null => "VNull".into(),
        V::Bytes(b) => format!("VBytes {}", cbytes(b)),
        V::At(..) => "VBytes []".into(),
        V::Arr(rows) => format!("VArr {}", clist(rows.iter(), |r| format!("VTab {}", clist(r.iter(), cv)))),
    }
}
fn cvs(vs: &[V]) -> String {
    clist(vs.iter(), cv)
}
fn zu16(x: u16) -> V {
    V::Z(x as i128)
}
fn zi16(x: i16) -> V {
    V::Z(x as u16 as i128)
}
fn opt16(x: Option<u16>) -> V {
    x.map(zu16).unwrap_or(V::Absent)
}
fn scal(xs: impl IntoIterator<Item = u16>) -> V {
    V::Arr(xs.into_iter().map(|x| vec![zu16(x)]).collect())
}

/// compile with the real writer, read back with the real reader, push one Coq case
fn shard<T>(st: &mut Stats, cw: &mut CaseWriter, ty: &str, v: &T, written: Vec<V>, reread: &dyn Fn(&[u8]) -> Option<Vec<V>>)
where
    T: FontWrite + Validate,
{
    let bytes = match catch(AssertUnwindSafe(|| dump_table(v))) {
        Ok(Ok(b)) => b,
        _ => {
            st.count("shard.not-compiled");
            return;
        }
    };
    let rr = match catch(AssertUnwindSafe(|| reread(&bytes))) {
        Ok(Some(r)) => r,
        _ => {
            st.count("shard.not-reread");
            return;
        }
    };
    st.count(&format!("shard.{}", ty));
    st.evaluations += 1;
    cw.push(format!("CSchema (W_{}, R_{}, {}, {}, {})", ty, ty, cvs(&written), cbytes(&bytes), cvs(&rr)));
}

fn zu32(x: u32) -> V {
    V::Z(x as i128)
}
fn opti16(x: Option<i16>) -> V {
    x.map(zi16).unwrap_or(V::Absent)
}
fn opt32(x: Option<u32>) -> V {
    x.map(zu32).unwrap_or(V::Absent)
}
/// the children a `written` value list carries, in field order (array rows in row order)
fn written_kids(vs: &[V], out: &mut Vec<Vec<u8>>) {
    for v in vs {
        match v {
            V::Bytes(b) => out.push(b.clone()),
            V::Arr(rows) => rows.iter().for_each(|r| written_kids(r, out)),
            _ => {}
        }
    }
}
/// replace every `V::At(range, off)` by the bytes really found at `off` (length: the matching written child),
/// overwrite the offset field in `own` by the 0xFF placeholder; false = the embedded child differs from the
/// child compiled standalone
fn resolve_kids(vs: &mut [V], all: &[u8], own: &mut [u8], expect: &[Vec<u8>], i: &mut usize, kids: &mut Vec<Vec<u8>>) -> bool {
    for v in vs.iter_mut() {
        match v {
            V::At(range, off) => {
                let len = expect.get(*i).map(|e| e.len()).unwrap_or(0);
                let off = *off as usize;
                let Some(slice) = all.get(off..off + len) else { return false };
                if let Some(e) = expect.get(*i) {
                    if e.as_slice() != slice {
                        return false;
                    }
                }
                for k in range.clone() {
                    if let Some(x) = own.get_mut(k) {
                        *x = 0xFF;
                    }
                }
                kids.push(slice.to_vec());
                *v = V::Bytes(slice.to_vec());
                *i += 1;
            }
            V::Arr(rows) => {
                for r in rows.iter_mut() {
                    if !resolve_kids(r, all, own, expect, i, kids) {
                        return false;
                    }
                }
            }
            _ => {}
        }
    }
    true
}

/// a table WITH offsets: `reread` returns (length of the table's own fields, R_T values with `V::At` for the
/// non-null offsets); the children are opaque and were compiled standalone by the caller (`V::Bytes` in `written`)
fn shard_obj<T>(st: &mut Stats, cw: &mut CaseWriter, ty: &str, v: &T, written: Vec<V>, reread: &dyn Fn(&[u8]) -> Option<(usize, Vec<V>)>)
where
    T: FontWrite + Validate,
{
    let bytes = match catch(AssertUnwindSafe(|| dump_table(v))) {
        Ok(Ok(b)) => b,
        _ => {
            st.count("shard.not-compiled");
            return;
        }
    };
    let (own_len, mut rr) = match catch(AssertUnwindSafe(|| reread(&bytes))) {
        Ok(Some(r)) if r.0 <= bytes.len() => r,
        _ => {
            st.count("shard.not-reread");
            return;
        }
    };
    let mut expect = Vec::new();
    written_kids(&written, &mut expect);
    let mut own = bytes[..own_len].to_vec();
    let mut kids = Vec::new();
    let mut i = 0usize;
    if !resolve_kids(&mut rr, &bytes, &mut own, &expect, &mut i, &mut kids) {
        st.count("shard.child-bytes-differ");
        st.count(&format!("shard.child-bytes-differ.{}", ty));
        return;
    }
    st.count(&format!("shard.{}", ty));
    st.evaluations += 1;
    cw.push(format!("CSchemaObj W_{} R_{} ({}) ({}) ({}) ({})", ty, ty, cvs(&written), cbytes(&own), clist(kids.iter(), |k| cbytes(k)), cvs(&rr)));
}
/// compile a child standalone
fn kid<T: FontWrite + Validate>(v: &T) -> V {
    V::Bytes(dump_table(v).unwrap_or_default())
}
fn kid_opt<T: FontWrite + Validate>(v: &Option<T>) -> V {
    v.as_ref().map(kid).unwrap_or(V::Null)
}

/// a value written through a format enum (`match self`) and re-read through the enum's `match format`
fn shard_union<T>(st: &mut Stats, cw: &mut CaseWriter, en: &str, variant: &str, v: &T, written: Vec<V>, reread: &dyn Fn(&[u8]) -> Option<(&'static str, Vec<V>)>)
where
    T: FontWrite + Validate,
{
    let bytes = match catch(AssertUnwindSafe(|| dump_table(v))) {
        Ok(Ok(b)) => b,
        _ => {
            st.count("shard.not-compiled");
            return;
        }
    };
    let (vn, rr) = match catch(AssertUnwindSafe(|| reread(&bytes))) {
        Ok(Some(r)) => r,
        _ => {
            st.count("shard.not-reread");
            return;
        }
    };
    st.count(&format!("shard.union.{}.{}", en, variant));
    st.evaluations += 1;
    cw.push(format!("CUnion UW_{} UR_{} \"{}\" ({}) ({}) \"{}\" ({})", en, en, variant, cvs(&written), cbytes(&bytes), vn, cvs(&rr)));
}

fn shards(st: &mut Stats, cw: &mut CaseWriter, rng: &mut Rng, thorough: bool) {
    use write_fonts::read::tables as rt;
    let reps = if thorough { 400 } else { 40 };
    let r16 = |rng: &mut Rng| -> u16 {
        match rng.below(4) {
            0 => *rng.pick(&[0u16, 1, 2, 255, 256, 32767, 32768, 65534, 65535]),
            _ => rng.next_u32() as u16,
        }
    };
    let len = |rng: &mut Rng| -> usize { *rng.pick(&[0usize, 0, 1, 1, 2, 3, 5, 9]) };
    for _ in 0..reps {
        // maxp: version gate (0.5 / 1.0)
        {
            let mut m = wt::maxp::Maxp::new(r16(rng));
            let v1 = rng.chance(1, 2);
            let mut f = |rng: &mut Rng| if v1 { Some(r16(rng)) } else { None };
            m.max_points = f(rng);
            m.max_contours = f(rng);
            m.max_composite_points = f(rng);
            m.max_composite_contours = f(rng);
            m.max_zones = f(rng);
            m.max_twilight_points = f(rng);
            m.max_storage = f(rng);
            m.max_function_defs = f(rng);
            m.max_instruction_defs = f(rng);
            m.max_stack_elements = f(rng);
            m.max_size_of_instructions = f(rng);
            m.max_component_elements = f(rng);
            m.max_component_depth = f(rng);
            // `version` is hand-computed (Opaque in the extracted schema): its value is supplied
            let ver: i128 = if v1 { 0x0001_0000 } else { 0x0000_5000 };
            let w = vec![V::Z(ver), zu16(m.num_glyphs), opt16(m.max_points), opt16(m.max_contours), opt16(m.max_composite_points), opt16(m.max_composite_contours), opt16(m.max_zones), opt16(m.max_twilight_points), opt16(m.max_storage), opt16(m.max_function_defs), opt16(m.max_instruction_defs), opt16(m.max_stack_elements), opt16(m.max_size_of_instructions), opt16(m.max_component_elements), opt16(m.max_component_depth)];
            shard(st, cw, "Maxp", &m, w, &|b| {
                let t = rt::maxp::Maxp::read(FontData::new(b)).ok()?;
                Some(vec![V::Z(u32::from_be_bytes(t.version().to_be_bytes()) as i128), zu16(t.num_glyphs()), opt16(t.max_points()), opt16(t.max_contours()), opt16(t.max_composite_points()), opt16(t.max_composite_contours()), opt16(t.max_zones()), opt16(t.max_twilight_points()), opt16(t.max_storage()), opt16(t.max_function_defs()), opt16(t.max_instruction_defs()), opt16(t.max_stack_elements()), opt16(t.max_size_of_instructions()), opt16(t.max_component_elements()), opt16(t.max_component_depth())])
            });
        }
        // hhea: literals, signed scalars
        {
            let h = wt::hhea::Hhea {
                ascender: FWord::new(r16(rng) as i16),
                descender: FWord::new(r16(rng) as i16),
                line_gap: FWord::new(r16(rng) as i16),
                advance_width_max: UfWord::new(r16(rng)),
                min_left_side_bearing: FWord::new(r16(rng) as i16),
                min_right_side_bearing: FWord::new(r16(rng) as i16),
                x_max_extent: FWord::new(r16(rng) as i16),
                caret_slope_rise: r16(rng) as i16,
                caret_slope_run: r16(rng) as i16,
                caret_offset: r16(rng) as i16,
                number_of_h_metrics: r16(rng),
            };
            let w = vec![V::Z(0), zi16(h.ascender.to_i16()), zi16(h.descender.to_i16()), zi16(h.line_gap.to_i16()), zu16(h.advance_width_max.to_u16()), zi16(h.min_left_side_bearing.to_i16()), zi16(h.min_right_side_bearing.to_i16()), zi16(h.x_max_extent.to_i16()), zi16(h.caret_slope_rise), zi16(h.caret_slope_run), zi16(h.caret_offset), V::Z(0), V::Z(0), V::Z(0), V::Z(0), V::Z(0), zu16(h.number_of_h_metrics)];
            shard(st, cw, "Hhea", &h, w, &|b| {
                let t = rt::hhea::Hhea::read(FontData::new(b)).ok()?;
                let ver = t.version();
                // the four reserved words have no getter: read through the table's own byte ranges
                let raw = |r: std::ops::Range<usize>| V::Z(u16::from_be_bytes([b[r.start], b[r.start + 1]]) as i128);
                let sh = t.shape();
                Some(vec![V::Z(((ver.major as i128) << 16) | ver.minor as i128), zi16(t.ascender().to_i16()), zi16(t.descender().to_i16()), zi16(t.line_gap().to_i16()), zu16(t.advance_width_max().to_u16()), zi16(t.min_left_side_bearing().to_i16()), zi16(t.min_right_side_bearing().to_i16()), zi16(t.x_max_extent().to_i16()), zi16(t.caret_slope_rise()), zi16(t.caret_slope_run()), zi16(t.caret_offset()), raw(sh.reserved1_byte_range()), raw(sh.reserved2_byte_range()), raw(sh.reserved3_byte_range()), raw(sh.reserved4_byte_range()), zi16(t.metric_data_format()), zu16(t.number_of_h_metrics())])
            });
        }
        // Coverage 1 / 2, ClassDef 1 / 2: format literal + array_len count + (record) arrays
        {
            use wt::layout::*;
            let n = len(rng);
            let gl: Vec<u16> = (0..n).map(|_| r16(rng)).collect();
            let c1 = CoverageFormat1::new(gl.iter().map(|g| gid(*g)).collect());
            shard(st, cw, "CoverageFormat1", &c1, vec![V::Z(0), V::Z(0), scal(gl.clone())], &|b| {
                let t = rt::layout::CoverageFormat1::read(FontData::new(b)).ok()?;
                Some(vec![zu16(t.coverage_format()), zu16(t.glyph_count()), scal(t.glyph_array().iter().map(|g| g.get().to_u16()))])
            });
            let rr: Vec<(u16, u16, u16)> = (0..n).map(|_| (r16(rng), r16(rng), r16(rng))).collect();
            let c2 = CoverageFormat2::new(rr.iter().map(|r| RangeRecord::new(gid(r.0), gid(r.1), r.2)).collect());
            let rows = |it: Vec<(u16, u16, u16)>| V::Arr(it.into_iter().map(|r| vec![zu16(r.0), zu16(r.1), zu16(r.2)]).collect());
            shard(st, cw, "CoverageFormat2", &c2, vec![V::Z(0), V::Z(0), rows(rr.clone())], &|b| {
                let t = rt::layout::CoverageFormat2::read(FontData::new(b)).ok()?;
                Some(vec![zu16(t.coverage_format()), zu16(t.range_count()), rows(t.range_records().iter().map(|r| (r.start_glyph_id().to_u16(), r.end_glyph_id().to_u16(), r.start_coverage_index())).collect())])
            });
            let start = r16(rng);
            let d1 = ClassDefFormat1::new(gid(start), gl.clone());
            shard(st, cw, "ClassDefFormat1", &d1, vec![V::Z(0), zu16(start), V::Z(0), scal(gl.clone())], &|b| {
                let t = rt::layout::ClassDefFormat1::read(FontData::new(b)).ok()?;
                Some(vec![zu16(t.class_format()), zu16(t.start_glyph_id().to_u16()), zu16(t.glyph_count()), scal(t.class_value_array().iter().map(|g| g.get()))])
            });
            let d2 = ClassDefFormat2::new(rr.iter().map(|r| ClassRangeRecord::new(gid(r.0), gid(r.1), r.2)).collect());
            shard(st, cw, "ClassDefFormat2", &d2, vec![V::Z(0), V::Z(0), rows(rr.clone())], &|b| {
                let t = rt::layout::ClassDefFormat2::read(FontData::new(b)).ok()?;
                Some(vec![zu16(t.class_format()), zu16(t.class_range_count()), rows(t.class_range_records().iter().map(|r| (r.start_glyph_id().to_u16(), r.end_glyph_id().to_u16(), r.class())).collect())])
            });
            // round 7: the same values through the format ENUMS (write side `match self`, read side `match format`)
            let rd_cov = |b: &[u8]| -> Option<(&'static str, Vec<V>)> {
                match rt::layout::CoverageTable::read(FontData::new(b)).ok()? {
                    rt::layout::CoverageTable::Format1(t) => Some(("Format1", vec![zu16(t.coverage_format()), zu16(t.glyph_count()), scal(t.glyph_array().iter().map(|g| g.get().to_u16()))])),
                    rt::layout::CoverageTable::Format2(t) => Some(("Format2", vec![zu16(t.coverage_format()), zu16(t.range_count()), rows(t.range_records().iter().map(|r| (r.start_glyph_id().to_u16(), r.end_glyph_id().to_u16(), r.start_coverage_index())).collect())])),
                }
            };
            shard_union(st, cw, "CoverageTable", "Format1", &CoverageTable::Format1(c1.clone()), vec![V::Z(0), V::Z(0), scal(gl.clone())], &rd_cov);
            shard_union(st, cw, "CoverageTable", "Format2", &CoverageTable::Format2(c2.clone()), vec![V::Z(0), V::Z(0), rows(rr.clone())], &rd_cov);
            let rd_cd = |b: &[u8]| -> Option<(&'static str, Vec<V>)> {
                match rt::layout::ClassDef::read(FontData::new(b)).ok()? {
                    rt::layout::ClassDef::Format1(t) => Some(("Format1", vec![zu16(t.class_format()), zu16(t.start_glyph_id().to_u16()), zu16(t.glyph_count()), scal(t.class_value_array().iter().map(|g| g.get()))])),
                    rt::layout::ClassDef::Format2(t) => Some(("Format2", vec![zu16(t.class_format()), zu16(t.class_range_count()), rows(t.class_range_records().iter().map(|r| (r.start_glyph_id().to_u16(), r.end_glyph_id().to_u16(), r.class())).collect())])),
                }
            };
            shard_union(st, cw, "ClassDef", "Format1", &ClassDef::Format1(d1.clone()), vec![V::Z(0), zu16(start), V::Z(0), scal(gl.clone())], &rd_cd);
            shard_union(st, cw, "ClassDef", "Format2", &ClassDef::Format2(d2.clone()), vec![V::Z(0), V::Z(0), rows(rr.clone())], &rd_cd);
            {
                // ClipBox: one-byte format tag
                let q = [r16(rng) as i16, r16(rng) as i16, r16(rng) as i16, r16(rng) as i16];
                let cb = wt::colr::ClipBox::Format1(wt::colr::ClipBoxFormat1::new(FWord::new(q[0]), FWord::new(q[1]), FWord::new(q[2]), FWord::new(q[3])));
                shard_union(st, cw, "ClipBox", "Format1", &cb, vec![V::Z(0), zi16(q[0]), zi16(q[1]), zi16(q[2]), zi16(q[3])], &|b| {
                    match rt::colr::ClipBox::read(FontData::new(b)).ok()? {
                        rt::colr::ClipBox::Format1(t) => Some(("Format1", vec![V::Z(t.format() as i128), zi16(t.x_min().to_i16()), zi16(t.y_min().to_i16()), zi16(t.x_max().to_i16()), zi16(t.y_max().to_i16())])),
                        rt::colr::ClipBox::Format2(_) => Some(("Format2", vec![])),
                    }
                });
            }
            // SequenceRule: glyph_count = plus_one(len), read back with subtract(.., 1)
            let m = len(rng);
            let recs: Vec<(u16, u16)> = (0..m).map(|_| (r16(rng), r16(rng))).collect();
            let sr = SequenceRule::new(gl.iter().map(|g| gid(*g)).collect(), recs.iter().map(|r| SequenceLookupRecord::new(r.0, r.1)).collect());
            let rows2 = |it: Vec<(u16, u16)>| V::Arr(it.into_iter().map(|r| vec![zu16(r.0), zu16(r.1)]).collect());
            shard(st, cw, "SequenceRule", &sr, vec![V::Z(0), V::Z(0), scal(gl.clone()), rows2(recs.clone())], &|b| {
                let t = rt::layout::SequenceRule::read(FontData::new(b)).ok()?;
                Some(vec![zu16(t.glyph_count()), zu16(t.seq_lookup_count()), scal(t.input_sequence().iter().map(|g| g.get().to_u16())), rows2(t.seq_lookup_records().iter().map(|r| (r.sequence_index(), r.lookup_list_index())).collect())])
            });
        }
        // gasp (stored count: kept consistent here) and cmap 12 (u32 fields, hand-computed length)
        {
            use wt::gasp::*;
            let n = len(rng);
            let rg: Vec<(u16, u16)> = (0..n).map(|_| (r16(rng), rng.below(16) as u16)).collect();
            let ver = rng.below(2) as u16;
            let g = Gasp::new(ver, n as u16, rg.iter().map(|r| GaspRange::new(r.0, GaspRangeBehavior::from_bits_truncate(r.1))).collect());
            let rows2 = |it: Vec<(u16, u16)>| V::Arr(it.into_iter().map(|r| vec![zu16(r.0), zu16(r.1)]).collect());
            shard(st, cw, "Gasp", &g, vec![zu16(ver), zu16(n as u16), rows2(rg.clone())], &|b| {
                let t = rt::gasp::Gasp::read(FontData::new(b)).ok()?;
                Some(vec![zu16(t.version()), zu16(t.num_ranges()), rows2(t.gasp_ranges().iter().map(|r| (r.range_max_ppem(), r.range_gasp_behavior().bits())).collect())])
            });
            use wt::cmap::*;
            let gr: Vec<(u32, u32, u32)> = (0..n).map(|_| (rng.next_u32(), rng.next_u32(), rng.next_u32())).collect();
            let lang = rng.next_u32();
            let c = Cmap12::new(lang, gr.iter().map(|r| SequentialMapGroup::new(r.0, r.1, r.2)).collect());
            let rows3 = |it: Vec<(u32, u32, u32)>| V::Arr(it.into_iter().map(|r| vec![V::Z(r.0 as i128), V::Z(r.1 as i128), V::Z(r.2 as i128)]).collect());
            // `length` is hand-computed (Opaque): 16 + 12 n, supplied with the value
            shard(st, cw, "Cmap12", &c, vec![V::Z(0), V::Z(0), V::Z(16 + 12 * n as i128), V::Z(lang as i128), V::Z(0), rows3(gr.clone())], &|b| {
                let t = rt::cmap::Cmap12::read(FontData::new(b)).ok()?;
                let reserved = u16::from_be_bytes([b[2], b[3]]);
                Some(vec![zu16(t.format()), zu16(reserved), V::Z(t.length() as i128), V::Z(t.language() as i128), V::Z(t.num_groups() as i128), rows3(t.groups().iter().map(|r| (r.start_char_code(), r.end_char_code(), r.start_glyph_id())).collect())])
            });
        }
        shards_round7(st, cw, rng);
    }
}

/// round 7: more offset-free types (version-gated 4-byte scalars, fixed-count byte array, 8-byte scalars,
/// four arrays with a plus_one count, record array with a 4-byte member) and types WITH offsets
/// (`CSchemaObj`: nullable / non-nullable, 2- and 4-byte, version-gated offsets, offsets inside record arrays)
fn shards_round7(st: &mut Stats, cw: &mut CaseWriter, rng: &mut Rng) {
    use write_fonts::read::tables as rt;
    let r16 = |rng: &mut Rng| -> u16 {
        match rng.below(4) {
            0 => *rng.pick(&[0u16, 1, 2, 255, 256, 32767, 32768, 65534, 65535]),
            _ => rng.next_u32() as u16,
        }
    };
    let ri16 = |rng: &mut Rng| -> i16 { r16(rng) as i16 };
    let r32 = |rng: &mut Rng| -> u32 {
        match rng.below(4) {
            0 => *rng.pick(&[0u32, 1, 255, 256, 65535, 65536, 0x7FFF_FFFF, 0x8000_0000, 0xFFFF_FFFE, 0xFFFF_FFFF]),
            _ => rng.next_u32(),
        }
    };
    // array lengths with the 0 / 1 / 255 / 256 boundaries (the big ones rare)
    let len = |rng: &mut Rng| -> usize {
        if rng.chance(1, 16) {
            *rng.pick(&[255usize, 256])
        } else {
            *rng.pick(&[0usize, 0, 1, 1, 2, 3, 5, 9])
        }
    };
    let slen = |rng: &mut Rng| -> usize { *rng.pick(&[0usize, 0, 1, 1, 2, 3, 5, 9]) };
    let be16 = |b: &[u8], r: std::ops::Range<usize>| V::Z(u16::from_be_bytes([b[r.start], b[r.start + 1]]) as i128);
    let tag = |rng: &mut Rng| -> Tag {
        let mut c = [0u8; 4];
        for x in c.iter_mut() {
            *x = 0x20 + rng.below(0x5F) as u8;
        }
        Tag::new(&c)
    };
    let ztag = |t: Tag| V::Z(u32::from_be_bytes(t.to_be_bytes()) as i128);

    // OS/2: hand-computed version (0 / 1 / 4 / 5), GVerU-gated 4- and 2-byte scalars, [u8; 10]
    {
        use wt::os2::*;
        let which = rng.below(4);
        let mut panose = [0u8; 10];
        for x in panose.iter_mut() {
            *x = *rng.pick(&[0u8, 1, 2, 127, 128, 254, 255, 7, 42]);
        }
        let mut o = Os2 {
            x_avg_char_width: ri16(rng),
            us_weight_class: r16(rng),
            us_width_class: r16(rng),
            fs_type: r16(rng),
            y_subscript_x_size: ri16(rng),
            y_subscript_y_size: ri16(rng),
            y_subscript_x_offset: ri16(rng),
            y_subscript_y_offset: ri16(rng),
            y_superscript_x_size: ri16(rng),
            y_superscript_y_size: ri16(rng),
            y_superscript_x_offset: ri16(rng),
            y_superscript_y_offset: ri16(rng),
            y_strikeout_size: ri16(rng),
            y_strikeout_position: ri16(rng),
            s_family_class: ri16(rng),
            panose_10: panose,
            ul_unicode_range_1: r32(rng),
            ul_unicode_range_2: r32(rng),
            ul_unicode_range_3: r32(rng),
            ul_unicode_range_4: r32(rng),
            ach_vend_id: tag(rng),
            fs_selection: SelectionFlags::from_bits_truncate(r16(rng)),
            us_first_char_index: r16(rng),
            us_last_char_index: r16(rng),
            s_typo_ascender: ri16(rng),
            s_typo_descender: ri16(rng),
            s_typo_line_gap: ri16(rng),
            us_win_ascent: r16(rng),
            us_win_descent: r16(rng),
            ..Default::default()
        };
        if which >= 1 {
            o.ul_code_page_range_1 = Some(r32(rng));
            o.ul_code_page_range_2 = Some(r32(rng));
        }
        if which >= 2 {
            o.sx_height = Some(ri16(rng));
            o.s_cap_height = Some(ri16(rng));
            o.us_default_char = Some(r16(rng));
            o.us_break_char = Some(r16(rng));
            o.us_max_context = Some(r16(rng));
        }
        if which >= 3 {
            o.us_lower_optical_point_size = Some(r16(rng));
            o.us_upper_optical_point_size = Some(r16(rng));
        }
        // `version` is hand-computed (Opaque): what write-fonts/src/tables/os2.rs compute_version yields here
        let ver = [0u16, 1, 4, 5][which as usize];
        let bytes10 = |p: &[u8]| V::Arr(p.iter().map(|x| vec![V::Z(*x as i128)]).collect());
        let w = vec![
            zu16(ver),
            zi16(o.x_avg_char_width),
            zu16(o.us_weight_class),
            zu16(o.us_width_class),
            zu16(o.fs_type),
            zi16(o.y_subscript_x_size),
            zi16(o.y_subscript_y_size),
            zi16(o.y_subscript_x_offset),
            zi16(o.y_subscript_y_offset),
            zi16(o.y_superscript_x_size),
            zi16(o.y_superscript_y_size),
            zi16(o.y_superscript_x_offset),
            zi16(o.y_superscript_y_offset),
            zi16(o.y_strikeout_size),
            zi16(o.y_strikeout_position),
            zi16(o.s_family_class),
            bytes10(&o.panose_10),
            zu32(o.ul_unicode_range_1),
            zu32(o.ul_unicode_range_2),
            zu32(o.ul_unicode_range_3),
            zu32(o.ul_unicode_range_4),
            ztag(o.ach_vend_id),
            zu16(o.fs_selection.bits()),
            zu16(o.us_first_char_index),
            zu16(o.us_last_char_index),
            zi16(o.s_typo_ascender),
            zi16(o.s_typo_descender),
            zi16(o.s_typo_line_gap),
            zu16(o.us_win_ascent),
            zu16(o.us_win_descent),
            opt32(o.ul_code_page_range_1),
            opt32(o.ul_code_page_range_2),
            opti16(o.sx_height),
            opti16(o.s_cap_height),
            opt16(o.us_default_char),
            opt16(o.us_break_char),
            opt16(o.us_max_context),
            opt16(o.us_lower_optical_point_size),
            opt16(o.us_upper_optical_point_size),
        ];
        shard(st, cw, "Os2", &o, w, &|b| {
            let t = rt::os2::Os2::read(FontData::new(b)).ok()?;
            Some(vec![
                zu16(t.version()),
                zi16(t.x_avg_char_width()),
                zu16(t.us_weight_class()),
                zu16(t.us_width_class()),
                zu16(t.fs_type()),
                zi16(t.y_subscript_x_size()),
                zi16(t.y_subscript_y_size()),
                zi16(t.y_subscript_x_offset()),
                zi16(t.y_subscript_y_offset()),
                zi16(t.y_superscript_x_size()),
                zi16(t.y_superscript_y_size()),
                zi16(t.y_superscript_x_offset()),
                zi16(t.y_superscript_y_offset()),
                zi16(t.y_strikeout_size()),
                zi16(t.y_strikeout_position()),
                zi16(t.s_family_class()),
                bytes10(t.panose_10()),
                zu32(t.ul_unicode_range_1()),
                zu32(t.ul_unicode_range_2()),
                zu32(t.ul_unicode_range_3()),
                zu32(t.ul_unicode_range_4()),
                ztag(t.ach_vend_id()),
                zu16(t.fs_selection().bits()),
                zu16(t.us_first_char_index()),
                zu16(t.us_last_char_index()),
                zi16(t.s_typo_ascender()),
                zi16(t.s_typo_descender()),
                zi16(t.s_typo_line_gap()),
                zu16(t.us_win_ascent()),
                zu16(t.us_win_descent()),
                opt32(t.ul_code_page_range_1()),
                opt32(t.ul_code_page_range_2()),
                opti16(t.sx_height()),
                opti16(t.s_cap_height()),
                opt16(t.us_default_char()),
                opt16(t.us_break_char()),
                opt16(t.us_max_context()),
                opt16(t.us_lower_optical_point_size()),
                opt16(t.us_upper_optical_point_size()),
            ])
        });
    }
    // head: 4-byte Fixed / u32, 8-byte LongDateTime, leading and trailing literals
    {
        use wt::head::*;
        let r64 = |rng: &mut Rng| -> i64 {
            match rng.below(4) {
                0 => *rng.pick(&[0i64, 1, -1, i64::MAX, i64::MIN, 0xFFFF_FFFF, 0x1_0000_0000]),
                _ => rng.next_u64() as i64,
            }
        };
        let mut h = Head::new(Fixed::from_bits(r32(rng) as i32), r32(rng), r16(rng), r16(rng), LongDateTime::new(r64(rng)), LongDateTime::new(r64(rng)), ri16(rng), ri16(rng), ri16(rng), ri16(rng), MacStyle::from_bits_truncate(r16(rng)), r16(rng), ri16(rng));
        h.magic_number = r32(rng);
        h.font_direction_hint = ri16(rng);
        let z64 = |d: LongDateTime| V::Z(d.as_secs() as u64 as i128);
        let w = vec![V::Z(0), zu32(h.font_revision.to_bits() as u32), zu32(h.checksum_adjustment), zu32(h.magic_number), zu16(h.flags), zu16(h.units_per_em), z64(h.created), z64(h.modified), zi16(h.x_min), zi16(h.y_min), zi16(h.x_max), zi16(h.y_max), zu16(h.mac_style.bits()), zu16(h.lowest_rec_ppem), zi16(h.font_direction_hint), zi16(h.index_to_loc_format), V::Z(0)];
        shard(st, cw, "Head", &h, w, &|b| {
            let t = rt::head::Head::read(FontData::new(b)).ok()?;
            let ver = t.version();
            Some(vec![V::Z(((ver.major as i128) << 16) | ver.minor as i128), zu32(t.font_revision().to_bits() as u32), zu32(t.checksum_adjustment()), zu32(t.magic_number()), zu16(t.flags()), zu16(t.units_per_em()), z64(t.created()), z64(t.modified()), zi16(t.x_min()), zi16(t.y_min()), zi16(t.x_max()), zi16(t.y_max()), zu16(t.mac_style().bits()), zu16(t.lowest_rec_ppem()), zi16(t.font_direction_hint()), zi16(t.index_to_loc_format()), zi16(t.glyph_data_format())])
        });
    }
    // vhea: Version16Dot16 literal 1.1, reserved literals
    {
        let h = wt::vhea::Vhea::new(FWord::new(ri16(rng)), FWord::new(ri16(rng)), FWord::new(ri16(rng)), UfWord::new(r16(rng)), FWord::new(ri16(rng)), FWord::new(ri16(rng)), FWord::new(ri16(rng)), ri16(rng), ri16(rng), ri16(rng), r16(rng));
        let w = vec![V::Z(0), zi16(h.ascender.to_i16()), zi16(h.descender.to_i16()), zi16(h.line_gap.to_i16()), zu16(h.advance_height_max.to_u16()), zi16(h.min_top_side_bearing.to_i16()), zi16(h.min_bottom_side_bearing.to_i16()), zi16(h.y_max_extent.to_i16()), zi16(h.caret_slope_rise), zi16(h.caret_slope_run), zi16(h.caret_offset), V::Z(0), V::Z(0), V::Z(0), V::Z(0), V::Z(0), zu16(h.number_of_long_ver_metrics)];
        shard(st, cw, "Vhea", &h, w, &|b| {
            let t = rt::vhea::Vhea::read(FontData::new(b)).ok()?;
            let sh = t.shape();
            Some(vec![zu32(u32::from_be_bytes(t.version().to_be_bytes())), zi16(t.ascender().to_i16()), zi16(t.descender().to_i16()), zi16(t.line_gap().to_i16()), zu16(t.advance_height_max().to_u16()), zi16(t.min_top_side_bearing().to_i16()), zi16(t.min_bottom_side_bearing().to_i16()), zi16(t.y_max_extent().to_i16()), zi16(t.caret_slope_rise()), zi16(t.caret_slope_run()), zi16(t.caret_offset()), be16(b, sh.reserved1_byte_range()), be16(b, sh.reserved2_byte_range()), be16(b, sh.reserved3_byte_range()), be16(b, sh.reserved4_byte_range()), zi16(t.metric_data_format()), zu16(t.number_of_long_ver_metrics())])
        });
    }
    // LangSys (literal-0 reserved offset), ChainedSequenceRule (4 arrays, one plus_one count), Ligature (plus_one)
    let rand_langsys = |rng: &mut Rng, n: usize| -> wt::layout::LangSys {
        let mut ls = wt::layout::LangSys::new((0..n).map(|_| r16(rng)).collect());
        ls.required_feature_index = r16(rng);
        ls
    };
    {
        use wt::layout::*;
        let n = len(rng);
        let ls = rand_langsys(rng, n);
        shard(st, cw, "LangSys", &ls, vec![V::Z(0), zu16(ls.required_feature_index), V::Z(0), scal(ls.feature_indices.clone())], &|b| {
            let t = rt::layout::LangSys::read(FontData::new(b)).ok()?;
            Some(vec![be16(b, t.shape().lookup_order_offset_byte_range()), zu16(t.required_feature_index()), zu16(t.feature_index_count()), scal(t.feature_indices().iter().map(|g| g.get()))])
        });
        let seq = |rng: &mut Rng| -> Vec<u16> {
            let n = len(rng);
            (0..n).map(|_| r16(rng)).collect()
        };
        let (bt, inp, la) = (seq(rng), seq(rng), seq(rng));
        let m = len(rng);
        let recs: Vec<(u16, u16)> = (0..m).map(|_| (r16(rng), r16(rng))).collect();
        let gids = |v: &[u16]| -> Vec<GlyphId16> { v.iter().map(|g| gid(*g)).collect() };
        let rows2 = |it: Vec<(u16, u16)>| V::Arr(it.into_iter().map(|r| vec![zu16(r.0), zu16(r.1)]).collect());
        let cr = ChainedSequenceRule::new(gids(&bt), gids(&inp), gids(&la), recs.iter().map(|r| SequenceLookupRecord::new(r.0, r.1)).collect());
        shard(st, cw, "ChainedSequenceRule", &cr, vec![V::Z(0), scal(bt.clone()), V::Z(0), scal(inp.clone()), V::Z(0), scal(la.clone()), V::Z(0), rows2(recs.clone())], &|b| {
            let t = rt::layout::ChainedSequenceRule::read(FontData::new(b)).ok()?;
            Some(vec![
                zu16(t.backtrack_glyph_count()),
                scal(t.backtrack_sequence().iter().map(|g| g.get().to_u16())),
                zu16(t.input_glyph_count()),
                scal(t.input_sequence().iter().map(|g| g.get().to_u16())),
                zu16(t.lookahead_glyph_count()),
                scal(t.lookahead_sequence().iter().map(|g| g.get().to_u16())),
                zu16(t.seq_lookup_count()),
                rows2(t.seq_lookup_records().iter().map(|r| (r.sequence_index(), r.lookup_list_index())).collect()),
            ])
        });
        let comps = seq(rng);
        let lg = r16(rng);
        let lig = wt::gsub::Ligature::new(gid(lg), gids(&comps));
        shard(st, cw, "Ligature", &lig, vec![zu16(lg), V::Z(0), scal(comps.clone())], &|b| {
            let t = rt::gsub::Ligature::read(FontData::new(b)).ok()?;
            Some(vec![zu16(t.ligature_glyph().to_u16()), zu16(t.component_count()), scal(t.component_glyph_ids().iter().map(|g| g.get().to_u16()))])
        });
    }
    // STAT AxisValueFormat4: format literal, count before two stored scalars, records with a 4-byte Fixed
    {
        use wt::stat::*;
        let n = len(rng);
        let recs: Vec<(u16, u32)> = (0..n).map(|_| (r16(rng), r32(rng))).collect();
        let a = AxisValueFormat4::new(AxisValueTableFlags::from_bits_truncate(r16(rng)), NameId::new(r16(rng)), recs.iter().map(|r| AxisValueRecord::new(r.0, Fixed::from_bits(r.1 as i32))).collect());
        let rows = |it: Vec<(u16, u32)>| V::Arr(it.into_iter().map(|r| vec![zu16(r.0), zu32(r.1)]).collect());
        shard(st, cw, "AxisValueFormat4", &a, vec![V::Z(0), V::Z(0), zu16(a.flags.bits()), zu16(a.value_name_id.to_u16()), rows(recs.clone())], &|b| {
            let t = rt::stat::AxisValueFormat4::read(FontData::new(b)).ok()?;
            Some(vec![zu16(t.format()), zu16(t.axis_count()), zu16(t.flags().bits()), zu16(t.value_name_id().to_u16()), rows(t.axis_values().iter().map(|r| (r.axis_index(), r.value().to_bits() as u32)).collect())])
        });
    }

    // ---- types WITH offsets (CSchemaObj) ----
    let rand_classdef = |rng: &mut Rng| -> wt::layout::ClassDef {
        use wt::layout::*;
        let n = slen(rng);
        if rng.chance(1, 2) {
            ClassDef::format_1(gid(r16(rng)), (0..n).map(|_| r16(rng)).collect())
        } else {
            ClassDef::format_2((0..n).map(|_| ClassRangeRecord::new(gid(r16(rng)), gid(r16(rng)), r16(rng))).collect())
        }
    };
    let null16 = |range: std::ops::Range<usize>, o: Nullable<Offset16>| if o.is_null() { V::Null } else { V::At(range, o.offset().to_u32()) };
    let null32 = |range: std::ops::Range<usize>, o: Nullable<Offset32>| if o.is_null() { V::Null } else { V::At(range, o.offset().to_u32()) };
    let mm = |v: MajorMinor| V::Z(((v.major as i128) << 16) | v.minor as i128);
    let opt = |rng: &mut Rng| rng.chance(1, 2);
    // GDEF: hand-computed version 1.0 / 1.2 / 1.3, four nullable Offset16, gated Offset16, gated Offset32
    {
        use wt::gdef::*;
        use wt::layout::CoverageTable;
        use wt::variations::*;
        let gcd = opt(rng).then(|| rand_classdef(rng));
        let macd = opt(rng).then(|| rand_classdef(rng));
        // children with their own subtables: the embedded bytes are compared with the standalone compilation
        let al = rng.chance(1, 4).then(|| AttachList::new(CoverageTable::format_1(vec![]), vec![]));
        let lcl = rng.chance(1, 4).then(|| LigCaretList::new(CoverageTable::format_1((0..slen(rng)).map(|i| gid(i as u16)).collect()), vec![]));
        let mgs = rng.chance(1, 3).then(|| MarkGlyphSets::new(vec![]));
        let ivs = rng.chance(1, 3).then(|| ItemVariationStore::new(VariationRegionList::new(r16(rng), vec![]), vec![]));
        let mut g = Gdef::new(gcd.clone(), al.clone(), lcl.clone(), macd.clone());
        g.mark_glyph_sets_def = mgs.clone().into();
        g.item_var_store = ivs.clone().into();
        // `version` is hand-computed (Opaque): write-fonts/src/tables/gdef.rs compute_version
        let (ver, gate12, gate13): (i128, bool, bool) = if ivs.is_some() {
            (0x0001_0003, true, true)
        } else if mgs.is_some() {
            (0x0001_0002, true, false)
        } else {
            (0x0001_0000, false, false)
        };
        let w = vec![V::Z(ver), kid_opt(&gcd), kid_opt(&al), kid_opt(&lcl), kid_opt(&macd), if gate12 { kid_opt(&mgs) } else { V::Absent }, if gate13 { kid_opt(&ivs) } else { V::Absent }];
        shard_obj(st, cw, "Gdef", &g, w, &|b| {
            let t = rt::gdef::Gdef::read(FontData::new(b)).ok()?;
            let sh = t.shape();
            let mut own = sh.mark_attach_class_def_offset_byte_range().end;
            let g12 = match (t.mark_glyph_sets_def_offset(), sh.mark_glyph_sets_def_offset_byte_range()) {
                (Some(o), Some(r)) => {
                    own = r.end;
                    null16(r, o)
                }
                (None, None) => V::Absent,
                _ => return None,
            };
            let g13 = match (t.item_var_store_offset(), sh.item_var_store_offset_byte_range()) {
                (Some(o), Some(r)) => {
                    own = r.end;
                    null32(r, o)
                }
                (None, None) => V::Absent,
                _ => return None,
            };
            Some((own, vec![mm(t.version()), null16(sh.glyph_class_def_offset_byte_range(), t.glyph_class_def_offset()), null16(sh.attach_list_offset_byte_range(), t.attach_list_offset()), null16(sh.lig_caret_list_offset_byte_range(), t.lig_caret_list_offset()), null16(sh.mark_attach_class_def_offset_byte_range(), t.mark_attach_class_def_offset()), g12, g13]))
        });
    }
    // Script: nullable Offset16 + record array whose rows hold a Tag and a NON-nullable Offset16
    {
        use wt::layout::*;
        let n = len(rng);
        let dflt = opt(rng).then(|| {
            let k = slen(rng);
            rand_langsys(rng, k)
        });
        // many records: small children (the packer shares identical ones, the offsets then coincide)
        let recs: Vec<(Tag, LangSys)> = (0..n)
            .map(|_| {
                let k = if n > 9 { rng.below(2) as usize } else { slen(rng) };
                (tag(rng), rand_langsys(rng, k))
            })
            .collect();
        let s = Script::new(dflt.clone(), recs.iter().map(|r| LangSysRecord::new(r.0, r.1.clone())).collect());
        let w = vec![kid_opt(&dflt), V::Z(0), V::Arr(recs.iter().map(|r| vec![ztag(r.0), kid(&r.1)]).collect())];
        shard_obj(st, cw, "Script", &s, w, &|b| {
            let t = rt::layout::Script::read(FontData::new(b)).ok()?;
            let sh = t.shape();
            let arr = sh.lang_sys_records_byte_range();
            let rows = t
                .lang_sys_records()
                .iter()
                .enumerate()
                .map(|(i, r)| {
                    // LangSysRecord = Tag (4) + Offset16 (2)
                    let at = arr.start + 6 * i + 4;
                    let o = r.lang_sys_offset();
                    vec![ztag(r.lang_sys_tag()), if o.to_u32() == 0 { V::Null } else { V::At(at..at + 2, o.to_u32()) }]
                })
                .collect();
            Some((arr.end, vec![null16(sh.default_lang_sys_offset_byte_range(), t.default_lang_sys_offset()), zu16(t.lang_sys_count()), V::Arr(rows)]))
        });
    }
    // HVAR: literal version, non-nullable Offset32 + three nullable Offset32
    {
        use wt::variations::*;
        let ivs = ItemVariationStore::new(VariationRegionList::new(r16(rng), vec![]), vec![]);
        let map = |rng: &mut Rng| -> Option<DeltaSetIndexMap> {
            opt(rng).then(|| {
                let fmt = EntryFormat::from_bits_truncate(rng.below(64) as u8);
                let entry = ((fmt.bits() >> 4) & 3) as usize + 1;
                let n = slen(rng);
                let data: Vec<u8> = (0..n * entry).map(|_| rng.next_u32() as u8).collect();
                if rng.chance(1, 2) {
                    DeltaSetIndexMap::format_0(fmt, n as u16, data)
                } else {
                    DeltaSetIndexMap::format_1(fmt, n as u32, data)
                }
            })
        };
        let (aw, lsb, rsb) = (map(rng), map(rng), map(rng));
        let h = wt::hvar::Hvar::new(ivs.clone(), aw.clone(), lsb.clone(), rsb.clone());
        let w = vec![V::Z(0), kid(&ivs), kid_opt(&aw), kid_opt(&lsb), kid_opt(&rsb)];
        shard_obj(st, cw, "Hvar", &h, w, &|b| {
            let t = rt::hvar::Hvar::read(FontData::new(b)).ok()?;
            let sh = t.shape();
            let o = t.item_variation_store_offset();
            let r = sh.item_variation_store_offset_byte_range();
            Some((
                sh.rsb_mapping_offset_byte_range().end,
                vec![
                    mm(t.version()),
                    if o.to_u32() == 0 { V::Null } else { V::At(r, o.to_u32()) },
                    null32(sh.advance_width_mapping_offset_byte_range(), t.advance_width_mapping_offset()),
                    null32(sh.lsb_mapping_offset_byte_range(), t.lsb_mapping_offset()),
                    null32(sh.rsb_mapping_offset_byte_range(), t.rsb_mapping_offset()),
                ],
            ))
        });
    }
    // BASE: hand-computed version 1.0 / 1.1, two nullable Offset16, gated nullable Offset32
    {
        use wt::base::*;
        use wt::variations::*;
        let axis = |rng: &mut Rng| opt(rng).then(|| Axis::new(None, BaseScriptList::new(vec![])));
        let (ha, va) = (axis(rng), axis(rng));
        let ivs = opt(rng).then(|| ItemVariationStore::new(VariationRegionList::new(r16(rng), vec![]), vec![]));
        let mut bt = Base::new(ha.clone(), va.clone());
        bt.item_var_store = ivs.clone().into();
        // `version` is hand-computed (Opaque): write-fonts/src/tables/base.rs compute_version
        let w = vec![V::Z(if ivs.is_some() { 0x0001_0001 } else { 0x0001_0000 }), kid_opt(&ha), kid_opt(&va), if ivs.is_some() { kid_opt(&ivs) } else { V::Absent }];
        shard_obj(st, cw, "Base", &bt, w, &|b| {
            let t = rt::base::Base::read(FontData::new(b)).ok()?;
            let sh = t.shape();
            let mut own = sh.vert_axis_offset_byte_range().end;
            let g11 = match (t.item_var_store_offset(), sh.item_var_store_offset_byte_range()) {
                (Some(o), Some(r)) => {
                    own = r.end;
                    null32(r, o)
                }
                (None, None) => V::Absent,
                _ => return None,
            };
            Some((own, vec![mm(t.version()), null16(sh.horiz_axis_offset_byte_range(), t.horiz_axis_offset()), null16(sh.vert_axis_offset_byte_range(), t.vert_axis_offset()), g11]))
        });
    }
    // FeatureVariations: u32 count, records of two nullable Offset32
    {
        use wt::layout::*;
        let n = slen(rng);
        let recs: Vec<(Option<ConditionSet>, Option<FeatureTableSubstitution>)> = (0..n).map(|_| (opt(rng).then(|| ConditionSet::new(vec![])), opt(rng).then(|| FeatureTableSubstitution::new(vec![])))).collect();
        let fv = FeatureVariations::new(recs.iter().map(|r| FeatureVariationRecord::new(r.0.clone(), r.1.clone())).collect());
        let w = vec![V::Z(0), V::Z(0), V::Arr(recs.iter().map(|r| vec![kid_opt(&r.0), kid_opt(&r.1)]).collect())];
        shard_obj(st, cw, "FeatureVariations", &fv, w, &|b| {
            let t = rt::layout::FeatureVariations::read(FontData::new(b)).ok()?;
            let arr = t.shape().feature_variation_records_byte_range();
            let rows = t
                .feature_variation_records()
                .iter()
                .enumerate()
                .map(|(i, r)| {
                    // FeatureVariationRecord = Offset32 + Offset32
                    let at = arr.start + 8 * i;
                    vec![null32(at..at + 4, r.condition_set_offset()), null32(at + 4..at + 8, r.feature_table_substitution_offset())]
                })
                .collect();
            Some((arr.end, vec![mm(t.version()), zu32(t.feature_variation_record_count()), V::Arr(rows)]))
        });
    }
}

fn main() {
    if std::env::var("C04_SHOW_PANICS").is_err() {
        silence_panics();
    }
    let args: Vec<String> = std::env::args().collect();
    let thorough = tier_is_thorough(&args);
    let seed = seed_from_env();
    let dir = out_dir(&args, "C04");
    let mut rng = Rng::new(seed);
    let mut st = Stats::new();
    let mut cw = CaseWriter::new(
        &dir,
        "From Coq Require Import ZArith List String. Import ListNotations. Open Scope Z_scope. Open Scope string_scope.\nFrom FV Require Import Lib.Cases C04.Model C04.Gen C04.Codec.",
        "c04_case",
        "check_any",
        250,
    );
    corpus(&mut st);
    values_layout(&mut st, &mut rng);
    values_colr(&mut st);
    values_avar(&mut st);
    values_misc(&mut st, &mut rng);
    values_gpos_value_records(&mut st);
    values_handwritten_conversions(&mut st);
    values_devices(&mut st, &mut rng);
    values_distinct_fields(&mut st);
    values_offset_shapes_and_big_counts(&mut st);
    values_offset16_boundaries(&mut st);
    values_composites(&mut st, &mut rng);
    shards(&mut st, &mut cw, &mut rng, thorough);
    values_custom_codecs(&mut st, &mut cw, &mut rng);
    let shards = cw.finish();
    let _ = &mut cw;
    st.v.insert("shards".into(), shards.into());
    st.v.insert("model_cases".into(), cw.len().into());
    st.write(&dir, "every font of font-test-data x every ownable top-level table (+ every glyph): parse -> to_owned_table -> dump_table -> parse -> to_owned_table == first value and dump_table again == first bytes; hand-built values per version/format variant, null/non-null offsets, empty/singleton/large arrays, one probe per version-gated field; non-trivial = distinct value whose round trip was actually exercised (validated + compiled + re-read)");
    println!("evaluations={} shards={} oracle_failures={}", st.evaluations, shards, st.oracle_failures.len());
}
